(* Files that are not members of the logger's file family are ignored, Timestamps naming (rCURRENT and
   r<time stamp>[.restart-NNNN]): a run in a directory that holds foreign files is, step by step, the embedding
   (ForeignFs.embed) of the run in the empty directory.

   - foreign name: the family test of the model rejects it (TsForeignFacts.ts_member c n = false): it is not the current
     file, and the listing extracts no infix from it, or an infix that the time-stamp filter (r%Y-%m-%d_%H-%M-%S as chrono
     parses it) does not accept - as a plain file, as an archive, and with ".gz" removed.  Examples: a_rXYZ.log, a_r1.log,
     a_rCURRENT.txt, a_rCURRENT.log.gz, a_r1970-01-01_00-00-00.log.bak are foreign, and so are the names with a number infix
     or something like it: a_r00001.log, a_r1x.log (number_infix_foreign_t; before the repair of the number filter and of
     latest_timestamp_file the family test of the time-stamp namings had to accept them); a_rCURRENT.log,
     a_r1999-01-01_00-00-00.log, a_r1970-1-1_0-0-0.log are not (member_files_t: what the model does with them: the restart
     counter, the stranger's rCURRENT file, the cleanup).
   - timestamps_foreign_ignored: every criterion, every history OStart c :: ops ++ [OStop] of basic operations with a clock
     that does not run backwards (snapshots included), with or without append, any buffer capacity, use_utc either way.
   - timestamps_stream_foreign: timestamps_stream carries over.
   The embedding lemmas (section CfgT) hold for every world, faults and kills included, as long as the dates that name
   the closed files are of the years 1970..9999. *)
Require Import FL.Base.Bytes FL.Base.BytesFacts FL.Base.PathName FL.Fs.Fs FL.Fs.FsFacts FL.Time.Civil FL.Time.TsFormat
  FL.Names.FileSpec FL.Names.NamesFacts FL.Names.SortFacts FL.Names.FamilyFacts
  FL.Flw.Model FL.Flw.ModelFacts FL.Flw.NumFs FL.Flw.NumInv FL.Flw.Run FL.Flw.RunFacts FL.Flw.NumRun FL.Flw.NumTheorems
  FL.Flw.NumListing FL.Flw.CleanupFacts
  FL.Flw.TsCal FL.Flw.TsTime FL.Flw.TsMono FL.Flw.TsNames FL.Flw.TsInv FL.Flw.TsRun FL.Flw.TsTheorems FL.Flw.TsParse
  FL.Flw.ForeignFs FL.Flw.ForeignSort FL.Flw.ForeignModel FL.Flw.NumForeign FL.Flw.ForeignGen FL.Flw.TsForeignFacts FL.Oracles.O_Flw.
From Coq Require Import ZifyN ZifyNat ZifyBool.
Open Scope nat_scope.

Section CfgT.
Variable fn : list (bytes * nat).
Variable fi : list file.
Variable c : config.
Variable crit : criterion.
Hypothesis Hrot : c_rot c = Some (crit, NTimestamps, KNever).
Hypothesis Hts : fts (c_spec c) = false.
Hypothesis Hlink : c_symlink c = false.
Hypothesis Hforeign : forall n, In n (fnames fn) -> ts_member c n = false.
Notation fnm := (fnames fn).
Notation embw := (embedw fn fi).

Lemma foreign_td n : In n fnm -> tsd_member c n = false.
Proof. intros H. apply Hforeign in H. unfold ts_member in H. apply orb_false_iff in H. apply H. Qed.

Lemma cname_own_t : ~ In (cname c) fnm.
Proof. intros H. apply Hforeign in H. unfold ts_member in H. rewrite beq_refl, orb_true_r in H. discriminate. Qed.

Lemma cur_name_own w : ~ In (name_of c w (Some cur_infix)) fnm.
Proof. rewrite (name_of_nm c Hts). exact cname_own_t. Qed.

(* timestamps::creation_timestamp_of_currentfile: when it rotates, the date that names the closed file must be one of the
   years 1970..9999 *)
Lemma creation_ts_embed w rotate o_date :
  (rotate = true -> in_years (eoff c w) (match o_date with Some d => d | None => birth_or_now w (cname c) end)) ->
  creation_ts_of_current c (embw w) cur_infix rotate o_date std_fmt
  = lw fn fi (creation_ts_of_current c w cur_infix rotate o_date std_fmt).
Proof.
  intros HY. unfold creation_ts_of_current. rewrite !name_of_embed.
  rewrite (birth_or_now_embed fn fi) by apply cur_name_own.
  destruct rotate; [|reflexivity]. specialize (HY eq_refl).
  rewrite (infix_from_ts_embed fn fi c).
  set (date := match o_date with Some d => d | None => birth_or_now w (name_of c w (Some cur_infix)) end).
  assert (Yd : in_years (eoff c w) date).
  { unfold date. rewrite (name_of_nm c Hts). exact HY. }
  destruct (infix_ok c w date Yd) as [Hl Hd].
  rewrite (collision_free_embed fn fi c Hts foreign_td) by assumption.
  destruct (collision_free c w (infix_from_ts c w std_fmt date)) as [r w1] eqn:Ec.
  destruct r as [i| |]; cbn [lw fst snd]; [|reflexivity|reflexivity].
  assert (Hn : ~ In (name_of c w1 (Some i)) fnm) by (eapply (collision_free_name_own fn c Hts foreign_td); eassumption).
  rewrite !name_of_embed. rewrite (p_rename_embed fn fi) by (try exact Hn; apply cur_name_own).
  destruct (p_rename w1 (name_of c w (Some cur_infix)) (name_of c w1 (Some i))) as [rr w2]. cbn [lw fst snd].
  rewrite (birth_or_now_embed fn fi) by apply cur_name_own. destruct rr; reflexivity.
Qed.

Definition good_inner_t (w : world) (st : inner) : Prop :=
  match st with
  | Active (Some rs) _ _ => (exists ts, rs_naming rs = NSTs ts (Some cur_infix) std_fmt /\ in_years (eoff c w) ts) /\ rs_cleanup rs = KNever
  | _ => True
  end.

Lemma mount_next_embed_t w st force : good_inner_t w st ->
  mount_next c (embw w) (shin fi st) force = lm fn fi (mount_next c w st force).
Proof.
  intros G. destruct st as [|[rs|] wr path]; try reflexivity.
  destruct G as [[ts [En Y]] Ek]. destruct rs as [ns roll kc0 bg]. cbn [rs_naming rs_cleanup] in En, Ek. subst ns kc0.
  unfold mount_next. cbn [shin rs_roll rs_naming rs_cleanup rs_bg]. rewrite rotation_necessary_embed.
  destruct (force || rotation_necessary w roll); [|reflexivity].
  rewrite creation_ts_embed by (intros _; exact Y).
  destruct (creation_ts_of_current c w cur_infix true (Some ts) std_fmt) as [r w1].
  destruct r as [ts'| |]; cbn [lw fst snd]; [|reflexivity|reflexivity].
  assert (Hn : ~ In (name_of c w1 (Some cur_infix)) fnm) by apply cur_name_own.
  rewrite (open_log_file_embed fn fi c Hlink) by exact Hn.
  destruct (open_log_file c w1 (Some cur_infix)) as [r2 w2] eqn:Eo. cbn [fst snd].
  destruct r2 as [[wr' path']| |]; cbn [shwp]; [|reflexivity|reflexivity].
  apply open_log_file_path in Eo. subst path'.
  rewrite w_flush_embed. destruct (w_flush w2 wr) as [[okf w2a] wra]. cbn [lw3].
  replace (if okf then embw w2a else report EFlush (embw w2a)) with (embw (if okf then w2a else report EFlush w2a))
    by (destruct okf; [reflexivity | symmetry; apply report_embed]).
  rewrite w_drop_embed, reset_size_and_date_embed by exact Hn.
  rewrite !(cleanup_never_q c). reflexivity.
Qed.

(* the initialisation: without append a current file that is found is renamed by the time of its creation *)
Lemma initialize_embed_t w :
  (c_append c = false -> in_years (eoff c w) (birth_or_now w (cname c))) ->
  initialize c (embw w) = (shres fi (fst (initialize c w)), embw (snd (initialize c w))).
Proof.
  intros HY. unfold initialize. rewrite Hrot. unfold init_naming.
  rewrite creation_ts_embed by (intros E; apply HY; destruct (c_append c); [discriminate | reflexivity]).
  destruct (creation_ts_of_current c w cur_infix (negb (c_append c)) None std_fmt) as [r w1].
  destruct r as [ts| |]; cbn [lw fst snd bind]; [|reflexivity|reflexivity].
  assert (Hn : ~ In (name_of c w1 (Some cur_infix)) fnm) by apply cur_name_own.
  rewrite (open_log_file_embed fn fi c Hlink) by exact Hn.
  destruct (open_log_file c w1 (Some cur_infix)) as [r3 w3] eqn:Eo. cbn [fst snd].
  destruct r3 as [[wr path]| |]; cbn [shwp bind]; [|reflexivity|reflexivity].
  apply open_log_file_path in Eo. subst path.
  rewrite (roll_new_embed fn fi) by exact Hn.
  destruct (roll_new w3 crit (c_append c) (name_of c w1 (Some cur_infix))) as [r4 w4]. cbn [lw fst snd].
  destruct r4 as [roll| |]; cbn [lw fst snd bind]; reflexivity.
Qed.
End CfgT.

(* ------------------------------------------------------------------ the states of the run in the clean directory *)
Section RunT.
Variable fn : list (bytes * nat).
Variable fi : list file.
Variable c : config.
Variable crit : criterion.
Variables e lo hi : Z.
Hypothesis Hcfg : tscfg c crit.
Hypothesis Hyears : years_ok e lo hi.
Hypothesis Hforeign : forall n, In n (fnames fn) -> ts_member c n = false.

Definition good_t (x : sys) : Prop := (exists a n, RelT c e lo n x a) /\ (wnow (s_w x) <= hi)%Z.

Lemma good_t_cfg x s : good_t x -> s_flw x = Some s -> f_cfg s = c /\ f_poisoned s = false.
Proof.
  intros [[a [n [_ [_ R]]]] _] Es. destruct a as [[closed cur]|].
  - destruct R as [keys [wr [roll [ts [E _]]]]]. rewrite E in Es. injection Es as <-. split; reflexivity.
  - destruct R as [E _]. rewrite E in Es. injection Es as <-. split; reflexivity.
Qed.

Lemma good_t_inner x s : good_t x -> s_flw x = Some s -> good_inner_t c (s_w x) (f_inner s).
Proof.
  intros [[a [n [_ [_ R]]]] Hhi] Es. destruct a as [[closed cur]|].
  - destruct R as [keys [wr [roll [ts [E [I _]]]]]]. rewrite E in Es. injection Es as <-. cbn.
    split; [|reflexivity]. exists ts. split; [reflexivity|]. rewrite (ti_off _ _ _ _ _ _ _ _ I).
    apply (years_in e lo hi); [exact Hyears|]. pose proof (ti_ts _ _ _ _ _ _ _ _ I). lia.
  - destruct R as [E _]. rewrite E in Es. injection Es as <-. exact Logic.I.
Qed.

Lemma mount_next_embed_good_t x s : good_t x -> s_flw x = Some s ->
  mount_next c (embedw fn fi (s_w x)) (shin fi (f_inner s)) true = lm fn fi (mount_next c (s_w x) (f_inner s) true).
Proof.
  intros G Es. destruct Hcfg as [Hrot [Hts [Hlink _]]].
  apply (mount_next_embed_t fn fi c Hts Hlink Hforeign). eapply good_t_inner; eassumption.
Qed.

Lemma write_buffer_embed_good_t x s b : good_t x -> s_flw x = Some s ->
  write_buffer (embeds fi s) (embedw fn fi (s_w x)) b = lwb fn fi (write_buffer s (s_w x) b).
Proof.
  intros G Es. pose proof Hcfg as [Hrot [Hts [Hlink _]]].
  pose proof (good_t_inner x s G Es) as Gi. destruct (good_t_cfg x s G Es) as [Ec _].
  destruct G as [[a [n [_ [_ R]]]] Hhi].
  apply (write_buffer_embed_pt fn fi c); [exact Ec | |].
  - (* a new writer: the directory of the clean run is empty, there is no current file, the clock is read *)
    intros Hi. destruct a as [[closed cur]|].
    + destruct R as [keys [wr [roll [ts [E _]]]]]. rewrite E in Es. injection Es as <-. discriminate Hi.
    + destruct R as [_ [Q [Hn [_ [Hoff Hlo]]]]]. apply (initialize_embed_t fn fi c crit Hrot Hts Hlink Hforeign).
      intros _. unfold birth_or_now, file_of. rewrite lookup_empty by exact Hn. rewrite Hoff.
      apply (years_in e lo hi); [exact Hyears | lia].
  - intros w0 st0 H0. destruct a as [[closed cur]|].
    + destruct R as [keys [wr [roll [ts [E _]]]]]. rewrite E in Es. injection Es as <-. cbn [st_ts f_inner] in H0.
      injection H0 as <- <-. apply (mount_next_embed_t fn fi c Hts Hlink Hforeign). exact Gi.
    + destruct R as [E [Q [Hn [Hi [Hoff Hlo]]]]]. rewrite E in Es. injection Es as <-. cbn [new_flw f_inner] in H0.
      destruct (initialize_empty_ts c crit e lo (s_w x) Hcfg Q Hn Hi Hoff Hlo) as [w1 [wr [roll [Ei [_ [_ S1]]]]]].
      rewrite Ei in H0. injection H0 as <- <-.
      apply (mount_next_embed_t fn fi c Hts Hlink Hforeign). cbn. split; [|reflexivity].
      exists (wnow (s_w x)). split; [reflexivity|]. rewrite (eoff_same_env c _ _ S1), Hoff.
      apply (years_in e lo hi); [exact Hyears | lia].
Qed.

(* the directory of such a state holds no foreign name *)
Lemma good_t_fam x : good_t x -> fam_g fn good_t x.
Proof.
  intros G. split; [exact G|]. destruct G as [[a [n [_ [_ R]]]] Hhi].
  intros nme Hn. destruct a as [[closed cur]|].
  - destruct R as [keys [wr [roll [ts [_ [I _]]]]]]. apply dir_names_lookup in Hn. destruct Hn as [j Hj].
    destruct (ti_only _ _ _ _ _ _ _ _ I nme j Hj) as [->|[i [Hi ->]]]; [exact (cname_own_t fn c Hforeign)|].
    apply (kname_own fn c (foreign_td fn c Hforeign)). apply (years_in e lo hi); [exact Hyears|].
    assert (Ik : In (nth i keys kd) keys) by (apply nth_In; rewrite (ti_len _ _ _ _ _ _ _ _ I); lia).
    pose proof (ti_range _ _ _ _ _ _ _ _ I _ Ik). pose proof (ti_ts _ _ _ _ _ _ _ _ I). lia.
  - destruct R as [_ [_ [E _]]]. unfold dir_names in Hn. rewrite E in Hn. destruct Hn.
Qed.
End RunT.

(* ------------------------------------------------------------------ the theorem *)
(* The foreign-name condition: the family test of the model (ts_member, TsForeignFacts.v) rejects the name. *)
Theorem timestamps_foreign_ignored c crit t0 off foreign ops :
  tscfg c crit -> tag_ok c -> Forall basic_op ops -> Forall tick_ok ops ->
  (0 <= t0 + ts_e c off)%Z -> (t0 + elapsed ops + ts_e c off < sec_max)%Z -> (N.of_nat (length ops) <= usize_max)%N ->
  NoDup (List.map fst foreign) ->
  (forall n, In n (List.map fst foreign) -> ts_member c n = false) ->
  let ops' := OStart c :: ops ++ [OStop] in
  let rf := run (sys0f t0 off foreign) ops' in
  let r0 := run (sys0 t0 off) ops' in
  (* 1: the same observations; a snapshot shows the foreign files in addition *)
  List.map (strip_obs (List.map fst foreign)) (snd rf) = snd r0
  /\ (Forall (fun o => o <> OSnap) ops -> snd rf = snd r0)
  (* 2: the foreign files are in place, unchanged *)
  /\ (forall n d, In (n, d) foreign -> file_of (wfs (s_w (fst rf))) n = Some (plain_file t0 d))
  (* 3: every other name is what the run in the empty directory makes of it *)
  /\ (forall n, ~ In n (List.map fst foreign) -> file_of (wfs (s_w (fst rf))) n = file_of (wfs (s_w (fst r0))) n)
  /\ (forall n, In n (List.map fst foreign) -> file_of (wfs (s_w (fst r0))) n = None)
  (* the whole state: the run is the embedding of the run in the empty directory *)
  /\ fst rf = embedx (names (fs0f t0 foreign)) (inodes (fs0f t0 foreign)) (fst r0).
Proof.
  intros Hcfg T Hb Htk Hlo Hhi Hmax ND Hfor. pose proof Hcfg as [Hrot [Hts [Hlink Hasync]]].
  destruct (fs0f_spec t0 foreign ND) as [Hd _].
  assert (Hforeign : forall n, In n (fnames (names (fs0f t0 foreign))) -> ts_member c n = false).
  { intros n Hn. apply Hfor. rewrite <- Hd. exact Hn. }
  assert (Y : years_ok (ts_e c off) t0 (t0 + elapsed ops)) by (split; assumption).
  apply (foreign_ignored_g c (good_t c (ts_e c off) t0 (t0 + elapsed ops)) t0 off foreign ops Hts Hasync).
  - intros x s G Es. eapply good_t_cfg; eassumption.
  - intros x s b G Es. apply (write_buffer_embed_good_t _ _ c crit _ _ _ Hcfg Y Hforeign); assumption.
  - intros x s G Es. apply (mount_next_embed_good_t _ _ c crit _ _ _ Hcfg Y Hforeign); assumption.
  - exact Hb.
  - exact ND.
  - intros i. apply (good_t_fam _ c _ _ _ Y Hforeign).
    destruct (step (sys0 t0 off) (OStart c)) as [x0 ob0] eqn:E0.
    pose proof (start_rel_ts c t0 off) as R0. rewrite E0 in R0. cbn [fst] in *.
    assert (W0 : wnow (s_w x0) = t0) by (cbn in E0; injection E0 as <- _; reflexivity).
    pose proof (elapsed_firstn_le ops Htk i) as El. pose proof (firstn_length_le ops i) as Ll.
    pose proof (run_rel_ts c crit _ _ _ Hcfg T Y (firstn i ops) x0 None 0 R0 (Forall_firstn' _ _ i Hb) (Forall_firstn' _ _ i Htk)
                  ltac:(lia) ltac:(cbn [Nat.add]; lia)) as [R1 W1].
    split; [eauto | lia].
  - intros n Hn. rewrite <- Hd in Hn.
    destruct (timestamps_stream c crit t0 off ops Hcfg T Hb Htk Hlo Hhi Hmax) as [[He _]|[keys [cl [cu [[Hl [_ [_ [Hon _]]]] [_ [_ Rg]]]]]]].
    + apply lookup_empty. exact He.
    + destruct (lookup (wfs (s_w (fst (run (sys0 t0 off) (OStart c :: ops ++ [OStop]))))) n) as [j|] eqn:Ej; [exfalso|reflexivity].
      destruct (Hon n j Ej) as [->|[i [Hi ->]]]; [exact (cname_own_t _ c Hforeign Hn)|].
      revert Hn. apply (kname_own _ c (foreign_td _ c Hforeign)).
      apply (years_in _ _ _ _ Y). apply Rg. apply nth_In. lia.
Qed.
Print Assumptions timestamps_foreign_ignored.

(* ------------------------------------------------------------------ the stream of records *)
(* the family files of a directory that may hold other files, too: the closed files named by the keys, the current file,
   and no other name outside the foreign ones *)
Definition ts_view_family (c : config) (e : Z) (fnm : list bytes) (f : fs) (keys : list key) (closed : list bytes) (cur : bytes) : Prop :=
  length keys = length closed
  /\ (forall i, i < length closed ->
        exists fl, file_of f (kname c e (nth i keys kd)) = Some fl /\ plain fl /\ fdata fl = nth i closed [])
  /\ (exists fl, file_of f (cname c) = Some fl /\ plain fl /\ fdata fl = cur)
  /\ (forall n, ~ In n fnm -> file_of f n <> None -> n = cname c \/ exists i, i < length closed /\ n = kname c e (nth i keys kd)).

(* timestamps_stream carries over: with foreign files in the directory the family files still hold, in the order of
   their keys and with the current file last, exactly the bytes written *)
Theorem timestamps_stream_foreign c crit t0 off foreign ops :
  tscfg c crit -> tag_ok c -> Forall basic_op ops -> Forall tick_ok ops ->
  (0 <= t0 + ts_e c off)%Z -> (t0 + elapsed ops + ts_e c off < sec_max)%Z -> (N.of_nat (length ops) <= usize_max)%N ->
  NoDup (List.map fst foreign) ->
  (forall n, In n (List.map fst foreign) -> ts_member c n = false) ->
  let f := wfs (s_w (fst (run (sys0f t0 off foreign) (OStart c :: ops ++ [OStop])))) in
  ((forall n, ~ In n (List.map fst foreign) -> file_of f n = None) /\ written ops = [])
  \/ exists keys closed cur,
       ts_view_family c (ts_e c off) (List.map fst foreign) f keys closed cur
       /\ concat closed ++ cur = written ops
       /\ keys_ok keys
       /\ (forall k, In k keys -> (t0 <= fst k <= t0 + elapsed ops)%Z).
Proof.
  intros Hcfg T Hb Htk Hlo Hhi Hmax ND Hfor. cbv zeta.
  destruct (timestamps_foreign_ignored c crit t0 off foreign ops Hcfg T Hb Htk Hlo Hhi Hmax ND Hfor) as [_ [_ [_ [H3 _]]]].
  set (ff := wfs (s_w (fst (run (sys0f t0 off foreign) (OStart c :: ops ++ [OStop]))))) in *.
  destruct (timestamps_stream c crit t0 off ops Hcfg T Hb Htk Hlo Hhi Hmax) as [[He Hw]|[keys [cl [cu [[Hl [Hcl [Hcu [Hon _]]]] [Hc [K Rg]]]]]]].
  - left. split; [|exact Hw]. intros n Hn. rewrite (H3 n Hn). unfold file_of. rewrite lookup_empty by exact He. reflexivity.
  - right. exists keys, cl, cu. split; [|split; [exact Hc | split; [exact K | exact Rg]]].
    set (f0 := wfs (s_w (fst (run (sys0 t0 off) (OStart c :: ops ++ [OStop]))))) in *.
    assert (Y : years_ok (ts_e c off) t0 (t0 + elapsed ops)) by (split; assumption).
    assert (Hcn : ~ In (cname c) (List.map fst foreign)).
    { intros Hin. apply Hfor in Hin. unfold ts_member in Hin. rewrite beq_refl, orb_true_r in Hin. discriminate. }
    assert (Hkn : forall i, i < length cl -> ~ In (kname c (ts_e c off) (nth i keys kd)) (List.map fst foreign)).
    { intros i Hi Hin. apply Hfor in Hin. unfold ts_member, tsd_member in Hin. rewrite !orb_false_iff in Hin.
      destruct Hin as [[[Q _] _] _]. unfold kname in Q. rewrite infix_of_tail in Q.
      assert (Yk : in_years (ts_e c off) (fst (nth i keys kd))).
      { apply (years_in _ _ _ _ Y). apply Rg. apply nth_In. lia. }
      rewrite (built_name_member c) in Q;
        [discriminate | apply tsx_like; exact Yk | exact (tsx_no_dot _ _ Yk) | apply ktail_restart_part]. }
    split; [exact Hl|]. split; [|split].
    + intros i Hi. destruct (Hcl i Hi) as [j [Lj [Pj Cj]]]. exists (inode f0 j).
      split; [rewrite (H3 _ (Hkn i Hi)); unfold file_of; rewrite Lj; reflexivity|]. split; [exact Pj | exact Cj].
    + destruct Hcu as [j [Lj [Pj Cj]]]. exists (inode f0 j).
      split; [rewrite (H3 _ Hcn); unfold file_of; rewrite Lj; reflexivity|]. split; [exact Pj | exact Cj].
    + intros n Hn Hex. rewrite (H3 n Hn) in Hex. unfold file_of in Hex.
      destruct (lookup f0 n) as [j|] eqn:Lj; [|congruence]. exact (Hon n j Lj).
Qed.
Print Assumptions timestamps_stream_foreign.

(* ------------------------------------------------------------------ examples *)
Import String.StringSyntax.
Open Scope string_scope.
Definition extf_cfg (k : cleanup) (app : bool) : config :=
  {| c_spec := {| fbase := bs "a"; fdisc := None; fts := false; fsfx := Some (bs "log") |};
     c_append := app; c_cap := Some 3%nat; c_rot := Some (CSize 3, NTimestamps, k); c_utc := false;
     c_symlink := false; c_bg := false; c_async := false; c_start := None |}.
Definition extf_c : config := extf_cfg KNever true.

(* "abcd" is larger than 3: the write of "ef" rotates; the trigger rotates, and - "ghij" is larger than 3 - the write of "k".
   A closed file is named by the second in which it was created as the current file: all three by second 0 *)
Definition extf_ops : list op :=
  [OWrite (bs "abcd"); OWrite (bs "ef"); OTrigger; OTick 1; OWrite (bs "ghij"); OSnap; OWrite (bs "k")].

(* near misses of the family a_rCURRENT.log, a_r<time stamp>[.restart-NNNN].log[.gz]; among them the files of the number
   namings (plain and compressed), a number and a letter, a date without the time, a time stamp and a letter *)
Definition extf_foreign : list (bytes * bytes) :=
  [ (bs "a_r1970-01-01_00-00-00.log.bak", bs "w"); (bs "a_rXYZ.log", bs "x"); (bs "b.log", bs "y");
    (bs "a_r1970-01-01_00-00-00.txt", bs "z"); (bs "a_r1.log", bs "u"); (bs "ax_r1970-01-01_00-00-00.log", bs "v");
    (bs "a_r1970-01-01_00-00-00", bs "t"); (bs "a_rCURRENT.txt", bs "s"); (bs "a.log", bs "q");
    (bs "a_r1970-01-01_00-00-00.restart-00.log", bs "p"); (bs "a_1970-01-01_00-00-00.log", bs "o");
    (bs "a_rCURRENT.log.gz", bs "n"); (bs "a_rCURRENT", bs "m");
    (bs "a_r1x.log", bs "1"); (bs "a_r00001.log", bs "2"); (bs "a_r2030-01-01_00-00-00x.log", bs "3");
    (bs "a_r1970-01-01.log", bs "4"); (bs "a_r00001.log.gz", bs "5") ].

Example foreign_hypotheses_t :
  tscfg extf_c (CSize 3) /\ tag_ok extf_c /\ Forall basic_op extf_ops /\ Forall tick_ok extf_ops
  /\ (0 <= 0 + ts_e extf_c 0)%Z /\ (0 + elapsed extf_ops + ts_e extf_c 0 < sec_max)%Z
  /\ (N.of_nat (length extf_ops) <= usize_max)%N
  /\ NoDup (List.map fst extf_foreign)
  /\ (forall n, In n (List.map fst extf_foreign) -> ts_member extf_c n = false).
Proof.
  split; [repeat split|]. split; [apply tag_free_ok; split; vm_compute; reflexivity|].
  split; [repeat constructor|].
  split; [repeat (apply Forall_cons; [cbn [tick_ok]; first [exact Logic.I | lia]|]); apply Forall_nil|].
  split; [vm_compute; discriminate|]. split; [vm_compute; reflexivity|]. split; [vm_compute; discriminate|]. split.
  - repeat (constructor; [vm_compute; intuition discriminate|]). constructor.
  - intros n Hn. cbn [List.map fst extf_foreign In] in Hn.
    repeat (destruct Hn as [<-|Hn]; [vm_compute; reflexivity|]). destruct Hn.
Qed.

(* the theorem applied *)
Example foreign_instance_t :
  List.map (strip_obs (List.map fst extf_foreign)) (snd (run (sys0f 0 0 extf_foreign) (OStart extf_c :: extf_ops ++ [OStop])))
  = snd (run (sys0 0 0) (OStart extf_c :: extf_ops ++ [OStop])).
Proof.
  destruct foreign_hypotheses_t as [H1 [H2 [H3 [H4 [H5 [H6 [H7 [H8 H9]]]]]]]].
  exact (proj1 (timestamps_foreign_ignored extf_c (CSize 3) 0 0 extf_foreign extf_ops H1 H2 H3 H4 H5 H6 H7 H8 H9)).
Qed.

(* ... and computed: the directory after the run *)
Example foreign_instance_dir_t :
  ex_snap (fst (run (sys0f 0 0 extf_foreign) (OStart extf_c :: extf_ops ++ [OStop])))
  = [ (bs "a.log", 0%N, bs "q");
      (bs "a_1970-01-01_00-00-00.log", 0%N, bs "o");
      (bs "a_r00001.log", 0%N, bs "2");
      (bs "a_r00001.log.gz", 0%N, bs "5");
      (bs "a_r1.log", 0%N, bs "u");
      (bs "a_r1970-01-01.log", 0%N, bs "4");
      (bs "a_r1970-01-01_00-00-00", 0%N, bs "t");
      (bs "a_r1970-01-01_00-00-00.log", 0%N, bs "abcd");
      (bs "a_r1970-01-01_00-00-00.log.bak", 0%N, bs "w");
      (bs "a_r1970-01-01_00-00-00.restart-00.log", 0%N, bs "p");
      (bs "a_r1970-01-01_00-00-00.restart-0000.log", 0%N, bs "ef");
      (bs "a_r1970-01-01_00-00-00.restart-0001.log", 0%N, bs "ghij");
      (bs "a_r1970-01-01_00-00-00.txt", 0%N, bs "z");
      (bs "a_r1x.log", 0%N, bs "1");
      (bs "a_r2030-01-01_00-00-00x.log", 0%N, bs "3");
      (bs "a_rCURRENT", 0%N, bs "m");
      (bs "a_rCURRENT.log", 0%N, bs "k");
      (bs "a_rCURRENT.log.gz", 0%N, bs "n");
      (bs "a_rCURRENT.txt", 0%N, bs "s");
      (bs "a_rXYZ.log", 0%N, bs "x");
      (bs "ax_r1970-01-01_00-00-00.log", 0%N, bs "v");
      (bs "b.log", 0%N, bs "y") ]
  /\ ex_snap (fst (run (sys0 0 0) (OStart extf_c :: extf_ops ++ [OStop])))
  = [ (bs "a_r1970-01-01_00-00-00.log", 0%N, bs "abcd");
      (bs "a_r1970-01-01_00-00-00.restart-0000.log", 0%N, bs "ef");
      (bs "a_r1970-01-01_00-00-00.restart-0001.log", 0%N, bs "ghij");
      (bs "a_rCURRENT.log", 0%N, bs "k") ].
Proof. vm_compute. split; reflexivity. Qed.

(* the observations other than the snapshot are literally the same *)
Example foreign_instance_obs_t :
  filter (fun ob => match ob with ObsSnap _ _ _ => false | _ => true end)
    (snd (run (sys0f 0 0 extf_foreign) (OStart extf_c :: extf_ops ++ [OStop])))
  = [ObsRes 0 false; ObsRes 0 false; ObsRes 0 true; ObsRes 0 false; ObsRes 0 false; ObsRes 0 false; ObsRes 0 true; ObsRes 0 false].
Proof. vm_compute. reflexivity. Qed.

(* Files that pass the family test are NOT foreign, whoever put them there - and the model does act on them:
   (1) a_r1970-01-01_00-00-00.log, a_r1970-01-01_00-00-00.restart-0005.log, a_r1970-01-01_00-00-00.log.gz - the time stamp that
       the first rotation is going to use - : the closed files get the next restart counters (0000.., 0006.., 0000..);
   (2) a stranger's a_rCURRENT.log is taken for the logger's own current file: with append it is continued ("wabcd"),
       without append it is renamed by the time of its creation;
   (3) a_r1999-01-01_00-00-00.log: without cleanup it is left alone and has no influence (its time stamp is not asked for).
       With the cleanup "keep 2 log files" it is listed, counts as the newest file, and one of the logger's own files is
       removed in its place; a_r1960-01-01_00-00-00.log counts as the oldest and IS REMOVED; a_r1970-1-1_0-0-0.log (chrono
       reads it as a time stamp, but it is not the text the format writes) is foreign since the repair of the time-stamp filter.
   All these names DO follow the pattern <fixed>_<infix of the naming>.<suffix>[.gz]: this is legitimate.
   (a_r1x.log, which passes no filter that Timestamps naming applies, was a member here as long as the family test was
   "time-stamp filter or number filter"; it is foreign now: number_infix_foreign_t.) *)
Example member_files_t :
  let run_with k app n := ex_snap (fst (run (sys0f 0 0 [(bs n, bs "w")]) (OStart (extf_cfg k app) :: extf_ops ++ [OStop]))) in
  List.map (ts_member extf_c) [bs "a_r1970-01-01_00-00-00.log"; bs "a_r1970-01-01_00-00-00.restart-0005.log";
                               bs "a_r1970-01-01_00-00-00.log.gz"; bs "a_rCURRENT.log"; bs "a_r1999-01-01_00-00-00.log";
                               bs "a_r1960-01-01_00-00-00.log"; bs "a_r1970-1-1_0-0-0.log"]
  = [true; true; true; true; true; true; false]
  (* 1 *)
  /\ run_with KNever true "a_r1970-01-01_00-00-00.log"
     = [ (bs "a_r1970-01-01_00-00-00.log", 0%N, bs "w");
         (bs "a_r1970-01-01_00-00-00.restart-0000.log", 0%N, bs "abcd");
         (bs "a_r1970-01-01_00-00-00.restart-0001.log", 0%N, bs "ef");
         (bs "a_r1970-01-01_00-00-00.restart-0002.log", 0%N, bs "ghij");
         (bs "a_rCURRENT.log", 0%N, bs "k") ]
  /\ run_with KNever true "a_r1970-01-01_00-00-00.restart-0005.log"
     = [ (bs "a_r1970-01-01_00-00-00.restart-0005.log", 0%N, bs "w");
         (bs "a_r1970-01-01_00-00-00.restart-0006.log", 0%N, bs "abcd");
         (bs "a_r1970-01-01_00-00-00.restart-0007.log", 0%N, bs "ef");
         (bs "a_r1970-01-01_00-00-00.restart-0008.log", 0%N, bs "ghij");
         (bs "a_rCURRENT.log", 0%N, bs "k") ]
  /\ run_with KNever true "a_r1970-01-01_00-00-00.log.gz"
     = [ (bs "a_r1970-01-01_00-00-00.log.gz", 0%N, bs "w");
         (bs "a_r1970-01-01_00-00-00.restart-0000.log", 0%N, bs "abcd");
         (bs "a_r1970-01-01_00-00-00.restart-0001.log", 0%N, bs "ef");
         (bs "a_r1970-01-01_00-00-00.restart-0002.log", 0%N, bs "ghij");
         (bs "a_rCURRENT.log", 0%N, bs "k") ]
  (* 2 *)
  /\ run_with KNever true "a_rCURRENT.log"
     = [ (bs "a_r1970-01-01_00-00-00.log", 0%N, bs "wabcd");
         (bs "a_r1970-01-01_00-00-00.restart-0000.log", 0%N, bs "ef");
         (bs "a_r1970-01-01_00-00-00.restart-0001.log", 0%N, bs "ghij");
         (bs "a_rCURRENT.log", 0%N, bs "k") ]
  /\ run_with KNever false "a_rCURRENT.log"
     = [ (bs "a_r1970-01-01_00-00-00.log", 0%N, bs "w");
         (bs "a_r1970-01-01_00-00-00.restart-0000.log", 0%N, bs "abcd");
         (bs "a_r1970-01-01_00-00-00.restart-0001.log", 0%N, bs "ef");
         (bs "a_r1970-01-01_00-00-00.restart-0002.log", 0%N, bs "ghij");
         (bs "a_rCURRENT.log", 0%N, bs "k") ]
  (* 3 *)
  /\ run_with KNever true "a_r1999-01-01_00-00-00.log"
     = [ (bs "a_r1970-01-01_00-00-00.log", 0%N, bs "abcd");
         (bs "a_r1970-01-01_00-00-00.restart-0000.log", 0%N, bs "ef");
         (bs "a_r1970-01-01_00-00-00.restart-0001.log", 0%N, bs "ghij");
         (bs "a_r1999-01-01_00-00-00.log", 0%N, bs "w");
         (bs "a_rCURRENT.log", 0%N, bs "k") ]
  /\ ex_snap (fst (run (sys0 0 0) (OStart (extf_cfg (KLog 2) true) :: extf_ops ++ [OStop])))
     = [ (bs "a_r1970-01-01_00-00-00.restart-0000.log", 0%N, bs "ef");
         (bs "a_r1970-01-01_00-00-00.restart-0001.log", 0%N, bs "ghij");
         (bs "a_rCURRENT.log", 0%N, bs "k") ]
  /\ run_with (KLog 2) true "a_r1999-01-01_00-00-00.log"
     = [ (bs "a_r1970-01-01_00-00-00.restart-0001.log", 0%N, bs "ghij");
         (bs "a_r1999-01-01_00-00-00.log", 0%N, bs "w");
         (bs "a_rCURRENT.log", 0%N, bs "k") ]
  /\ run_with (KLog 2) true "a_r1960-01-01_00-00-00.log"
     = [ (bs "a_r1970-01-01_00-00-00.restart-0000.log", 0%N, bs "ef");
         (bs "a_r1970-01-01_00-00-00.restart-0001.log", 0%N, bs "ghij");
         (bs "a_rCURRENT.log", 0%N, bs "k") ].
Proof. vm_compute. repeat split. Qed.

(* A NUMBER INFIX IS FOREIGN for this naming: a_r00001.log and a_r00001.log.gz (the files of the number namings),
   a_r1x.log, a_r1backup.log, a_r00001x.log (what the number filter took for numbered files before its repair), a date
   without the time, a time stamp and a letter.  ts_member rejects them; the run with such a file in the directory - with
   append - is the run in the empty directory, the file stays what it was; and the cleanup (computed; the theorems above
   are about runs without cleanup) neither counts nor compresses nor removes them: "keep 1 log file and 1 archive" does to
   the logger's own files what it does in the empty directory. *)
Example number_infix_foreign_t :
  let names := [bs "a_r1x.log"; bs "a_r00001.log"; bs "a_r00001.log.gz"; bs "a_r1.log"; bs "a_r1backup.log"; bs "a_r00001x.log";
                bs "a_r1970-01-01.log"; bs "a_r2030-01-01_00-00-00x.log"] in
  let run_with k app n := ex_snap (fst (run (sys0f 0 0 [(bs n, bs "w")]) (OStart (extf_cfg k app) :: extf_ops ++ [OStop]))) in
  List.map (ts_member extf_c) names = List.map (fun _ => false) names
  /\ Forall (fun n =>
        List.map (strip_obs [n]) (snd (run (sys0f 0 0 [(n, bs "w")]) (OStart extf_c :: extf_ops ++ [OStop])))
        = snd (run (sys0 0 0) (OStart extf_c :: extf_ops ++ [OStop]))
        /\ file_of (wfs (s_w (fst (run (sys0f 0 0 [(n, bs "w")]) (OStart extf_c :: extf_ops ++ [OStop]))))) n
           = Some (plain_file 0 (bs "w"))) names
  /\ ex_snap (fst (run (sys0 0 0) (OStart (extf_cfg (KLogGz 1 1) false) :: extf_ops ++ [OStop])))
     = [ (bs "a_r1970-01-01_00-00-00.restart-0000.log.gz", 1%N, bs "ef");
         (bs "a_r1970-01-01_00-00-00.restart-0001.log", 0%N, bs "ghij");
         (bs "a_rCURRENT.log", 0%N, bs "k") ]
  /\ run_with (KLogGz 1 1) false "a_r00001.log"
     = [ (bs "a_r00001.log", 0%N, bs "w");
         (bs "a_r1970-01-01_00-00-00.restart-0000.log.gz", 1%N, bs "ef");
         (bs "a_r1970-01-01_00-00-00.restart-0001.log", 0%N, bs "ghij");
         (bs "a_rCURRENT.log", 0%N, bs "k") ]
  /\ run_with (KLogGz 1 1) false "a_r00001.log.gz"
     = [ (bs "a_r00001.log.gz", 0%N, bs "w");
         (bs "a_r1970-01-01_00-00-00.restart-0000.log.gz", 1%N, bs "ef");
         (bs "a_r1970-01-01_00-00-00.restart-0001.log", 0%N, bs "ghij");
         (bs "a_rCURRENT.log", 0%N, bs "k") ]
  /\ run_with (KLogGz 1 1) false "a_r1x.log"
     = [ (bs "a_r1970-01-01_00-00-00.restart-0000.log.gz", 1%N, bs "ef");
         (bs "a_r1970-01-01_00-00-00.restart-0001.log", 0%N, bs "ghij");
         (bs "a_r1x.log", 0%N, bs "w");
         (bs "a_rCURRENT.log", 0%N, bs "k") ].
Proof.
  cbv zeta. split; [vm_compute; reflexivity|]. split; [|vm_compute; repeat split; reflexivity].
  repeat (apply Forall_cons; [vm_compute; split; reflexivity|]). apply Forall_nil.
Qed.

(* the foreign file a_rXYZ.log is not touched by that cleanup (computed; the theorems above are about runs without cleanup) *)
Example foreign_file_cleanup_t :
  ts_member extf_c (bs "a_rXYZ.log") = false
  /\ ex_snap (fst (run (sys0f 0 0 [(bs "a_rXYZ.log", bs "w")]) (OStart (extf_cfg (KLog 2) true) :: extf_ops ++ [OStop])))
     = [ (bs "a_r1970-01-01_00-00-00.restart-0000.log", 0%N, bs "ef");
         (bs "a_r1970-01-01_00-00-00.restart-0001.log", 0%N, bs "ghij");
         (bs "a_rCURRENT.log", 0%N, bs "k");
         (bs "a_rXYZ.log", 0%N, bs "w") ].
Proof. vm_compute. split; reflexivity. Qed.

(* the stream theorem applied: the family files hold the bytes written *)
Example stream_instance_t :
  exists keys closed cur,
    ts_view_family extf_c 0 (List.map fst extf_foreign)
      (wfs (s_w (fst (run (sys0f 0 0 extf_foreign) (OStart extf_c :: extf_ops ++ [OStop]))))) keys closed cur
    /\ concat closed ++ cur = bs "abcdefghijk" /\ keys_ok keys /\ (forall k, In k keys -> (0 <= fst k <= 1)%Z).
Proof.
  destruct foreign_hypotheses_t as [H1 [H2 [H3 [H4 [H5 [H6 [H7 [H8 H9]]]]]]]].
  destruct (timestamps_stream_foreign extf_c (CSize 3) 0 0 extf_foreign extf_ops H1 H2 H3 H4 H5 H6 H7 H8 H9) as [[_ X]|X];
    [vm_compute in X; discriminate | exact X].
Qed.
