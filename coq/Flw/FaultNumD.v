(* C19 with rotation, NumbersDirect naming: the model does what the specification FaultNumDSpec.simd says - for EVERY
   fault oracle and EVERY list of records (NumbersDirect naming, size criterion, direct mode, no cleanup, synchronous,
   no symlink, no start-time part in the name; both with and without append; empty records included). *)
Require Import FL.Base.Bytes FL.Base.BytesFacts FL.Base.PathName FL.Fs.Fs FL.Fs.FsFacts FL.Time.Civil FL.Time.TsFormat
  FL.Names.FileSpec FL.Names.NamesFacts FL.Flw.Model FL.Flw.ModelFacts FL.Flw.NumFs FL.Flw.NumInv FL.Flw.Run FL.Flw.RunFacts
  FL.Flw.NumRun FL.Flw.NumListing FL.Oracles.O_Flw FL.Flw.NumTheorems FL.Flw.NumRestart FL.Flw.KillFacts FL.Flw.NumKill
  FL.Flw.NumDInv FL.Flw.NumDRun FL.Flw.NumDRestart
  FL.Flw.FaultFacts FL.Flw.FaultRotSpec FL.Flw.FaultRotation FL.Flw.FaultNumDSpec.
From Coq Require Import ZifyN ZifyNat ZifyBool.
From Coq Require Import Sorted.
Open Scope nat_scope.

(* the directory: exactly the files r<i> for the (number, content) pairs listed *)
Definition gap_view (c : config) (f : fs) (files : list (nat * bytes)) : Prop :=
  (forall i d, In (i, d) files -> exists j, lookup f (rname c i) = Some j /\ plain (inode f j) /\ content f j = d)
  /\ (forall n j, lookup f n = Some j -> exists i d, In (i, d) files /\ n = rname c i).

Section NumD.
Variables (c : config) (m : N).
Hypothesis Hcfg : numdcfg c (CSize m).
Hypothesis Hcap : c_cap c = None.

(* the state of an initialised writer: its file is r<k>, the naming state is at k + s *)
Definition actd (k s : nat) (cur : N) (wr : writer) : inner :=
  Active (Some (mk_rs (NSNumD (N.of_nat (k + s))) (RSize m cur))) wr (rname c k).

(* ---- the rotation check of one write, computed ---- *)
Lemma mount_next_d_fw q fl k s cur wr :
  quiet q -> wpend wr = [] -> lookup (wfs q) (rname c (S (k + s))) = None ->
  mount_next c (fw q fl) (actd k s cur wr) false =
    if (m <? cur)%N then
      if fst (pop fl) then (Err, fw q (snd (pop fl)), actd k (S s) cur wr)
      else (Ok tt, fw (set_fs q (fst (create_file (wfs q) (rname c (S (k + s))) 0%N (wnow q)))) (snd (pop fl)),
            actd (S (k + s)) 0 0 {| wino := snd (create_file (wfs q) (rname c (S (k + s))) 0%N (wnow q)); wpend := []; wcap := c_cap c |})
    else (Ok tt, fw q fl, actd k s cur wr).
Proof.
  intros Q Hp L1. destruct Hcfg as [Hrot [Hts [Hlink _]]].
  unfold mount_next, actd. cbn [mk_rs rs_roll rs_naming rs_cleanup rs_bg orb rotation_necessary]. unfold size_rotation_necessary.
  destruct (m <? cur)%N; [|reflexivity].
  unfold open_log_file. rewrite (name_of_fixed c (fw q fl)) by assumption.
  fold (nm c (number_infix (N.of_nat (k + s) + 1))). rewrite rname_S.
  unfold do_symlink. rewrite Hlink. rewrite p_open_fw by exact Q.
  replace (N.of_nat (k + S s)) with (N.of_nat (k + s) + 1)%N by lia.
  replace (N.of_nat (S (k + s) + 0)) with (N.of_nat (k + s) + 1)%N by lia.
  destruct (pop fl) as [f1 fl1]; cbn [fst snd]. destruct f1; [reflexivity|].
  unfold file_of at 1. rewrite L1.
  assert (Eopen : (if c_append c then open_append (wfs q) (rname c (S (k + s))) (wnow q) else open_trunc (wfs q) (rname c (S (k + s))) 0%N (wnow q))
                  = create_file (wfs q) (rname c (S (k + s))) 0%N (wnow q)).
  { destruct (c_append c); [apply open_append_fresh | apply open_trunc_fresh]; exact L1. }
  rewrite Eopen. rewrite w_flush_nop by exact Hp. cbv beta iota zeta. rewrite w_drop_nop by reflexivity.
  unfold cleanup_or_queue. cbn [cleanup_impl reset_size_and_date]. reflexivity.
Qed.

(* ---- the rest of write_buffer after the rotation check ---- *)
Lemma wb_active_d q fl k s cur wr r1 q1 fl1 k1 s1 cur1 wr1 b :
  mount_next c (fw q fl) (actd k s cur wr) false = (r1, fw q1 fl1, actd k1 s1 cur1 wr1) ->
  r1 <> Panic -> quiet q1 -> wcap wr1 = None ->
  exists q3,
    write_buffer (flw_of c (actd k s cur wr)) (fw q fl) b
    = ((if fst (wr_pop b fl1) then Err else Ok tt), fw q3 (snd (wr_pop b fl1)),
       flw_of c (actd k1 s1 (if fst (wr_pop b fl1) then cur1 else (cur1 + N.of_nat (length b))%N) wr1), (m <? cur)%N)
    /\ reported q1 q3 (match r1 with Err => [ELogFile] | _ => [] end)
    /\ wfs q3 = (if fst (wr_pop b fl1) then wfs q1 else append_ino (wfs q1) (wino wr1) b).
Proof.
  intros M Hr Q1 Hc. unfold actd in *. unfold write_buffer, flw_of. cbn [f_cfg f_inner]. rewrite M.
  cbn [mk_rs rs_roll rotation_necessary]. unfold size_rotation_necessary.
  destruct r1 as [[]| |]; [| |contradiction].
  - destruct (w_write_fw q1 fl1 wr1 b Q1 Hc) as [q3 [E [S F]]]. rewrite E.
    exists q3. split; [|split; [apply same_env_reported; exact S | exact F]].
    destruct (fst (wr_pop b fl1)); cbn [negb with_inner f_cfg f_poisoned mk_rs rs_naming rs_roll rs_cleanup rs_bg increase_size]; reflexivity.
  - rewrite report_fw by exact Q1. destruct (report_reported ELogFile q1 Q1) as [R1 F1].
    destruct (w_write_fw (report ELogFile q1) fl1 wr1 b (proj1 R1) Hc) as [q3 [E [S F]]]. rewrite E.
    exists q3. split; [|split].
    + destruct (fst (wr_pop b fl1)); cbn [negb with_inner f_cfg f_poisoned mk_rs rs_naming rs_roll rs_cleanup rs_bg increase_size]; reflexivity.
    + pose proof (reported_trans _ _ _ _ _ R1 (same_env_reported _ _ S)) as R. cbn [app] in R. exact R.
    + rewrite F, F1. reflexivity.
Qed.

(* ---- the log call around write_buffer ---- *)
Lemma step_write_d x i b r w1 i1 rot :
  s_flw x = Some (flw_of c i) -> s_tl x = [] -> write_buffer (flw_of c i) (s_w x) b = (r, w1, flw_of c i1, rot) -> r <> Panic ->
  step x (OWrite b) = ({| s_flw := Some (flw_of c i1); s_w := match r with Err => report EWrite w1 | _ => w1 end; s_tl := []; s_dead := s_dead x |},
                       ObsRes 0 rot).
Proof.
  intros Es Ht E Hr. destruct Hcfg as [_ [Hts [_ Ha]]].
  rewrite (step_sync_cfg x (OWrite b) (flw_of c i) Es Hts Ha). cbn [sync_step]. rewrite Es. cbn [flw_of f_poisoned].
  rewrite Ht. cbn [app]. fold (flw_of c i). rewrite E. destruct r; [reflexivity | reflexivity | contradiction].
Qed.

Lemma step_write_eq_d x x1 i i1 b :
  s_flw x = Some (flw_of c i) -> s_flw x1 = Some (flw_of c i1) -> s_tl x = [] -> s_tl x1 = [] -> s_dead x1 = s_dead x ->
  write_buffer (flw_of c i) (s_w x) b = write_buffer (flw_of c i1) (s_w x1) b ->
  step x (OWrite b) = step x1 (OWrite b).
Proof.
  intros Es Es1 Ht Ht1 Hd E. destruct Hcfg as [_ [Hts [_ Ha]]].
  rewrite (step_sync_cfg x (OWrite b) (flw_of c i) Es Hts Ha), (step_sync_cfg x1 (OWrite b) (flw_of c i1) Es1 Hts Ha).
  cbn [sync_step]. rewrite Es, Es1. cbn [flw_of f_poisoned]. rewrite Ht, Ht1, Hd. cbn [app].
  fold (flw_of c i) (flw_of c i1). rewrite E. reflexivity.
Qed.

(* ---- the writer and its file r<k>; the closed files cl (number, content), all with numbers below k ---- *)
Record DInv (q : world) (wr : writer) (cl : list (nat * bytes)) (k : nat) (d : bytes) : Prop := {
  di_quiet : quiet q;
  di_wf : fs_wf (wfs q);
  di_cur : lookup (wfs q) (rname c k) = Some (wino wr);
  di_curplain : plain (inode (wfs q) (wino wr));
  di_content : content (wfs q) (wino wr) = d;
  di_pend : wpend wr = [];
  di_cap : wcap wr = None;
  di_closed : forall i x, In (i, x) cl ->
      i < k /\ exists j, lookup (wfs q) (rname c i) = Some j /\ plain (inode (wfs q) j) /\ content (wfs q) j = x;
  di_only : forall n j, lookup (wfs q) n = Some j -> n = rname c k \/ exists i x, In (i, x) cl /\ n = rname c i }.

Lemma dinv_env q q' wr cl k d : DInv q wr cl k d -> wfs q' = wfs q -> quiet q' -> DInv q' wr cl k d.
Proof. intros [Q W Hc Hcp Hco Hp Hca Hcl Hon] F Q'. constructor; try rewrite F; assumption. Qed.

Lemma dinv_append q q' wr cl k d b : DInv q wr cl k d -> quiet q' -> wfs q' = append_ino (wfs q) (wino wr) b ->
  DInv q' wr cl k (d ++ b).
Proof.
  intros [Q W Hc Hcp Hco Hp Hca Hcl Hon] Q' F.
  pose proof (wf_bound _ W _ _ Hc) as Hold.
  constructor; try assumption.
  - rewrite F. apply wf_append. exact W.
  - rewrite F, lookup_append. exact Hc.
  - rewrite F, inode_append, Nat.eqb_refl by assumption. exact Hcp.
  - rewrite F, content_append, Nat.eqb_refl, Hco by assumption. reflexivity.
  - intros i x Hi. destruct (Hcl i x Hi) as [Hlt [j [Lj [Pj Cj]]]]. split; [exact Hlt|]. exists j.
    rewrite F, lookup_append. split; [exact Lj|].
    assert (Hj : j <> wino wr). { intros ->. pose proof (wf_inj _ W _ _ _ Lj Hc) as E. apply rname_inj in E. lia. }
    unfold content. rewrite inode_append by assumption. destruct (Nat.eqb_spec j (wino wr)); [contradiction|]. auto.
  - intros n j. rewrite F, lookup_append. apply Hon.
Qed.

(* a higher number is free *)
Lemma dinv_fresh q wr cl k d k' : DInv q wr cl k d -> k < k' -> lookup (wfs q) (rname c k') = None.
Proof.
  intros I Hk. destruct (lookup (wfs q) (rname c k')) as [j|] eqn:E; [|reflexivity].
  destruct (di_only _ _ _ _ _ I _ _ E) as [E1|[i [x [Hi E1]]]]; apply rname_inj in E1.
  - lia.
  - destruct (di_closed _ _ _ _ _ I i x Hi) as [Hlt _]. lia.
Qed.

(* the creation of r<k'> completes a rotation *)
Lemma dinv_create q wr cl k d k' q3 now : DInv q wr cl k d -> k < k' -> quiet q3 ->
  wfs q3 = fst (create_file (wfs q) (rname c k') 0%N now) ->
  DInv q3 {| wino := snd (create_file (wfs q) (rname c k') 0%N now); wpend := []; wcap := c_cap c |} (cl ++ [(k, d)]) k' [].
Proof.
  intros I Hk Q3 F3. pose proof (dinv_fresh q wr cl k d k' I Hk) as Ht.
  destruct I as [Q W Hc Hcp Hco Hp Hca Hcl Hon].
  pose proof (create_file_spec (wfs q) (rname c k') 0%N now) as CS.
  pose proof (wf_create (wfs q) (rname c k') 0%N now W Ht) as W2.
  destruct (create_file (wfs q) (rname c k') 0%N now) as [f2 new] eqn:Ecf. cbn [fst snd] in *.
  destruct CS as [Enew [Hino [Lc Lo]]].
  assert (Inew : inode f2 new = fresh_file now).
  { unfold inode. rewrite Hino, Enew, inode_app_new. reflexivity. }
  assert (Iold : forall j, j < length (inodes (wfs q)) -> inode f2 j = inode (wfs q) j).
  { intros j Hj. unfold inode. rewrite Hino, inode_app_old by assumption. reflexivity. }
  constructor; cbn [wino wpend wcap]; try rewrite F3.
  - exact Q3.
  - exact W2.
  - exact Lc.
  - rewrite Inew. split; reflexivity.
  - unfold content. rewrite Inew. reflexivity.
  - reflexivity.
  - exact Hcap.
  - intros i x Hi. apply in_app_or in Hi. destruct Hi as [Hi|[Hi|[]]].
    + destruct (Hcl i x Hi) as [Hlt [j [Lj [Pj Cj]]]]. split; [lia|]. exists j.
      rewrite Lo by (intros E; apply rname_inj in E; lia). split; [exact Lj|].
      pose proof (wf_bound _ W _ _ Lj) as Hj. unfold content. rewrite Iold by exact Hj. split; [exact Pj | exact Cj].
    + injection Hi as <- <-. split; [exact Hk|]. exists (wino wr).
      rewrite Lo by (intros E; apply rname_inj in E; lia). split; [exact Hc|].
      pose proof (wf_bound _ W _ _ Hc) as Hj. unfold content. rewrite Iold by exact Hj. split; [exact Hcp | exact Hco].
  - intros n j Hn. destruct (beq_spec n (rname c k')) as [->|Hne]; [left; reflexivity|].
    rewrite Lo in Hn by exact Hne. right. destruct (Hon n j Hn) as [->|[i [x [Hi ->]]]].
    + exists k, d. split; [apply in_or_app; right; left; reflexivity | reflexivity].
    + exists i, x. split; [apply in_or_app; left; exact Hi | reflexivity].
Qed.

Lemma dinv_view q wr cl k d : DInv q wr cl k d -> fs_wf (wfs q) /\ gap_view c (wfs q) (cl ++ [(k, d)]).
Proof.
  intros [Q W Hc Hcp Hco Hp Hca Hcl Hon]. split; [exact W|]. split.
  - intros i x Hi. apply in_app_or in Hi. destruct Hi as [Hi|[Hi|[]]].
    + destruct (Hcl i x Hi) as [_ H]. exact H.
    + injection Hi as <- <-. exists (wino wr). auto.
  - intros n j Hn. destruct (Hon n j Hn) as [->|[i [x [Hi ->]]]].
    + exists k, d. split; [apply in_or_app; right; left; reflexivity | reflexivity].
    + exists i, x. split; [apply in_or_app; left; exact Hi | reflexivity].
Qed.

(* ------------------------------------------------------------------ the invariant of the run *)
Definition DFInv (x : sys) (st : dst) (errs : list ecode) (fl : list bool) : Prop :=
  exists q, s_w x = fw q fl /\ quiet q /\ wacts q = 0 /\ werrs q = errs /\ s_tl x = [] /\
  match st with
  | DInit created =>
    s_flw x = Some (flw_of c Initial) /\ fs_wf (wfs q) /\ direct_view c (wfs q) (if created then [[]] else [])
    /\ (created = true -> c_append c = true)
  | DAct cl k s d => exists wr, s_flw x = Some (flw_of c (actd k s (N.of_nat (length d)) wr)) /\ DInv q wr cl k d
  end.

(* the rotation check has been made (result r1, world q1, oracle fl1, writer wr1 on r<k1>, which holds d1): the write *)
Lemma tail_step_d x q fl k s cur wr r1 q1 fl1 cl1 k1 s1 d1 wr1 errs1 b :
  s_w x = fw q fl -> s_tl x = [] -> s_flw x = Some (flw_of c (actd k s cur wr)) ->
  mount_next c (fw q fl) (actd k s cur wr) false = (r1, fw q1 fl1, actd k1 s1 (N.of_nat (length d1)) wr1) ->
  r1 <> Panic -> wacts q1 = 0 -> werrs q1 = errs1 -> DInv q1 wr1 cl1 k1 d1 ->
  let '(d', e, fl2) := s_write d1 b fl1 in
  exists x' rot, step x (OWrite b) = (x', ObsRes 0 rot)
    /\ DFInv x' (DAct cl1 k1 s1 d') (errs1 ++ (match r1 with Err => [ELogFile] | _ => [] end) ++ e) fl2.
Proof.
  intros Ew Ht Es M Hr Ha1 He1 A1. pose proof (di_quiet _ _ _ _ _ A1) as Q1.
  destruct (wb_active_d q fl k s cur wr r1 q1 fl1 _ _ _ wr1 b M Hr Q1 (di_cap _ _ _ _ _ A1)) as [q3 [E [R3 F3]]].
  unfold s_write. destruct (wr_pop b fl1) as [f fl2]. cbn [fst snd] in *.
  rewrite <- Ew in E. pose proof (step_write_d x _ b _ _ _ _ Es Ht E) as S.
  destruct f.
  - (* the write fails: reported by the handle *)
    eexists _, _. split; [apply S; discriminate|].
    destruct (report_reported EWrite q3 (proj1 R3)) as [R4 F4].
    pose proof (reported_trans _ _ _ _ _ R3 R4) as R.
    exists (report EWrite q3). cbn [s_w s_tl s_flw].
    split; [apply report_fw; apply R3|]. split; [apply R|]. split; [exact (reported_acts _ _ _ R Ha1)|].
    split; [rewrite (reported_errs _ _ _ _ R He1); reflexivity|]. split; [reflexivity|].
    exists wr1. split; [reflexivity|].
    apply (dinv_env q1); [exact A1 | rewrite F4; exact F3 | apply R].
  - eexists _, _. split; [apply S; discriminate|].
    exists q3. cbn [s_w s_tl s_flw].
    split; [reflexivity|]. split; [apply R3|]. split; [exact (reported_acts _ _ _ R3 Ha1)|].
    split; [rewrite (reported_errs _ _ _ _ R3 He1), app_nil_r; reflexivity|]. split; [reflexivity|].
    exists wr1. split; [rewrite app_length, Nat2N.inj_add; reflexivity|].
    apply (dinv_append q1); [exact A1 | apply R3 | exact F3].
Qed.

(* one record on an initialised writer *)
Lemma active_step_d x q fl errs cl k s d wr b :
  s_w x = fw q fl -> wacts q = 0 -> werrs q = errs -> s_tl x = [] ->
  s_flw x = Some (flw_of c (actd k s (N.of_nat (length d)) wr)) -> DInv q wr cl k d ->
  let '(st', e, fl') := d_active m cl k s d b fl in
  exists x' rot, step x (OWrite b) = (x', ObsRes 0 rot) /\ DFInv x' st' (errs ++ e) fl'.
Proof.
  intros Ew Ha He Ht Es A. pose proof (di_quiet _ _ _ _ _ A) as Q.
  assert (Hk : k < S (k + s)) by lia.
  pose proof (dinv_fresh q wr cl k d _ A Hk) as L1.
  pose proof (mount_next_d_fw q fl k s (N.of_nat (length d)) wr Q (di_pend _ _ _ _ _ A) L1) as M.
  unfold d_active. replace (k + s + 1) with (S (k + s)) by lia.
  destruct (m <? N.of_nat (length d))%N.
  - destruct (pop fl) as [f1 fl1]. cbn [fst snd] in M. destruct f1.
    + (* the open fails *)
      pose proof (tail_step_d x q fl _ _ _ wr Err q fl1 cl k (S s) d wr errs b Ew Ht Es M (fun H => ltac:(discriminate H)) Ha He A) as T.
      destruct (s_write d b fl1) as [[d' e] fl2]. exact T.
    + (* the rotation is completed *)
      set (q3 := set_fs q (fst (create_file (wfs q) (rname c (S (k + s))) 0%N (wnow q)))) in *.
      set (wr3 := {| wino := snd (create_file (wfs q) (rname c (S (k + s))) 0%N (wnow q)); wpend := []; wcap := c_cap c |}) in *.
      assert (Q3 : quiet q3) by (apply quiet_set_fs; exact Q).
      assert (A3 : DInv q3 wr3 (cl ++ [(k, d)]) (S (k + s)) []) by (apply (dinv_create q wr cl k d _ q3 (wnow q) A Hk Q3); reflexivity).
      change 0%N with (N.of_nat (length (@nil N))) in M.
      pose proof (tail_step_d x q fl _ _ _ wr (Ok tt) q3 fl1 (cl ++ [(k, d)]) (S (k + s)) 0 [] wr3 errs b Ew Ht Es M (fun H => ltac:(discriminate H)) Ha He A3) as T.
      destruct (s_write [] b fl1) as [[d' e] fl3]. exact T.
  - pose proof (tail_step_d x q fl _ _ _ wr (Ok tt) q fl cl k s d wr errs b Ew Ht Es M (fun H => ltac:(discriminate H)) Ha He A) as T.
    destruct (s_write d b fl) as [[d' e] fl1]. exact T.
Qed.

(* ------------------------------------------------------------------ the initialisation *)
(* a directory without files / with the empty r00000 only *)
Lemma view_nil_none f n : direct_view c f [] -> lookup f n = None.
Proof.
  intros [_ Hon]. destruct (lookup f n) as [j|] eqn:E; [|reflexivity]. destruct (Hon n j E) as [i [Hi _]]. cbn in Hi. lia.
Qed.

Lemma create_view_d f now : fs_wf f -> direct_view c f [] ->
  fs_wf (fst (create_file f (rname c 0) 0%N now))
  /\ direct_view c (fst (create_file f (rname c 0) 0%N now)) [[]]
  /\ lookup (fst (create_file f (rname c 0) 0%N now)) (rname c 0) = Some (snd (create_file f (rname c 0) 0%N now)).
Proof.
  intros W V. pose proof (view_nil_none f (rname c 0) V) as Hnc.
  pose proof (create_file_spec f (rname c 0) 0%N now) as CS.
  pose proof (wf_create f (rname c 0) 0%N now W Hnc) as W2.
  destruct (create_file f (rname c 0) 0%N now) as [f2 new] eqn:Ecf. cbn [fst snd] in *.
  destruct CS as [Enew [Hino [Lc Lo]]].
  assert (Inew : inode f2 new = fresh_file now).
  { unfold inode. rewrite Hino, Enew, inode_app_new. reflexivity. }
  split; [exact W2|]. split; [|exact Lc]. split.
  - intros i Hi. cbn [length] in Hi. assert (i = 0) by lia. subst i. exists new. split; [exact Lc|].
    unfold content. rewrite Inew. split; [split; reflexivity | reflexivity].
  - intros n j Hn. destruct (beq_spec n (rname c 0)) as [->|Hne]; [exists 0; split; [cbn; lia | reflexivity]|].
    rewrite Lo in Hn by exact Hne. rewrite (view_nil_none f n V) in Hn. discriminate.
Qed.

Lemma dinv_of_view1 q j : quiet q -> fs_wf (wfs q) -> direct_view c (wfs q) [[]] -> lookup (wfs q) (rname c 0) = Some j ->
  DInv q {| wino := j; wpend := []; wcap := c_cap c |} [] 0 [].
Proof.
  intros Q W [Hcl Hon] L. destruct (Hcl 0) as [j' [Lj [Pj Cj]]]; [cbn; lia|]. assert (j' = j) by congruence. subst j'.
  constructor; cbn [wino wpend wcap]; try assumption.
  - reflexivity.
  - intros i x [].
  - intros n k Hn. destruct (Hon n k Hn) as [i [Hi ->]]. cbn [length] in Hi. left. f_equal. lia.
Qed.

(* the open/create of r00000 by a writer that is being initialised *)
Lemma open_init_d q fl (created : bool) :
  quiet q -> fs_wf (wfs q) -> direct_view c (wfs q) (if created then [[]] else []) ->
  (created = true -> c_append c = true) ->
  exists f2 ino,
    open_log_file c (fw q fl) (Some (number_infix 0))
    = (if fst (pop fl) then (Err, fw q (snd (pop fl)))
       else (Ok ({| wino := ino; wpend := []; wcap := c_cap c |}, rname c 0), fw (set_fs q f2) (snd (pop fl))))
    /\ fs_wf f2 /\ direct_view c f2 [[]] /\ lookup f2 (rname c 0) = Some ino.
Proof.
  intros Q W R Hc. destruct Hcfg as [Hrot [Hts [Hlink _]]].
  set (opn := if c_append c then open_append (wfs q) (rname c 0) (wnow q) else open_trunc (wfs q) (rname c 0) 0%N (wnow q)).
  assert (Hop : fs_wf (fst opn) /\ direct_view c (fst opn) [[]] /\ lookup (fst opn) (rname c 0) = Some (snd opn)
                /\ match file_of (wfs q) (rname c 0) with Some fl0 => fdir fl0 | None => false end = false).
  { destruct created.
    - pose proof R as [Hcl _]. destruct (Hcl 0) as [j [Lj [Pj Cj]]]; [cbn; lia|].
      assert (E : opn = (wfs q, j)) by (unfold opn, open_append; rewrite (Hc eq_refl), Lj; reflexivity).
      rewrite E. cbn [fst snd]. split; [exact W|]. split; [exact R|]. split; [exact Lj|].
      unfold file_of. rewrite Lj. apply Pj.
    - pose proof (view_nil_none (wfs q) (rname c 0) R) as Lc.
      assert (E : opn = create_file (wfs q) (rname c 0) 0%N (wnow q))
        by (unfold opn; destruct (c_append c); [apply open_append_fresh | apply open_trunc_fresh]; exact Lc).
      rewrite E. destruct (create_view_d (wfs q) (wnow q) W R) as [H1 [H2 H3]].
      split; [exact H1|]. split; [exact H2|]. split; [exact H3|]. unfold file_of. rewrite Lc. reflexivity. }
  destruct Hop as [H1 [H2 [H3 H4]]].
  exists (fst opn), (snd opn). split; [|auto].
  unfold open_log_file. rewrite (name_of_fixed c (fw q fl)) by assumption. fold (nm c (number_infix 0)).
  change (nm c (number_infix 0)) with (rname c 0).
  unfold do_symlink. rewrite Hlink. rewrite p_open_fw by exact Q. rewrite H4. fold opn.
  destruct (fst (pop fl)); reflexivity.
Qed.

(* the oracle entries of one initialisation: None = it succeeds; Some k = it fails (k: after r00000 was created) *)
Definition d_init_pops (app : bool) (fl : list bool) : option bool * list bool :=
  let '(f1, fl1) := pop fl in
  if f1 then (Some false, fl1) else
  let '(f3, fl3) := pop fl1 in
  if f3 then (Some false, fl3) else
  let '(f4, fl4) := if app then pop fl3 else (false, fl3) in
  if f4 then (Some true, fl4) else (None, fl4).

Lemma d_init_alt app created b fl :
  d_init app m created b fl
  = match d_init_pops app fl with
    | (Some k, fl') => (DInit (created || k), [EWrite], fl')
    | (None, fl') => d_active m [] 0 0 [] b fl'
    end.
Proof.
  unfold d_init, d_init_pops. destruct (pop fl) as [f1 fl1]. destruct f1; [rewrite Bool.orb_false_r; reflexivity|].
  destruct (pop fl1) as [f3 fl3]. destruct f3; [rewrite Bool.orb_false_r; reflexivity|].
  destruct (if app then pop fl3 else (false, fl3)) as [f4 fl4]. destruct f4; [rewrite Bool.orb_true_r; reflexivity | reflexivity].
Qed.

Lemma initialize_d_fw q fl (created : bool) :
  quiet q -> fs_wf (wfs q) -> direct_view c (wfs q) (if created then [[]] else []) ->
  (created = true -> c_append c = true) ->
  match d_init_pops (c_append c) fl with
  | (Some k, fl') =>
    exists q', initialize c (fw q fl) = (Err, fw q' fl') /\ same_env q q' /\ fs_wf (wfs q')
      /\ direct_view c (wfs q') (if created || k then [[]] else []) /\ (created || k = true -> c_append c = true)
  | (None, fl') =>
    exists q' wr, initialize c (fw q fl) = (Ok (actd 0 0 0 wr), fw q' fl') /\ same_env q q' /\ DInv q' wr [] 0 []
  end.
Proof.
  intros Q W R Hc. pose proof Hcfg as [Hrot [Hts [Hlink _]]].
  (* a failure before r00000 is created *)
  assert (Fail : forall fl', exists q', (Err : res inner, fw q fl') = (Err, fw q' fl') /\ same_env q q' /\ fs_wf (wfs q')
      /\ direct_view c (wfs q') (if created || false then [[]] else []) /\ (created || false = true -> c_append c = true)).
  { intros fl'. exists q. rewrite Bool.orb_false_r. split; [reflexivity|]. split; [apply same_env_refl; exact Q|]. auto. }
  unfold initialize. rewrite Hrot. unfold init_naming, with_listing. rewrite tick_fw.
  unfold d_init_pops. destruct (pop fl) as [f1 fl1]. cbn [fst snd]. destruct f1; [cbn [bind]; apply Fail|].
  rewrite fixed_of_fixed by assumption. change (woff (fw q fl1)) with (woff q). change (wfs (fw q fl1)) with (wfs q).
  rewrite (highest_index_direct c (woff q) (wfs q) _ R) by (destruct created; cbn; lia).
  (* the index: 0 in both cases *)
  cbn [bind].
  match goal with |- context [number_infix ?t] => assert (E0 : t = 0%N) end.
  { destruct created; [|reflexivity]. cbn [length N.of_nat]. rewrite (Hc eq_refl).
    rewrite (name_of_fixed c (fw q fl1)) by assumption. fold (nm c (number_infix 0)). change (nm c (number_infix 0)) with (rname c 0).
    change (wfs (fw q fl1)) with (wfs q). pose proof R as [Hcl _]. destruct (Hcl 0) as [j [Lj _]]; [cbn; lia|]. rewrite Lj. reflexivity. }
  rewrite E0. clear E0.
  destruct (open_init_d q fl1 created Q W R Hc) as [f2 [ino [Eop [W2 [R2 L2]]]]]. rewrite Eop.
  destruct (pop fl1) as [f3 fl3]. cbn [fst snd]. destruct f3; [cbn [bind]; apply Fail|]. cbn [bind].
  set (q2 := set_fs q f2). assert (Q2 : quiet q2) by (apply quiet_set_fs; exact Q).
  pose proof R2 as [Hcl2 _]. destruct (Hcl2 0) as [j [Lj [Pj Cj]]]; [cbn; lia|]. assert (j = ino) by congruence. subst j.
  cbn [nth] in Cj.
  assert (RN : roll_new (fw q2 fl3) (CSize m) (c_append c) (rname c 0)
               = (let '(f4, fl4) := if c_append c then pop fl3 else (false, fl3) in
                  if f4 then (Err, fw q2 fl4) else (Ok (RSize m 0), fw q2 fl4))).
  { unfold roll_new. destruct (c_append c); [|reflexivity]. rewrite tick_fw. destruct (pop fl3) as [f4 fl4]. cbn [fst snd].
    destruct f4; [reflexivity|]. change (wfs (fw q2 fl4)) with f2. unfold file_of. rewrite L2.
    unfold content in Cj. rewrite Cj. reflexivity. }
  rewrite RN. clear RN.
  destruct (if c_append c then pop fl3 else (false, fl3)) as [f4 fl4] eqn:E4. destruct f4; cbn [bind].
  - (* the metadata call fails: r00000 has been created *)
    exists q2. rewrite Bool.orb_true_r. split; [reflexivity|]. split; [apply same_env_set_fs; exact Q|].
    split; [exact W2|]. split; [exact R2|]. intros _. destruct (c_append c); [reflexivity | discriminate E4].
  - exists q2, {| wino := ino; wpend := []; wcap := c_cap c |}. split; [reflexivity|]. split; [apply same_env_set_fs; exact Q|].
    exact (dinv_of_view1 q2 ino Q2 W2 R2 L2).
Qed.

(* one record on a writer that is not initialised *)
Lemma init_step_d x created errs fl b : DFInv x (DInit created) errs fl ->
  let '(st', e, fl') := d_init (c_append c) m created b fl in
  exists x' rot, step x (OWrite b) = (x', ObsRes 0 rot) /\ DFInv x' st' (errs ++ e) fl'.
Proof.
  intros [q [Ew [Q [Ha [He [Ht [Es [W [R Hc]]]]]]]]]. rewrite d_init_alt.
  pose proof (initialize_d_fw q fl created Q W R Hc) as IF.
  destruct (d_init_pops (c_append c) fl) as [[k|] fl'].
  - (* the initialisation fails: the record is lost, the handle reports it, the writer stays uninitialised *)
    destruct IF as [q' [Ei [S [W' [R' Hc']]]]].
    assert (E : write_buffer (flw_of c Initial) (s_w x) b = (Err, fw q' fl', flw_of c Initial, false)).
    { rewrite Ew. unfold write_buffer. cbn [flw_of f_cfg f_inner]. rewrite Ei. reflexivity. }
    eexists _, _. split; [apply (step_write_d x Initial b Err _ Initial false Es Ht E); discriminate|].
    destruct (report_reported EWrite q' (proj1 S)) as [R4 F4].
    pose proof (reported_trans _ _ _ _ _ (same_env_reported _ _ S) R4) as RR. cbn [app] in RR.
    exists (report EWrite q'). cbn [s_w s_tl s_flw].
    split; [apply report_fw; apply S|]. split; [apply R4|]. split; [exact (reported_acts _ _ _ RR Ha)|].
    split; [exact (reported_errs _ _ _ _ RR He)|]. split; [reflexivity|]. split; [reflexivity|].
    rewrite F4. auto.
  - destruct IF as [q' [wr [Ei [S A]]]].
    set (x1 := {| s_flw := Some (flw_of c (actd 0 0 0 wr)); s_w := fw q' fl'; s_tl := []; s_dead := s_dead x |}).
    assert (E : step x (OWrite b) = step x1 (OWrite b)).
    { apply (step_write_eq_d x x1 Initial (actd 0 0 0 wr) b Es eq_refl Ht eq_refl eq_refl). rewrite Ew. cbn [x1 s_w].
      exact (write_buffer_init c (fw q fl) b _ wr (rname c 0) (fw q' fl') Ei). }
    rewrite E.
    apply (active_step_d x1 q' fl' errs [] 0 0 [] wr b eq_refl).
    + exact (same_env_acts _ _ S Ha).
    + destruct S as [_ [_ [_ [H _]]]]. congruence.
    + reflexivity.
    + reflexivity.
    + exact A.
Qed.

Theorem dfstep x st errs fl b : DFInv x st errs fl ->
  let '(st', e, fl') := dstep (c_append c) m st fl b in
  exists x' rot, step x (OWrite b) = (x', ObsRes 0 rot) /\ DFInv x' st' (errs ++ e) fl'.
Proof.
  intros I. destruct st as [created|cl k s d]; cbn [dstep].
  - apply init_step_d. exact I.
  - destruct I as [q [Ew [Q [Ha [He [Ht [wr [Es A]]]]]]]]. exact (active_step_d x q fl errs cl k s d wr b Ew Ha He Ht Es A).
Qed.

Theorem dfrun : forall recs x st errs fl, DFInv x st errs fl ->
  let '(st', e, fl') := simd_st (c_append c) m st fl recs in
  exists x' obs, run x (List.map OWrite recs) = (x', obs) /\ DFInv x' st' (errs ++ e) fl' /\ Forall obs_normal obs.
Proof.
  induction recs as [|b rest IH]; intros x st errs fl I; cbn [simd_st List.map run].
  - exists x, []. rewrite app_nil_r. split; [reflexivity|]. split; [exact I | constructor].
  - pose proof (dfstep x st errs fl b I) as S. destruct (dstep (c_append c) m st fl b) as [[st1 e1] fl1].
    destruct S as [x1 [rot [S1 I1]]]. specialize (IH x1 st1 (errs ++ e1) fl1 I1).
    destruct (simd_st (c_append c) m st1 fl1 rest) as [[st2 e2] fl2]. destruct IH as [x2 [obs [R [I2 O]]]].
    exists x2, (ObsRes 0 rot :: obs). rewrite S1, R. split; [reflexivity|]. split; [rewrite app_assoc; exact I2|].
    constructor; [exists rot; reflexivity | exact O].
Qed.

(* what the invariant says about the world *)
Lemma dfinv_final x st errs fl : DFInv x st errs fl ->
  fs_wf (wfs (s_w x)) /\ gap_view c (wfs (s_w x)) (d_files st)
  /\ werrs (s_w x) = errs /\ wfaults (s_w x) = fl /\ wkill (s_w x) = None.
Proof.
  intros [q [Ew [Q [Ha [He [Ht I]]]]]]. rewrite Ew. cbn [fw set_faults wfs werrs wfaults wkill].
  assert (V : fs_wf (wfs q) /\ gap_view c (wfs q) (d_files st)).
  { destruct st as [created|cl k s d]; cbn [d_files].
    - destruct I as [_ [W [[Hcl Hon] _]]]. split; [exact W|]. split.
      + intros i y Hi. destruct created; [|destruct Hi]. destruct Hi as [Hi|[]]. injection Hi as <- <-.
        destruct (Hcl 0) as [j H]; [cbn; lia|]. exists j. exact H.
      + intros n j Hn. destruct (Hon n j Hn) as [i [Hi ->]]. destruct created; cbn [length] in Hi; [|lia].
        exists 0, []. split; [left; reflexivity | f_equal; lia].
    - destruct I as [wr [_ I]]. exact (dinv_view q wr cl k d I). }
  destruct V as [W V]. split; [exact W|]. split; [exact V|]. split; [exact He|]. split; [reflexivity | apply Q].
Qed.

Lemma dfinv_start t0 off fl :
  DFInv (fst (step {| s_flw := None; s_w := set_faults (world0 t0 off) fl; s_tl := []; s_dead := false |} (OStart c))) (DInit false) [] fl.
Proof.
  exists (world0 t0 off). split; [reflexivity|]. split; [split; reflexivity|]. split; [reflexivity|]. split; [reflexivity|].
  split; [reflexivity|]. split; [reflexivity|]. split; [exact wf_empty|]. split; [|discriminate].
  split; [intros i Hi; cbn in Hi; lia | intros n j L; discriminate L].
Qed.

(* ---- when no number has been skipped (no open ever failed at a rotation) and the writer is where the naming state is,
        the invariant is the one of the fault-free development (NumDInv / RelD) ---- *)
Lemma seq_files (cl : list (nat * bytes)) : forall a n, List.map fst cl = seq a n ->
  length cl = n /\ forall i, i < n -> In (a + i, nth i (List.map snd cl) []) cl.
Proof.
  induction cl as [|[j y] r IH]; intros a n E; destruct n as [|n]; cbn [List.map seq fst snd] in E; try discriminate.
  - split; [reflexivity | intros i Hi; lia].
  - injection E as -> E. destruct (IH (S a) n E) as [L H]. split; [cbn [length]; lia|].
    intros i Hi. destruct i as [|i]; cbn [List.map snd nth].
    + left. f_equal. lia.
    + right. replace (a + S i) with (S a + i) by lia. apply H. lia.
Qed.

Lemma dinv_numdinv q wr cl k d : DInv q wr cl k d -> List.map fst cl = seq 0 k ->
  NumDInv c q wr (List.map snd cl) /\ cur_view q wr = d /\ length (List.map snd cl) = k.
Proof.
  intros [Q W Hc Hcp Hco Hp Hca Hcl Hon] E. destruct (seq_files cl 0 k E) as [L H].
  assert (Lm : length (List.map snd cl) = k) by (rewrite map_length; exact L).
  split; [|split; [unfold cur_view; rewrite Hp, app_nil_r; exact Hco | exact Lm]].
  constructor; try assumption.
  - rewrite Lm. exact Hc.
  - rewrite Lm. intros i Hi. destruct (Hcl _ _ (H i Hi)) as [_ X]. exact X.
  - rewrite Lm. intros n j Hn. destruct (Hon n j Hn) as [->|[i [x [Hi ->]]]].
    + exists k. split; [lia | reflexivity].
    + destruct (Hcl i x Hi) as [Hlt _]. exists i. split; [lia | reflexivity].
  - unfold wr_ok. rewrite Hca. exact Hp.
  - rewrite Hca, Hcap. reflexivity.
Qed.

Theorem dfinv_reld x cl k d errs : DFInv x (DAct cl k 0 d) errs [] -> List.map fst cl = seq 0 k ->
  RelD c (CSize m) x (Some (List.map snd cl, d)).
Proof.
  intros [q [Ew [Q [Ha [He [Ht [wr [Es I]]]]]]]] E.
  destruct (dinv_numdinv q wr cl k d I E) as [NI [V Lm]].
  split; [exact Ht|]. split; [rewrite Ew; exact Ha|].
  exists wr, (RSize m (N.of_nat (length d))). split.
  { rewrite Es. unfold flw_of, actd, st_of_d. rewrite Lm, Nat.add_0_r. reflexivity. }
  split. { rewrite Ew. apply (numdinv_env c q); [exact NI | reflexivity | split; [reflexivity | apply Q]]. }
  split; [rewrite Ew; exact V|]. split; [reflexivity|]. intros m' E'. injection E' as <-. eauto.
Qed.

End NumD.

(* ------------------------------------------------------------------ the theorems *)
(* (1) For every fault oracle fl and every list of records: after  OStart c :: map OWrite recs  from the empty directory
   with the oracle fl, the directory is exactly what simd says - for each listed (number, content) the file r<number>
   with that content, nothing else; the numbers are strictly increasing (all names different, in the order of creation) -,
   the error channel holds exactly the errors simd lists (with their codes, in order), the oracle is consumed as simd
   says, and every log call (and the start) returns normally: no panic, no error result, the state is never poisoned. *)
Theorem faults_numbersdirect c m t0 off fl recs :
  numdcfg c (CSize m) -> c_cap c = None ->
  let r := run (fsys t0 off fl) (OStart c :: List.map OWrite recs) in
  let '(files, errs, rest) := simd (c_append c) m fl recs in
  fs_wf (wfs (s_w (fst r)))
  /\ gap_view c (wfs (s_w (fst r))) files
  /\ StronglySorted lt (List.map fst files)
  /\ werrs (s_w (fst r)) = errs
  /\ wfaults (s_w (fst r)) = rest
  /\ (forall o, In o (snd r) -> exists rot, o = ObsRes 0 rot).
Proof.
  intros Hcfg Hcap. cbv zeta. unfold simd.
  pose proof (dfinv_start c m t0 off fl) as I0. fold (fsys t0 off fl) in I0.
  pose proof (dfrun c m Hcfg Hcap recs _ _ _ _ I0) as R.
  pose proof (simd_files (c_append c) m recs (DInit false) fl) as SF.
  destruct (simd_st (c_append c) m (DInit false) fl recs) as [[st e] fl']. cbn [fst] in SF.
  destruct R as [x' [obs [R [I O]]]]. cbn [app] in I.
  assert (Rn : run (fsys t0 off fl) (OStart c :: List.map OWrite recs) = (x', ObsRes 0 false :: obs)).
  { cbn [run]. destruct (step (fsys t0 off fl) (OStart c)) as [x1 ob] eqn:E1.
    assert (ob = ObsRes 0 false) by (unfold fsys in E1; cbv in E1; injection E1 as _ <-; reflexivity).
    cbn [fst] in R. rewrite R. subst ob. reflexivity. }
  rewrite Rn. cbn [fst snd].
  destruct (dfinv_final c m x' st e fl' I) as [W [V [He [Hf _]]]].
  split; [exact W|]. split; [exact V|]. split; [apply SF, d_sorted_init|]. split; [exact He|]. split; [exact Hf|].
  intros o [<-|Ho]; [eexists; reflexivity|]. rewrite Forall_forall in O. exact (O o Ho).
Qed.
Print Assumptions faults_numbersdirect.

(* the state-level form: the same with the final state of the specification *)
Lemma faults_numbersdirect_st c m t0 off fl recs :
  numdcfg c (CSize m) -> c_cap c = None ->
  let r := run (fsys t0 off fl) (OStart c :: List.map OWrite recs) in
  let '(st, errs, rest) := simd_st (c_append c) m (DInit false) fl recs in
  fs_wf (wfs (s_w (fst r))) /\ gap_view c (wfs (s_w (fst r))) (d_files st)
  /\ werrs (s_w (fst r)) = errs /\ wfaults (s_w (fst r)) = rest
  /\ (forall o, In o (snd r) -> exists rot, o = ObsRes 0 rot).
Proof.
  intros Hcfg Hcap. pose proof (faults_numbersdirect c m t0 off fl recs Hcfg Hcap) as F. cbv zeta in F |- *. unfold simd in F.
  destruct (simd_st (c_append c) m (DInit false) fl recs) as [[st e] fl']. tauto.
Qed.

(* the stream a reader finds in a directory with these files: the files in the order of their numbers *)
Definition files_stream (files : list (nat * bytes)) : bytes := concat (List.map snd files).

(* (2) in terms of the run, record by record: with t = traced .. the list of log calls (record, its reports, the oracle
   entries its call consumed - they partition the consumed part of the oracle, and the reports are those on the error
   channel), the directory reads as the concatenation of the records that were kept; a record whose log call consumed
   only `false` entries is kept and nothing is reported for it; a record that is missing had a failing call in its own
   log call and was reported with EWrite *)
Theorem numd_lost_only_around_failures_run c m t0 off fl recs :
  numdcfg c (CSize m) -> c_cap c = None ->
  let x := fst (run (fsys t0 off fl) (OStart c :: List.map OWrite recs)) in
  let t := traced (c_append c) m (DInit false) fl recs in
  exists files,
    gap_view c (wfs (s_w x)) files /\ StronglySorted lt (List.map fst files)
    /\ files_stream files = concat (List.map t_kept t)
    /\ List.map t_rec t = recs
    /\ werrs (s_w x) = concat (List.map t_errs t)
    /\ fl = concat (List.map t_used t) ++ wfaults (s_w x)
    /\ (forall e, In e t -> length (t_errs e) = ntrue (t_used e))
    /\ (forall e, In e t -> (forall f, In f (t_used e) -> f = false) -> t_errs e = [] /\ t_kept e = t_rec e)
    /\ (forall e, In e t -> t_kept e <> t_rec e -> In true (t_used e) /\ In EWrite (t_errs e)).
Proof.
  intros Hcfg Hcap. cbv zeta.
  pose proof (faults_numbersdirect c m t0 off fl recs Hcfg Hcap) as Fr. cbv zeta in Fr. unfold simd in Fr.
  pose proof (numd_lost_only_around_failures (c_append c) m fl recs) as L.
  destruct (simd_st (c_append c) m (DInit false) fl recs) as [[st e] fl']. cbv zeta in L.
  destruct Fr as [_ [V [Hso [He [Hf _]]]]]. destruct L as [H1 [H2 [H3 [H4 [H5 [H6 H7]]]]]].
  exists (d_files st). rewrite He, Hf.
  split; [exact V|]. split; [exact Hso|]. split; [exact H4|]. split; [exact H1|]. split; [exact H3|]. split; [exact H2|]. auto.
Qed.
Print Assumptions numd_lost_only_around_failures_run.

(* (2), (3) in terms of the run only: the directory reads as the concatenation of a subsequence `kept` of the records
   (nothing duplicated, nothing reordered, nothing else in the files); each missing record is announced by one EWrite on
   the error channel: #missing = #EWrite <= #reports; the only other code that occurs is ELogFile (a failed open at a
   rotation; the record of that call is not lost) *)
Theorem numd_loss_is_reported_run c m t0 off fl recs :
  numdcfg c (CSize m) -> c_cap c = None ->
  let x := fst (run (fsys t0 off fl) (OStart c :: List.map OWrite recs)) in
  exists files kept,
    gap_view c (wfs (s_w x)) files /\ StronglySorted lt (List.map fst files)
    /\ files_stream files = concat kept /\ Subseq kept recs
    /\ length recs = length kept + nlost (werrs (s_w x))
    /\ nlost (werrs (s_w x)) <= length (werrs (s_w x))
    /\ (forall e, In e (werrs (s_w x)) -> e = EWrite \/ e = ELogFile).
Proof.
  intros Hcfg Hcap. cbv zeta.
  pose proof (faults_numbersdirect c m t0 off fl recs Hcfg Hcap) as F. cbv zeta in F. unfold simd in F.
  pose proof (numd_loss_is_reported (c_append c) m recs (DInit false) fl) as L.
  destruct (simd_st (c_append c) m (DInit false) fl recs) as [[st e] fl'].
  destruct F as [_ [V [Hso [He _]]]]. destruct L as [kept [Hs [Hst [Hl [Hle Hco]]]]].
  exists (d_files st), kept. rewrite He. split; [exact V|]. split; [exact Hso|]. split; [exact Hst|]. auto.
Qed.
Print Assumptions numd_loss_is_reported_run.

(* (4) recovery at the level of the run.  x1: after recs1; x2: after recs1 ++ recs2.  When the oracle that is left after
   recs1 holds no failure any more: nothing more is reported, every record of recs2 is in the stream, the contents
   (closed files, current file) develop by the fault-free size rule s_run - a rotation that is pending because opens
   failed is carried out with the first record -, the new files get the consecutive numbers d_next st1, d_next st1 + 1,
   ..., all larger than every number in use, the files closed before keep number and content: no file is overwritten;
   every call returns normally *)
Theorem numd_recovery_run c m t0 off fl recs1 recs2 :
  numdcfg c (CSize m) -> c_cap c = None ->
  let x1 := fst (run (fsys t0 off fl) (OStart c :: List.map OWrite recs1)) in
  let r2 := run (fsys t0 off fl) (OStart c :: List.map OWrite (recs1 ++ recs2)) in
  let '(st1, _, _) := simd_st (c_append c) m (DInit false) fl recs1 in
  let '(st2, _, _) := simd_st (c_append c) m (DInit false) fl (recs1 ++ recs2) in
  all_false (wfaults (s_w x1)) ->
  gap_view c (wfs (s_w x1)) (d_files st1) /\ gap_view c (wfs (s_w (fst r2))) (d_files st2)
  /\ werrs (s_w (fst r2)) = werrs (s_w x1)
  /\ files_stream (d_files st2) = files_stream (d_files st1) ++ concat recs2
  /\ daview st2 = s_run m (daview st1) (List.map OWrite recs2)
  /\ (exists n, d_idx st2 = d_idx st1 ++ seq (d_next st1) n)
  /\ Forall (fun i => i < d_next st1) (d_idx st1)
  /\ StronglySorted lt (d_idx st2)
  /\ (exists ext, d_closed st2 = d_closed st1 ++ ext)
  /\ (recs2 <> [] -> exists cl k d, st2 = DAct cl k 0 d)
  /\ (forall o, In o (snd r2) -> exists rot, o = ObsRes 0 rot).
Proof.
  intros Hcfg Hcap. cbv zeta.
  pose proof (faults_numbersdirect_st c m t0 off fl recs1 Hcfg Hcap) as F1.
  pose proof (faults_numbersdirect_st c m t0 off fl (recs1 ++ recs2) Hcfg Hcap) as F2.
  pose proof (numd_recovery (c_append c) m fl recs1 recs2) as R.
  pose proof (simd_files (c_append c) m recs1 (DInit false) fl) as SF.
  cbv zeta in F1, F2.
  destruct (simd_st (c_append c) m (DInit false) fl recs1) as [[st1 e1] fl1]. cbn [fst] in SF.
  destruct (simd_st (c_append c) m (DInit false) fl (recs1 ++ recs2)) as [[st2 e2] fl2].
  destruct F1 as [_ [V1 [He1 [Hf1 _]]]]. destruct F2 as [_ [V2 [He2 [_ O2]]]].
  intros Hf. rewrite Hf1 in Hf. destruct (R Hf) as [-> [Hs [Hv [Hi [Hso [Hx Hc]]]]]].
  split; [exact V1|]. split; [exact V2|]. split; [congruence|]. split; [exact Hs|]. split; [exact Hv|].
  split; [exact Hi|]. split; [apply SF, d_sorted_init|]. split; [exact Hso|]. split; [exact Hx|]. split; [exact Hc | exact O2].
Qed.
Print Assumptions numd_recovery_run.

(* (4) for arbitrary further operations.  When the oracle has been used up, the writer is on the file of the naming
   state (which is the case after the first record that follows the last failure: numd_recovery) and no number has been
   skipped (no open failed at a rotation: only initialisation steps and writes failed), the state is related to the
   view (closed contents, current content) by RelD, the invariant of the fault-free development: whatever basic
   operations follow (writes, flushes, rotate(), clock ticks), they behave exactly as in a run without failures from
   that directory - the view follows the size rule s_run, and every write reports whether it rotated.
   (With skipped numbers the same holds for further records by numd_recovery_run; RelD itself describes directories
   without gaps only.) *)
Theorem numd_recovery_run_ops c m t0 off fl recs ops :
  numdcfg c (CSize m) -> c_cap c = None -> Forall basic_op ops ->
  let x := fst (run (fsys t0 off fl) (OStart c :: List.map OWrite recs)) in
  let '(st, _, rest) := simd_st (c_append c) m (DInit false) fl recs in
  rest = [] -> forall cl k d, st = DAct cl k 0 d -> List.map fst cl = seq 0 k ->
    RelD c (CSize m) x (Some (List.map snd cl, d))
    /\ RelD c (CSize m) (fst (run x ops)) (s_run m (Some (List.map snd cl, d)) ops)
    /\ (forall i o b, nth_error ops i = Some o -> (o = OWrite b \/ o = OPlain b) ->
          nth_error (snd (run x ops)) i
          = Some (ObsRes 0 (m <? N.of_nat (length (cur_of (s_run m (Some (List.map snd cl, d)) (firstn i ops)))))%N)).
Proof.
  intros Hcfg Hcap Hb. cbv zeta.
  pose proof (dfinv_start c m t0 off fl) as I0. fold (fsys t0 off fl) in I0.
  pose proof (dfrun c m Hcfg Hcap recs _ _ _ _ I0) as R.
  destruct (simd_st (c_append c) m (DInit false) fl recs) as [[st e] fl'].
  destruct R as [x' [obs [R [I O]]]]. intros -> cl k d -> Hseq.
  assert (Ex : fst (run (fsys t0 off fl) (OStart c :: List.map OWrite recs)) = x').
  { cbn [run]. destruct (step (fsys t0 off fl) (OStart c)) as [x1 ob]. cbn [fst] in R. rewrite R. reflexivity. }
  rewrite Ex. pose proof (dfinv_reld c m Hcap x' cl k d _ I Hseq) as Rl.
  split; [exact Rl|].
  pose proof (run_rel_d c (CSize m) Hcfg ops x' _ Rl Hb) as R2.
  destruct (run_size_d c m Hcfg ops x' _ Rl Hb) as [E2 O2]. rewrite E2 in R2.
  split; [exact R2|]. intros i o b Hi Hw. exact (O2 i o Hi b Hw).
Qed.
Print Assumptions numd_recovery_run_ops.

(* ------------------------------------------------------------------ the statement, computed on examples *)
Import String.StringSyntax.
Open Scope string_scope.
Definition dx_cfg (app : bool) (m : N) : config :=
  {| c_spec := {| fbase := bs "app"; fdisc := None; fts := false; fsfx := Some (bs "log") |};
     c_append := app; c_cap := None; c_rot := Some (CSize m, NNumbersDirect, KNever); c_utc := false;
     c_symlink := false; c_bg := false; c_async := false; c_start := None |}.
Lemma dx_numdcfg app m : numdcfg (dx_cfg app m) (CSize m) /\ c_cap (dx_cfg app m) = None.
Proof. repeat split. Qed.

Definition dx_run (app : bool) (m : N) (fl : list bool) (recs : list bytes)
  : list (bytes * N * bytes) * list ecode * list bool * bool :=
  let r := run (fsys 0 0 fl) (OStart (dx_cfg app m) :: List.map OWrite recs) in
  (snap_of (fst r), werrs (s_w (fst r)), wfaults (s_w (fst r)), forallb obs_normalb (snd r)).
Definition dx_sim (app : bool) (m : N) (fl : list bool) (recs : list bytes)
  : list (bytes * N * bytes) * list ecode * list bool * bool :=
  let '(files, e, rest) := simd app m fl recs in
  (List.map (fun p => (rname (dx_cfg app m) (fst p), 0%N, snd p)) files, e, rest, true).
Definition dagree (app : bool) (m : N) (recs : list bytes) (fl : list bool) : bool :=
  let '(d1, e1, f1, ok1) := dx_run app m fl recs in
  let '(d2, e2, f2, ok2) := dx_sim app m fl recs in
  leqb ent_eqb d1 d2 && leqb ec_eqb e1 e2 && leqb Bool.eqb f1 f2 && Bool.eqb ok1 ok2.
Definition d0 := bs "app_r00000.log".
Definition d1 := bs "app_r00001.log".
Definition d2 := bs "app_r00002.log".
Definition d3 := bs "app_r00003.log".
Definition d4 := bs "app_r00004.log".

(* size limit 3, no append: the first log call makes three fallible calls (read_dir, open, write); a rotation makes one
   (open) *)
(* no failure *)
Example dx_none : dx_run false 3 [] recs5 = ([(d0, 0%N, bs "abcd"); (d1, 0%N, bs "efgh"); (d2, 0%N, bs "ijkl"); (d3, 0%N, bs "mn")], [], [], true)
               /\ dx_sim false 3 [] recs5 = dx_run false 3 [] recs5.
Proof. split; vm_compute; reflexivity. Qed.
(* (i) the open of r00001 at the rotation before "ef" fails: reported (ELogFile), "ef" goes into the over-full r00000; the
   next record rotates - to r00002: the number 1 is skipped *)
Example dx_open_fails : dx_run false 3 [F;F;F; T] recs5 = ([(d0, 0%N, bs "abcdef"); (d2, 0%N, bs "ghijkl"); (d3, 0%N, bs "mn")], [ELogFile], [], true)
               /\ dx_sim false 3 [F;F;F; T] recs5 = dx_run false 3 [F;F;F; T] recs5.
Proof. split; vm_compute; reflexivity. Qed.
(* ... as long as the open fails r00000 grows beyond the limit, each time reported, nothing lost; each failure skips a
   number: after three failures the next file is r00004 *)
Example dx_open_keeps_failing :
  dx_run false 3 [F;F;F; T;F; T;F; T;F] recs5 = ([(d0, 0%N, bs "abcdefghijkl"); (d4, 0%N, bs "mn")], [ELogFile; ELogFile; ELogFile], [], true)
  /\ dx_sim false 3 [F;F;F; T;F; T;F; T;F] recs5 = dx_run false 3 [F;F;F; T;F; T;F; T;F] recs5.
Proof. split; vm_compute; reflexivity. Qed.
(* (iii) the listing of the initialisation fails: "abcd" is lost and reported (EWrite); the next record initialises again *)
Example dx_listing_fails : dx_run false 3 [T] recs3 = ([(d0, 0%N, bs "efgh")], [EWrite], [], true)
               /\ dx_sim false 3 [T] recs3 = dx_run false 3 [T] recs3.
Proof. split; vm_compute; reflexivity. Qed.
(* the open of the initialisation fails (first record), then the listing of the second initialisation (second record) *)
Example dx_init_fails_twice : dx_run false 3 [F;T; T] recs3 = ([(d0, 0%N, bs "gh")], [EWrite; EWrite], [], true)
               /\ dx_sim false 3 [F;T; T] recs3 = dx_run false 3 [F;T; T] recs3.
Proof. split; vm_compute; reflexivity. Qed.
(* with append the calls are read_dir, open, metadata: when metadata fails the created (empty) r00000 stays and is
   continued by the next initialisation *)
Example dx_metadata_fails : dx_run true 3 [F;F;T] [bs "abcd"] = ([(d0, 0%N, [])], [EWrite], [], true)
               /\ dx_sim true 3 [F;F;T] [bs "abcd"] = dx_run true 3 [F;F;T] [bs "abcd"]
               /\ dx_run true 3 [F;F;T] recs3 = ([(d0, 0%N, bs "efgh")], [EWrite], [], true)
               /\ dx_sim true 3 [F;F;T] recs3 = dx_run true 3 [F;F;T] recs3.
Proof. repeat split; vm_compute; reflexivity. Qed.
(* (iv) the write fails: the record is lost and reported (EWrite) *)
Example dx_write_fails : dx_run false 3 [F;F;T] recs3 = ([(d0, 0%N, bs "efgh")], [EWrite], [], true)
               /\ dx_sim false 3 [F;F;T] recs3 = dx_run false 3 [F;F;T] recs3.
Proof. split; vm_compute; reflexivity. Qed.
(* one log call, two reports: the rotation fails (ELogFile) and then the write fails (EWrite): one record lost *)
Example dx_two_reports : dx_run false 3 [F;F;F; T;T] recs3 = ([(d0, 0%N, bs "abcd"); (d2, 0%N, bs "gh")], [ELogFile; EWrite], [], true)
               /\ dx_sim false 3 [F;F;F; T;T] recs3 = dx_run false 3 [F;F;F; T;T] recs3.
Proof. split; vm_compute; reflexivity. Qed.

(* the hypotheses of the theorems hold for these configurations; an instance of (1) and of (4), computed *)
Example dx_instance :
  let '(files, errs, rest) := simd false 3 [F;F;F; T;F; T;T] recs5 in
  files = [(0, bs "abcdef"); (3, bs "ijkl"); (4, bs "mn")] /\ errs = [ELogFile; ELogFile; EWrite] /\ rest = [].
Proof. vm_compute. repeat split. Qed.
Example dx_recovery_instance :
  let '(st1, _, fl1) := simd_st false 3 (DInit false) [F;F;F; T;F; T;T] (firstn 3 recs5) in
  let '(st2, _, _) := simd_st false 3 (DInit false) [F;F;F; T;F; T;T] recs5 in
  fl1 = [] /\ d_files st1 = [(0, bs "abcdef")] /\ d_next st1 = 3 /\ d_idx st2 = d_idx st1 ++ seq 3 2.
Proof. vm_compute. repeat split. Qed.

(* an instance of the hypotheses of numd_recovery_run_ops: initialisation and write failures only, no number skipped *)
Example dx_ops_instance :
  let '(st, e, rest) := simd_st false 3 (DInit false) [T; F;F;T] recs5 in
  rest = [] /\ e = [EWrite; EWrite] /\ st = DAct [(0, bs "ghijkl")] 1 0 (bs "mn") /\ List.map fst [(0, bs "ghijkl")] = seq 0 1.
Proof. vm_compute. repeat split. Qed.

(* run and specification agree on ALL fault oracles up to length 8 (511 oracles), for four settings; empty records
   included (they need no write call); limit 0: every record rotates *)
Example dx_agree_all :
  forallb (dagree false 3 recs5) (all_lists 8) = true
  /\ forallb (dagree true 3 recs5) (all_lists 8) = true
  /\ forallb (dagree false 1 [bs "abcd"; bs ""; bs "efgh"; bs ""; bs "i"]) (all_lists 8) = true
  /\ forallb (dagree true 0 [bs "a"; bs "b"; bs "c"; bs "d"; bs "e"; bs "f"; bs "g"]) (all_lists 8) = true.
Proof. repeat split; vm_compute; reflexivity. Qed.
