(* The configured symlink (FileLogWriterBuilder::create_symlink).

   1. Model.v looks at c_symlink and at the world's link in one place only: do_symlink, called by open_log_file before
      the file is opened.  While no kill is pending (OSetKill is not an operation of these histories) the two calls of
      do_symlink - remove the old link, create the new one - always happen and consume nothing (no fault-oracle entry):
      the link is set to the path that is about to be opened (WorldPar.do_symlink_X).
   2. Hence (WorldPar: the rest of the model does not inspect the link) the run under c and the run under
      nolink c (c with c_symlink := false) go through worlds that are equal except for the link, with the same writer
      states (up to the configuration) and the same observations except for the link component of snapshots:
      LSim, step_lsim, run_lsim, link_sim_whole.  No hypothesis on faults or on the results: the fault oracle may be
      loaded, results may be errors or panics, the write mode may be asynchronous.
   3. symlink_points_to_current: for a synchronous writer, if the run returns normal results and reports nothing on the
      error channel (in particular no rotation fails under way - what the families of the end-to-end theorems guarantee),
      then after every operation: writer state Active _ _ path -> link = Some path; writer state Initial -> the link is
      what it was at the start.  Without that hypothesis the statement is false: the link is created BEFORE the file is
      opened, so a failing open leaves the link pointing to a file that does not exist while the writer goes on
      writing to the old one (ex_link_fault).
   4. Transfer: the stream / partition / no-panic theorems for configurations WITH symlink. *)
Require Import FL.Base.Bytes FL.Base.BytesFacts FL.Base.PathName FL.Fs.Fs FL.Fs.FsFacts FL.Time.Civil FL.Time.TsFormat
  FL.Names.FileSpec FL.Names.NamesFacts FL.Flw.Model FL.Flw.ModelFacts FL.Flw.NumFs FL.Flw.NumInv FL.Flw.Run FL.Flw.RunFacts
  FL.Flw.NumRun FL.Oracles.O_Flw FL.Flw.NumTheorems FL.Flw.NumListing FL.Flw.NumRestart FL.Flw.NumKillRestart
  FL.Flw.NumDInv FL.Flw.NumDRun FL.Flw.NumDTheorems
  FL.Flw.TsCal FL.Flw.TsTime FL.Flw.TsNames FL.Flw.TsInv FL.Flw.TsRun FL.Flw.TsTheorems
  FL.Flw.TsdInv FL.Flw.TsdRun FL.Flw.TsdTheorems
  FL.Flw.CleanupFacts FL.Flw.NumCleanupNames FL.Flw.NumCleanupStep FL.Flw.NumCleanupRun FL.Flw.NumCleanup
  FL.Flw.NoPanic FL.Flw.NumCfg0 FL.Flw.NumAsync FL.Flw.AsyncSim FL.Flw.WorldPar.
From Coq Require Import ZifyN ZifyNat ZifyBool.
Open Scope nat_scope.

(* ------------------------------------------------------------------ 1. the state machine under c and under nolink c *)
Definition unl (s : flw) : flw :=
  {| f_cfg := nolink (f_cfg s); f_inner := f_inner s; f_poisoned := f_poisoned s |}.

Ltac link_norm :=
  unfold initialize, initialize_g, mount_next, mount_next_g, next_naming, finish_rotation, init_naming, latest_timestamp_file,
    creation_ts_of_current, collision_free, index_for_rcurrent, cleanup_or_queue, cleanup_impl, infix_from_ts, name_of, fixed_of, starttxt;
  cbn [nolink c_spec c_append c_cap c_rot c_utc c_bg c_async c_start].

Lemma initialize_nolink c w : initialize (nolink c) w = initialize_g (open_log_file (nolink c)) c w.
Proof. link_norm. reflexivity. Qed.
Lemma mount_next_nolink c w st f : mount_next (nolink c) w st f = mount_next_g (open_log_file (nolink c)) c w st f.
Proof. link_norm. reflexivity. Qed.

Lemma write_buffer_unl s w b :
  write_buffer (unl s) w b
  = let '(r, w', s', rot) := write_buffer_g (open_log_file (nolink (f_cfg s))) s w b in (r, w', unl s', rot).
Proof.
  unfold write_buffer, write_buffer_g, init_part, write_rest. cbn [unl f_cfg f_inner]. rewrite initialize_nolink.
  destruct (f_inner s) as [|o wr p].
  - destruct (initialize_g (open_log_file (nolink (f_cfg s))) (f_cfg s) w) as [[i| |] w0]; try reflexivity.
    rewrite mount_next_nolink. destruct (mount_next_g (open_log_file (nolink (f_cfg s))) (f_cfg s) w0 i false) as [[r1 w1] st1].
    destruct r1 as [u| |]; try reflexivity; destruct st1 as [|o1 wr1 p1]; try reflexivity;
      destruct (w_write _ wr1 b) as [[ok w3] wr']; destruct ok; reflexivity.
  - rewrite mount_next_nolink.
    destruct (mount_next_g (open_log_file (nolink (f_cfg s))) (f_cfg s) w (Active o wr p) false) as [[r1 w1] st1].
    destruct r1 as [u| |]; try reflexivity; destruct st1 as [|o1 wr1 p1]; try reflexivity;
      destruct (w_write _ wr1 b) as [[ok w3] wr']; destruct ok; reflexivity.
Qed.

Lemma flush_state_unl s w : flush_state (unl s) w = let '(ok, w', s') := flush_state s w in (ok, w', unl s').
Proof.
  unfold flush_state. cbn [unl f_inner]. destruct (f_inner s) as [|o wr p]; [reflexivity|].
  destruct (w_flush w wr) as [[ok w1] wr']. reflexivity.
Qed.
Lemma shutdown_state_unl s w : shutdown_state (unl s) w = let '(w', s') := shutdown_state s w in (w', unl s').
Proof.
  unfold shutdown_state, drain_acts. cbn [unl f_inner]. destruct (f_inner s) as [|o wr p]; [reflexivity|].
  destruct (w_flush w wr) as [[ok w1] wr']. reflexivity.
Qed.
Lemma drop_state_unl s w : drop_state (unl s) w = drop_state s w.
Proof.
  unfold drop_state. rewrite shutdown_state_unl. destruct (shutdown_state s w) as [w1 s1].
  rewrite shutdown_state_unl. destruct (shutdown_state s1 w1) as [w2 s2]. reflexivity.
Qed.
Lemma ensure_start_unl s w : ensure_start (unl s) w = unl (ensure_start s w).
Proof.
  unfold ensure_start. cbn [unl f_cfg nolink c_spec c_start]. destruct (fts (c_spec (f_cfg s))); [|reflexivity].
  destruct (c_start (f_cfg s)); reflexivity.
Qed.

(* flush and shutdown keep the path *)
Lemma flush_state_path s w ok w' s' : flush_state s w = (ok, w', s') ->
  forall l0 l, link_st l0 l (f_inner s) -> link_st l0 l (f_inner s').
Proof.
  unfold flush_state. destruct (f_inner s) as [|o wr p] eqn:Ei; [intros E; injection E as _ _ <-; rewrite Ei; auto|].
  destruct (w_flush w wr) as [[ok1 w1] wr']. intros E; injection E as _ _ <-. auto.
Qed.
Lemma shutdown_state_path s w w' s' : shutdown_state s w = (w', s') ->
  forall l0 l, link_st l0 l (f_inner s) -> link_st l0 l (f_inner s').
Proof.
  unfold shutdown_state. destruct (f_inner s) as [|o wr p] eqn:Ei; [intros E; injection E as _ <-; rewrite Ei; auto|].
  destruct (w_flush (drain_acts s w) wr) as [[ok1 w1] wr']. intros E; injection E as _ <-. auto.
Qed.

(* the three operations on the state, from two worlds that differ in the link (l with symlink, l0 without) *)
Lemma write_pair s n w b l l0 :
  exists r w' s' rot n' l',
    write_buffer s (X l [] n w) b = (r, X l' [] n' w', s', rot)
    /\ write_buffer (unl s) (X l0 [] n w) b = (r, X l0 [] n' w', unl s', rot)
    /\ (exists e, werrs w' = werrs w ++ e)
    /\ (c_symlink (f_cfg s) = true -> r = Ok tt -> werrs w' = werrs w ->
        link_st l0 l (f_inner s) -> link_st l0 l' (f_inner s')).
Proof.
  destruct (write_buffer_g_pair _ _ _ (OPs_nolink (f_cfg s)) s n w b) as [r [w' [s' [rot [n' [ol [A [B [Gr G]]]]]]]]].
  exists r, w', s', rot, n', (upd ol l). split; [rewrite write_buffer_g_eq; apply B|].
  split; [rewrite write_buffer_unl, A; reflexivity|]. split; [exact Gr|]. intros Hs Hr He H. exact (G Hs Hr He l0 l H).
Qed.

Lemma mount_pair c n w st f l l0 :
  exists r w' st' n' l',
    mount_next c (X l [] n w) st f = (r, X l' [] n' w', st')
    /\ mount_next (nolink c) (X l0 [] n w) st f = (r, X l0 [] n' w', st')
    /\ (c_symlink c = true -> r = Ok tt -> link_st l0 l st -> link_st l0 l' st').
Proof.
  destruct (mount_next_g_pair _ _ _ (OPs_nolink c) c n w st f) as [r [w' [st' [n' [ol [A [B G]]]]]]].
  exists r, w', st', n', (upd ol l). split; [rewrite mount_next_g_eq; apply B|].
  split; [rewrite mount_next_nolink; apply A|]. intros Hs Hr H. exact (G Hs Hr l0 l H).
Qed.

Lemma flush_pair s n w l l0 :
  exists ok w' s',
    flush_state s (X l [] n w) = (ok, X l [] n w', s')
    /\ flush_state (unl s) (X l0 [] n w) = (ok, X l0 [] n w', unl s').
Proof.
  destruct (flush_state_U s w) as [ok [w' [s' E]]]. exists ok, w', s'. split; [apply E|]. rewrite flush_state_unl, E. reflexivity.
Qed.

Lemma shutdown_pair s n w l l0 :
  exists w' s',
    shutdown_state s (X l [] n w) = (X l [] n w', s')
    /\ shutdown_state (unl s) (X l0 [] n w) = (X l0 [] n w', unl s').
Proof.
  destruct (shutdown_state_U s w) as [w' [s' E]]. exists w', s'. split; [apply E|]. rewrite shutdown_state_unl, E. reflexivity.
Qed.

(* ------------------------------------------------------------------ 2. the simulation *)
(* xs: the system whose writer has the configuration c; xn: the one with nolink c.  The worlds differ in the link only
   (and no kill is pending), the writer states in the configuration only *)
Definition LSim (l0 : option bytes) (xs xn : sys) : Prop :=
  exists w n l s, s_w xs = X l [] n w /\ s_w xn = X l0 [] n w /\ s_tl xs = s_tl xn /\ s_dead xs = s_dead xn
    /\ s_flw xs = Some s /\ s_flw xn = Some (unl s).

(* the link is consistent with the writer state (claimed for the synchronous handle only, see step_core_lsim) *)
Definition link_ok (xs xn : sys) : Prop :=
  forall s, s_flw xs = Some s ->
    c_symlink (f_cfg s) = true /\ c_async (f_cfg s) = false /\ link_st (wlink (s_w xn)) (wlink (s_w xs)) (f_inner s).

(* a snapshot shows the link *)
Definition obs_unlink (ob : obs) : obs := match ob with ObsSnap f _ e => ObsSnap f None e | _ => ob end.

Lemma lsim_worlds l0 xs xn : LSim l0 xs xn ->
  wfs (s_w xs) = wfs (s_w xn) /\ wnow (s_w xs) = wnow (s_w xn) /\ woff (s_w xs) = woff (s_w xn)
  /\ wfaults (s_w xs) = wfaults (s_w xn) /\ wkill (s_w xs) = None /\ wkill (s_w xn) = None
  /\ werrs (s_w xs) = werrs (s_w xn) /\ wacts (s_w xs) = wacts (s_w xn).
Proof. intros [w [n [l [s [-> [-> _]]]]]]. repeat split. Qed.

Ltac sys_destruct xs xn :=
  destruct xs as [fs_ ws_ ts_ ds_]; destruct xn as [fn_ wn_ tn_ dn_]; cbn [s_flw s_w s_tl s_dead] in *; subst.

Lemma apply_start_lsim l0 xs xn o : LSim l0 xs xn ->
  LSim l0 (apply_start xs o) (apply_start xn o) /\ (link_ok xs xn -> link_ok (apply_start xs o) (apply_start xn o)).
Proof.
  intros [w [n [l [s [Ews [Ewn [Et [Hd [Es En]]]]]]]]]. sys_destruct xs xn. unfold apply_start. cbn [s_flw unl f_poisoned s_w].
  destruct (names_computed o && negb (f_poisoned s)).
  - split.
    + exists w, n, l, (ensure_start s (X l [] n w)). cbn [s_flw s_w s_tl s_dead]. repeat split.
      rewrite ensure_start_unl. unfold ensure_start. xs. reflexivity.
    + intros LK s2 H2. cbn [s_flw s_w] in *. injection H2 as <-.
      assert (Ei : f_inner (ensure_start s (X l [] n w)) = f_inner s
                   /\ c_symlink (f_cfg (ensure_start s (X l [] n w))) = c_symlink (f_cfg s)
                   /\ c_async (f_cfg (ensure_start s (X l [] n w))) = c_async (f_cfg s)).
      { unfold ensure_start. destruct (fts (c_spec (f_cfg s))); [|repeat split]. destruct (c_start (f_cfg s)); repeat split. }
      destruct Ei as [Ei [Ec Ea]]. rewrite Ei, Ec, Ea. exact (LK s eq_refl).
  - split; [exists w, n, l, s; repeat split | intros LK; exact LK].
Qed.

(* the synchronous handle *)
Lemma sync_step_lsim l0 xs xn o : LSim l0 xs xn -> basic_op o ->
  LSim l0 (fst (sync_step xs o)) (fst (sync_step xn o))
  /\ obs_unlink (snd (sync_step xs o)) = obs_unlink (snd (sync_step xn o))
  /\ (link_ok xs xn -> obs_ok (snd (sync_step xn o)) -> werrs (s_w (fst (sync_step xn o))) = werrs (s_w xn) ->
      link_ok (fst (sync_step xs o)) (fst (sync_step xn o))).
Proof.
  intros [w [n [l [s [Ews [Ewn [Et [Hd [Es En]]]]]]]]] Hb. sys_destruct xs xn.
  assert (LK0 : link_ok {| s_flw := Some s; s_w := X l [] n w; s_tl := tn_; s_dead := dn_ |}
                        {| s_flw := Some (unl s); s_w := X l0 [] n w; s_tl := tn_; s_dead := dn_ |} ->
                c_symlink (f_cfg s) = true /\ c_async (f_cfg s) = false /\ link_st l0 l (f_inner s)).
  { intros LK. exact (LK s eq_refl). }
  destruct o; try contradiction; cbn [sync_step s_flw s_w s_tl s_dead unl f_poisoned].
  - (* OWrite *)
    destruct (f_poisoned s) eqn:Hp.
    + cbn [fst snd]. split; [exists w, n, l, s; repeat split|]. split; [reflexivity|]. intros LK _ _ s2 H2. exact (LK s2 H2).
    + destruct (write_pair s n w (tn_ ++ b) l l0) as [r [w' [s' [rot [n' [l' [A [B [[e Gr] G]]]]]]]]].
      fold (unl s). rewrite A, B. destruct (write_buffer_keeps _ _ _ _ _ _ _ A) as [Kc _]. cbn [fst snd].
      split; [|split; [reflexivity|]].
      * destruct r as [u| |]; rewrite ?report_X; eexists _, n', l', s'; cbn [s_flw s_w s_tl s_dead]; repeat split.
      * intros LK Hok He s2 H2. cbn [s_flw s_w] in *. injection H2 as <-. rewrite Kc. destruct (LK0 LK) as [Hs2 [Ha2 L2]].
        split; [exact Hs2|]. split; [exact Ha2|].
        destruct r as [[]| |]; [| |discriminate Hok].
        -- xs. cbn [app] in He. exact (G Hs2 eq_refl He L2).
        -- exfalso. rewrite report_X in He. cbn [X rep werrs app] in He. rewrite Gr, <- app_assoc in He.
           apply app_self_nil in He. destruct e; discriminate He.
  - (* OPlain *)
    destruct (f_poisoned s) eqn:Hp.
    + cbn [fst snd]. split; [exists w, n, l, s; repeat split|]. split; [reflexivity|]. intros LK _ _ s2 H2. exact (LK s2 H2).
    + destruct (write_pair s n w b l l0) as [r [w' [s' [rot [n' [l' [A [B [[e Gr] G]]]]]]]]].
      fold (unl s). rewrite A, B. destruct (write_buffer_keeps _ _ _ _ _ _ _ A) as [Kc _]. cbn [fst snd].
      split; [exists w', n', l', s'; repeat split|]. split; [reflexivity|].
      intros LK Hok He s2 H2. cbn [s_flw s_w] in *. injection H2 as <-. rewrite Kc. destruct (LK0 LK) as [Hs2 [Ha2 L2]].
      split; [exact Hs2|]. split; [exact Ha2|].
      destruct r as [[]| |]; [|discriminate Hok|discriminate Hok].
      xs. cbn [app] in He. exact (G Hs2 eq_refl He L2).
  - (* OFlush *)
    destruct (f_poisoned s) eqn:Hp.
    + cbn [fst snd]. split; [exists w, n, l, s; repeat split|]. split; [reflexivity|]. intros LK _ _ s2 H2. exact (LK s2 H2).
    + destruct (flush_pair s n w l l0) as [ok [w' [s' [A B]]]]. fold (unl s). rewrite A, B.
      destruct (flush_state_keeps _ _ _ _ _ A) as [Kc _]. cbn [fst snd].
      split; [exists w', n, l, s'; repeat split|]. split; [reflexivity|].
      intros LK _ _ s2 H2. cbn [s_flw s_w] in *. injection H2 as <-. rewrite Kc. destruct (LK0 LK) as [Hs2 [Ha2 L2]].
      split; [exact Hs2|]. split; [exact Ha2|]. xs. exact (flush_state_path _ _ _ _ _ A _ _ L2).
  - (* OTrigger *)
    destruct (f_poisoned s) eqn:Hp.
    + cbn [fst snd]. split; [exists w, n, l, s; repeat split|]. split; [reflexivity|]. intros LK _ _ s2 H2. exact (LK s2 H2).
    + cbn [unl f_cfg f_inner].
      destruct (mount_pair (f_cfg s) n w (f_inner s) true l l0) as [r [w' [st' [n' [l' [A [B G]]]]]]]. rewrite A, B. cbn [fst snd].
      split; [|split; [reflexivity|]].
      * exists w', n', l', (match r with Panic => poison (with_inner s st') | _ => with_inner s st' end).
        cbn [s_flw s_w s_tl s_dead]. repeat split. destruct r; reflexivity.
      * intros LK Hok _ s2 H2. cbn [s_flw s_w] in *. injection H2 as <-. destruct (LK0 LK) as [Hs2 [Ha2 L2]].
        destruct r as [[]| |]; [|discriminate Hok|discriminate Hok]. cbn [with_inner f_cfg f_inner] in *.
        split; [exact Hs2|]. split; [exact Ha2|]. xs. exact (G Hs2 eq_refl L2).
  - (* OTick *)
    cbn [fst snd]. split; [exists (set_now w (wnow w + dt)%Z), n, l, s; repeat split|]. split; [reflexivity|].
    intros LK _ _ s2 H2. exact (LK s2 H2).
  - (* OSnap *)
    cbn [fst snd]. split; [exists w, n, l, s; repeat split|]. split; [reflexivity|]. intros LK _ _. exact LK.
Qed.

(* the asynchronous handle: a message is consumed by the writer thread *)
Lemma async_send_lsim l0 xs xn s m code : LSim l0 xs xn -> s_flw xs = Some s ->
  LSim l0 (fst (async_send xs s m code)) (fst (async_send xn (unl s) m code))
  /\ snd (async_send xs s m code) = snd (async_send xn (unl s) m code)
  /\ (forall s', s_flw (fst (async_send xs s m code)) = Some s' -> f_cfg s' = f_cfg s).
Proof.
  intros [w [n [l [s1 [Ews [Ewn [Et [Hd [Es En]]]]]]]]] Es'. sys_destruct xs xn. injection Es' as <-.
  unfold async_send. cbn [s_dead unl f_poisoned].
  destruct dn_; [cbn [fst snd]; split; [exists w, n, l, s1; repeat split | split; [reflexivity | intros s' H; cbn in H; congruence]]|].
  destruct (f_poisoned s1); [cbn [fst snd]; split; [exists w, n, l, s1; repeat split | split; [reflexivity | intros s' H; cbn in H; congruence]]|].
  cbn [fst snd]. split; [|split; [reflexivity|]]; unfold async_consume; cbn [s_w s_tl]; destruct m as [b| |].
  - destruct (write_pair s1 n w b l l0) as [r [w' [s' [rot [n' [l' [A [B _]]]]]]]]. fold (unl s1). rewrite A, B.
    destruct r as [u| |]; rewrite ?report_X; eexists _, n', l', s'; cbn [s_flw s_w s_tl s_dead]; repeat split.
  - destruct (flush_pair s1 n w l l0) as [ok [w' [s' [A B]]]]. fold (unl s1). rewrite A, B.
    destruct ok; rewrite ?report_X; eexists _, n, l, s'; cbn [s_flw s_w s_tl s_dead]; repeat split.
  - destruct (shutdown_pair s1 n w l l0) as [w' [s' [A B]]]. fold (unl s1). rewrite A, B.
    exists w', n, l, s'. cbn [s_flw s_w s_tl s_dead]. repeat split.
  - destruct (write_buffer s1 (X l [] n w) b) as [[[r w'] s'] rot] eqn:A. destruct (write_buffer_keeps _ _ _ _ _ _ _ A) as [Kc _].
    intros s2 H. cbn in H. congruence.
  - destruct (flush_state s1 (X l [] n w)) as [[ok w'] s'] eqn:A. destruct (flush_state_keeps _ _ _ _ _ A) as [Kc _].
    intros s2 H. cbn in H. congruence.
  - destruct (shutdown_state s1 (X l [] n w)) as [w' s'] eqn:A. destruct (shutdown_state_keeps _ _ _ _ A) as [Kc _].
    intros s2 H. cbn in H. congruence.
Qed.

(* one basic operation, either handle.  The consistency of the link is claimed for the synchronous handle: the
   asynchronous caller does not see the results of the writer thread *)
Lemma step_core_lsim l0 xs xn o : LSim l0 xs xn -> basic_op o ->
  LSim l0 (fst (step_core xs o)) (fst (step_core xn o))
  /\ obs_unlink (snd (step_core xs o)) = obs_unlink (snd (step_core xn o))
  /\ (link_ok xs xn -> obs_ok (snd (step_core xn o)) -> werrs (s_w (fst (step_core xn o))) = werrs (s_w xn) ->
      link_ok (fst (step_core xs o)) (fst (step_core xn o))).
Proof.
  intros S Hb. pose proof S as [w [n [l [s [Ews [Ewn [Et [Hd [Es En]]]]]]]]].
  unfold step_core. rewrite Es, En. unfold is_async. cbn [unl f_cfg nolink c_async].
  destruct (c_async (f_cfg s)) eqn:Ha; [|apply sync_step_lsim; assumption].
  assert (AS : forall m code,
            LSim l0 (fst (async_send xs s m code)) (fst (async_send xn (unl s) m code))
            /\ obs_unlink (snd (async_send xs s m code)) = obs_unlink (snd (async_send xn (unl s) m code))
            /\ (link_ok xs xn -> obs_ok (snd (async_send xn (unl s) m code)) ->
                werrs (s_w (fst (async_send xn (unl s) m code))) = werrs (s_w xn) ->
                link_ok (fst (async_send xs s m code)) (fst (async_send xn (unl s) m code)))).
  { intros m code. destruct (async_send_lsim l0 xs xn s m code S Es) as [S1 [O1 K1]].
    split; [exact S1|]. split; [rewrite O1; reflexivity|]. intros LK _ _. destruct (LK s Es) as [_ [Ha' _]]. congruence. }
  assert (SY : forall o', basic_op o' ->
            LSim l0 (fst (sync_step xs o')) (fst (sync_step xn o'))
            /\ obs_unlink (snd (sync_step xs o')) = obs_unlink (snd (sync_step xn o'))
            /\ (link_ok xs xn -> obs_ok (snd (sync_step xn o')) -> werrs (s_w (fst (sync_step xn o'))) = werrs (s_w xn) ->
                link_ok (fst (sync_step xs o')) (fst (sync_step xn o')))) by (intros o' Ho'; apply sync_step_lsim; assumption).
  destruct o; try contradiction; cbn [async_step]; fold (unl s); first [apply AS | apply SY; exact I].
Qed.

Lemma step_lsim l0 xs xn o : LSim l0 xs xn -> basic_op o ->
  LSim l0 (fst (step xs o)) (fst (step xn o))
  /\ obs_unlink (snd (step xs o)) = obs_unlink (snd (step xn o))
  /\ (link_ok xs xn -> obs_ok (snd (step xn o)) -> werrs (s_w (fst (step xn o))) = werrs (s_w xn) ->
      link_ok (fst (step xs o)) (fst (step xn o))).
Proof.
  intros S Hb. destruct (apply_start_lsim l0 xs xn o S) as [S1 L1]. unfold step.
  destruct (step_core_lsim l0 _ _ o S1 Hb) as [S2 [O2 L2]]. split; [exact S2|]. split; [exact O2|].
  intros LK Hok He. apply L2; [apply L1; exact LK | exact Hok|].
  rewrite He. unfold apply_start. destruct (s_flw xn) as [s|]; [|reflexivity].
  destruct (names_computed o && negb (f_poisoned s)); reflexivity.
Qed.

(* a run that returns normal results and reports nothing *)
Fixpoint clean_run (x : sys) (ops : list op) : Prop :=
  match ops with
  | [] => True
  | o :: r => obs_ok (snd (step x o)) /\ werrs (s_w (fst (step x o))) = werrs (s_w x) /\ clean_run (fst (step x o)) r
  end.

Lemma run_lsim l0 : forall ops xs xn, LSim l0 xs xn -> Forall basic_op ops ->
  LSim l0 (fst (run xs ops)) (fst (run xn ops))
  /\ List.map obs_unlink (snd (run xs ops)) = List.map obs_unlink (snd (run xn ops))
  /\ (link_ok xs xn -> clean_run xn ops -> link_ok (fst (run xs ops)) (fst (run xn ops))).
Proof.
  induction ops as [|o r IH]; intros xs xn S Hb; [split; [exact S|]; split; [reflexivity | intros LK _; exact LK]|].
  inversion Hb as [|o' r' Ho Hr]; subst. cbn [run clean_run].
  pose proof (step_lsim l0 xs xn o S Ho) as St.
  destruct (step xs o) as [xs1 obs1]. destruct (step xn o) as [xn1 obn1]. cbn [fst snd] in St. destruct St as [S1 [O1 L1]].
  specialize (IH xs1 xn1 S1 Hr). destruct (run xs1 r) as [xs2 ls]. destruct (run xn1 r) as [xn2 ln]. cbn [fst snd] in *.
  destruct IH as [S2 [O2 L2]]. split; [exact S2|]. split; [cbn [List.map]; rewrite O1, O2; reflexivity|].
  intros LK [Hok [He Hc]]. apply L2; [apply L1; assumption | exact Hc].
Qed.

(* ------------------------------------------------------------------ dropping the writer *)
Definition WRel (l0 : option bytes) (ws wn : world) : Prop := exists w n l, ws = X l [] n w /\ wn = X l0 [] n w.

Lemma wrel_erase l0 ws wn : WRel l0 ws wn ->
  wn = set_link ws l0 /\ ws = set_link wn (wlink ws) /\ wlink wn = l0 /\ wkill ws = None /\ wkill wn = None.
Proof. intros [w [n [l [-> ->]]]]. repeat split. Qed.

Lemma lsim_wrel l0 xs xn : LSim l0 xs xn -> WRel l0 (s_w xs) (s_w xn).
Proof. intros [w [n [l [s [-> [-> _]]]]]]. exists w, n, l. split; reflexivity. Qed.

Lemma sync_stop_lsim l0 xs xn : LSim l0 xs xn ->
  WRel l0 (s_w (fst (sync_step xs OStop))) (s_w (fst (sync_step xn OStop)))
  /\ wlink (s_w (fst (sync_step xs OStop))) = wlink (s_w xs)
  /\ snd (sync_step xs OStop) = snd (sync_step xn OStop)
  /\ s_flw (fst (sync_step xs OStop)) = None /\ s_flw (fst (sync_step xn OStop)) = None.
Proof.
  intros [w [n [l [s [Ews [Ewn [Et [Hd [Es En]]]]]]]]]. sys_destruct xs xn.
  cbn [sync_step s_flw s_w unl f_poisoned f_inner]. destruct (f_poisoned s).
  - unfold drain_acts. destruct (f_inner s) as [|o wr p].
    + cbn [fst snd s_w s_flw]. split; [exists w, n, l; split; reflexivity|]. repeat split.
    + destruct (w_drop_U wr w) as [w' E]. rewrite !E. cbn [fst snd s_w s_flw].
      split; [exists w', n, l; split; reflexivity|]. repeat split.
  - fold (unl s). rewrite drop_state_unl. destruct (drop_state_U s w) as [w' E]. rewrite !E. cbn [fst snd s_w s_flw].
    split; [exists w', n, l; split; reflexivity|]. repeat split.
Qed.

Lemma stop_lsim l0 xs xn : LSim l0 xs xn ->
  WRel l0 (s_w (fst (step xs OStop))) (s_w (fst (step xn OStop)))
  /\ wlink (s_w (fst (step xs OStop))) = wlink (s_w xs)
  /\ snd (step xs OStop) = snd (step xn OStop)
  /\ s_flw (fst (step xs OStop)) = None /\ s_flw (fst (step xn OStop)) = None.
Proof.
  intros S0. destruct (apply_start_lsim l0 xs xn OStop S0) as [S _].
  assert (W0 : s_w (apply_start xs OStop) = s_w xs).
  { unfold apply_start. destruct (s_flw xs) as [s|]; reflexivity. }
  unfold step. rewrite <- W0. revert S. generalize (apply_start xs OStop) (apply_start xn OStop). clear. intros xs xn S.
  pose proof S as [w [n [l [s [Ews [Ewn [Et [Hd [Es En]]]]]]]]].
  unfold step_core. rewrite Es, En. unfold is_async. cbn [unl f_cfg nolink c_async f_poisoned].
  destruct (c_async (f_cfg s)); [|apply sync_stop_lsim; exact S].
  rewrite <- Hd. destruct (s_dead xs || f_poisoned s)%bool eqn:Hb.
  - assert (S1 : LSim l0 {| s_flw := s_flw xs; s_w := s_w xs; s_tl := s_tl xs; s_dead := true |}
                        {| s_flw := s_flw xn; s_w := s_w xn; s_tl := s_tl xn; s_dead := true |}).
    { exists w, n, l, s. cbn [s_flw s_w s_tl s_dead]. repeat split; assumption. }
    exact (sync_stop_lsim l0 _ _ S1).
  - unfold async_consume. rewrite Ews, Ewn. destruct (shutdown_pair s n w l l0) as [w' [s' [A B]]]. fold (unl s). rewrite A, B.
    cbn [s_flw s_w s_tl s_dead].
    assert (S1 : LSim l0 {| s_flw := Some s'; s_w := X l [] n w'; s_tl := s_tl xs; s_dead := true |}
                        {| s_flw := Some (unl s'); s_w := X l0 [] n w'; s_tl := s_tl xn; s_dead := true |}).
    { exists w', n, l, s'. cbn [s_flw s_w s_tl s_dead]. repeat split; assumption. }
    exact (sync_stop_lsim l0 _ _ S1).
Qed.

(* ------------------------------------------------------------------ whole runs, ANY configuration *)
Lemma start_lsim c t0 off :
  LSim None (fst (step (sys0 t0 off) (OStart c))) (fst (step (sys0 t0 off) (OStart (nolink c))))
  /\ (c_symlink c = true -> c_async c = false ->
      link_ok (fst (step (sys0 t0 off) (OStart c))) (fst (step (sys0 t0 off) (OStart (nolink c))))).
Proof.
  cbn. split.
  - exists (world0 t0 off), 0, None, (new_flw c). repeat split.
  - intros Hs Ha s H. cbn in H. injection H as <-. cbn. repeat split; assumption.
Qed.

(* (a)  The run under c and the run under nolink c: the world of the second is the world of the first with the link
   erased - same file system, clock, fault oracle, error channel; the observations agree except for the link shown by
   snapshots.  With and without the final drop of the writer; the drop leaves the link as it is. *)
Theorem link_sim_whole c t0 off ops : Forall basic_op ops ->
  let rs := run (sys0 t0 off) (OStart c :: ops) in
  let rn := run (sys0 t0 off) (OStart (nolink c) :: ops) in
  let rs' := run (sys0 t0 off) (OStart c :: ops ++ [OStop]) in
  let rn' := run (sys0 t0 off) (OStart (nolink c) :: ops ++ [OStop]) in
  (s_w (fst rn) = set_link (s_w (fst rs)) None /\ List.map obs_unlink (snd rs) = List.map obs_unlink (snd rn))
  /\ (s_w (fst rn') = set_link (s_w (fst rs')) None /\ List.map obs_unlink (snd rs') = List.map obs_unlink (snd rn')
      /\ wlink (s_w (fst rs')) = wlink (s_w (fst rs))).
Proof.
  intros Hb. cbn zeta. cbn [run]. destruct (start_lsim c t0 off) as [S0 _].
  assert (O0 : snd (step (sys0 t0 off) (OStart c)) = ObsRes 0%N false) by reflexivity.
  assert (O0' : snd (step (sys0 t0 off) (OStart (nolink c))) = ObsRes 0%N false) by reflexivity.
  destruct (step (sys0 t0 off) (OStart c)) as [xs0 os0]. destruct (step (sys0 t0 off) (OStart (nolink c))) as [xn0 on0].
  cbn [fst snd] in S0, O0, O0'. subst os0 on0. rewrite !run_app.
  destruct (run_lsim None ops xs0 xn0 S0 Hb) as [S1 [E1 _]].
  destruct (run xs0 ops) as [xs1 ls]. destruct (run xn0 ops) as [xn1 ln]. cbn [fst snd] in *.
  split.
  - split; [exact (proj1 (wrel_erase _ _ _ (lsim_wrel _ _ _ S1)))|]. cbn [List.map obs_unlink]. rewrite E1. reflexivity.
  - destruct (stop_lsim None xs1 xn1 S1) as [W2 [L2 [O2 _]]]. cbn [run].
    destruct (step xs1 OStop) as [xs2 os2]. destruct (step xn1 OStop) as [xn2 on2]. cbn [fst snd] in *. subst os2.
    split; [exact (proj1 (wrel_erase _ _ _ W2))|]. split; [|exact L2].
    cbn [List.map obs_unlink]. rewrite !map_app, E1. reflexivity.
Qed.

(* (b)  The link always resolves to the file that is written to.  HYPOTHESES: synchronous handle; the run under
   nolink c (equivalently, by (a), the run under c) returns normal results and reports nothing on the error channel.
   CONCLUSION, after every history of basic operations (hence at every point of the run): once the writer is
   initialised - state Active _ _ path, i.e. after the first write - the link is Some path, the path of the file the
   writer holds open; before, the link is as it was at the start (None). *)
Lemma symlink_run_state c t0 off ops :
  c_symlink c = true -> c_async c = false -> Forall basic_op ops ->
  clean_run (fst (step (sys0 t0 off) (OStart (nolink c)))) ops ->
  let xs := fst (run (sys0 t0 off) (OStart c :: ops)) in
  let xn := fst (run (sys0 t0 off) (OStart (nolink c) :: ops)) in
  exists s, s_flw xs = Some s /\ s_flw xn = Some (unl s) /\ link_st None (wlink (s_w xs)) (f_inner s).
Proof.
  intros Hs Ha Hb Hc. cbn zeta. cbn [run]. destruct (start_lsim c t0 off) as [S0 L0]. specialize (L0 Hs Ha).
  destruct (step (sys0 t0 off) (OStart c)) as [xs0 os0]. destruct (step (sys0 t0 off) (OStart (nolink c))) as [xn0 on0].
  cbn [fst snd] in *. destruct (run_lsim None ops xs0 xn0 S0 Hb) as [S1 [_ L1]]. specialize (L1 L0 Hc).
  destruct (run xs0 ops) as [xs1 ls]. destruct (run xn0 ops) as [xn1 ln]. cbn [fst snd] in *.
  pose proof S1 as [w [n [l [s [Ews [Ewn [_ [_ [Es En]]]]]]]]]. exists s. split; [exact Es|]. split; [exact En|].
  destruct (L1 s Es) as [_ [_ L]]. rewrite Ewn in L. exact L.
Qed.

Theorem symlink_points_to_current c t0 off ops :
  c_symlink c = true -> c_async c = false -> Forall basic_op ops ->
  clean_run (fst (step (sys0 t0 off) (OStart (nolink c)))) ops ->
  let x := fst (run (sys0 t0 off) (OStart c :: ops)) in
  exists s, s_flw x = Some s /\
    match f_inner s with
    | Active _ _ path => wlink (s_w x) = Some path
    | Initial => wlink (s_w x) = None
    end.
Proof.
  intros Hs Ha Hb Hc. destruct (symlink_run_state c t0 off ops Hs Ha Hb Hc) as [s [Es [_ L]]]. exists s. split; [exact Es|].
  unfold link_st in L. destruct (f_inner s); exact L.
Qed.

Print Assumptions link_sim_whole.
Print Assumptions symlink_points_to_current.

(* ------------------------------------------------------------------ 4. transfer to configurations with a symlink *)
Lemma symlink_final_fs c t0 off ops : Forall basic_op ops ->
  wfs (s_w (fst (run (sys0 t0 off) (OStart c :: ops ++ [OStop]))))
  = wfs (s_w (fst (run (sys0 t0 off) (OStart (nolink c) :: ops ++ [OStop])))).
Proof. intros Hb. destruct (link_sim_whole c t0 off ops Hb) as [_ [E _]]. cbn zeta in E. rewrite E. reflexivity. Qed.

Lemma obs_ok_unlink ob : obs_ok (obs_unlink ob) <-> obs_ok ob.
Proof. destruct ob; cbn; tauto. Qed.
Lemma Forall_obs_unlink l1 : forall l2, List.map obs_unlink l1 = List.map obs_unlink l2 -> Forall obs_ok l2 -> Forall obs_ok l1.
Proof.
  induction l1 as [|a r IH]; intros [|b r2] E H; try discriminate; [constructor|].
  cbn [List.map] in E. injection E as E1 E2. inversion H as [|b' r' H1 H2]; subst. constructor; [|exact (IH r2 E2 H2)].
  apply obs_ok_unlink. rewrite E1. apply obs_ok_unlink. exact H1.
Qed.
Lemma symlink_obs_ok c t0 off ops : Forall basic_op ops ->
  Forall obs_ok (snd (run (sys0 t0 off) (OStart (nolink c) :: ops ++ [OStop]))) ->
  Forall obs_ok (snd (run (sys0 t0 off) (OStart c :: ops ++ [OStop]))).
Proof. intros Hb. destruct (link_sim_whole c t0 off ops Hb) as [_ [_ [E _]]]. cbn zeta in E. exact (Forall_obs_unlink _ _ E). Qed.

Lemma same_env_errs w w' : same_env w w' -> werrs w' = werrs w.
Proof. intros (_ & _ & _ & H & _). exact H. Qed.

(* ---- Numbers naming: the configuration is of the family numcfg but for the symlink ---- *)
Lemma num_step_clean c crit x a o : numcfg c crit -> Rel c crit x a -> basic_op o ->
  obs_ok (snd (step x o)) /\ werrs (s_w (fst (step x o))) = werrs (s_w x).
Proof.
  intros Hcfg R Hb. split; [exact (step_rel_ok c crit x a o Hcfg R Hb)|].
  rewrite (step_sync_rel c crit x a o Hcfg R). destruct R as [Ht [Ha R]].
  assert (WB : forall b, exists s w' s' rot, s_flw x = Some s /\ f_poisoned s = false
                 /\ write_buffer s (s_w x) b = (Ok tt, w', s', rot) /\ werrs w' = werrs (s_w x)).
  { intros b. destruct a as [[closed cur]|].
    - destruct R as [wr [roll [Es [I [V [Z RS]]]]]]. rewrite <- V in Z.
      destruct (write_active c crit (s_w x) wr closed roll b Hcfg I Z) as [w' [wr' [roll' [closed' [E [_ [_ [S' _]]]]]]]].
      eexists _, w', _, _. split; [exact Es|]. split; [reflexivity|]. split; [exact E | exact (same_env_errs _ _ S')].
    - destruct R as [Es [Q [Hn Hi]]].
      destruct (initialize_empty c crit (s_w x) Hcfg Q Hn Hi) as [w1 [wr [roll [Ei [I [V [Z [S1 RS]]]]]]]].
      assert (Z0 : roll_size_ok roll (length (cur_view w1 wr))) by (rewrite V; exact Z).
      destruct (write_active c crit w1 wr [] roll b Hcfg I Z0) as [w' [wr' [roll' [closed' [E [_ [_ [S' _]]]]]]]].
      eexists _, w', _, _. split; [exact Es|]. split; [reflexivity|].
      split; [rewrite (write_buffer_init c (s_w x) b _ _ _ w1 Ei); exact E|].
      rewrite (same_env_errs _ _ S'). exact (same_env_errs _ _ S1). }
  destruct o; try contradiction; cbn [sync_step].
  - destruct (WB (s_tl x ++ b)) as [s [w' [s' [rot [Es [Hp [E He]]]]]]]. rewrite Es, Hp, E. exact He.
  - destruct (WB b) as [s [w' [s' [rot [Es [Hp [E He]]]]]]]. rewrite Es, Hp, E. exact He.
  - destruct a as [[closed cur]|].
    + destruct R as [wr [roll [Es [I _]]]]. rewrite Es. cbn [st_of f_poisoned].
      destruct (flush_active c (s_w x) wr closed roll I) as [w' [wr' [E [_ [_ [_ S']]]]]].
      fold (st_of c (length closed) roll wr). rewrite E. exact (same_env_errs _ _ S').
    + destruct R as [Es _]. rewrite Es. reflexivity.
  - destruct a as [[closed cur]|].
    + destruct R as [wr [roll [Es [I _]]]]. rewrite Es. cbn [st_of f_poisoned f_cfg f_inner].
      destruct (mount_next_rotates c crit (s_w x) wr closed roll true Hcfg I eq_refl) as [w' [wr' [roll' [E [_ [_ [_ [S' _]]]]]]]].
      rewrite E. exact (same_env_errs _ _ S').
    + destruct R as [Es _]. rewrite Es. reflexivity.
  - reflexivity.
  - reflexivity.
Qed.

Lemma num_run_clean c crit : numcfg c crit -> forall ops x a, Rel c crit x a -> Forall basic_op ops -> clean_run x ops.
Proof.
  intros Hcfg. induction ops as [|o r IH]; intros x a R Hb; [exact I|].
  inversion Hb as [|o' r' Ho Hr]; subst. cbn [clean_run].
  destruct (num_step_clean c crit x a o Hcfg R Ho) as [K E]. pose proof (step_rel c crit x a o Hcfg R Ho) as S.
  destruct (step x o) as [x1 ob]. destruct S as [R1 _]. cbn [fst snd] in *. split; [exact K|]. split; [exact E|].
  exact (IH x1 _ R1 Hr).
Qed.

Lemma inner_of_eq (s1 s2 : flw) : Some s1 = Some s2 -> f_inner s1 = f_inner s2.
Proof. intros E. injection E as <-. reflexivity. Qed.

(* the link points to rCURRENT as soon as something has been written *)
Theorem numbers_symlink_current c crit t0 off ops :
  numcfg (nolink c) crit -> c_symlink c = true -> Forall basic_op ops ->
  wlink (s_w (fst (run (sys0 t0 off) (OStart c :: ops)))) = if has_write ops then Some (cname c) else None.
Proof.
  intros Hcfg Hs Hb. pose proof Hcfg as (_ & _ & _ & Ha). change (c_async (nolink c)) with (c_async c) in Ha.
  pose proof (start_rel (nolink c) crit t0 off) as R0.
  pose proof (num_run_clean _ crit Hcfg ops _ None R0 Hb) as Hc.
  destruct (symlink_run_state c t0 off ops Hs Ha Hb Hc) as [s [Es [En L]]]. cbn zeta in *.
  cbn [run] in En. pose proof (run_rel _ crit Hcfg ops _ None R0 Hb) as R1.
  pose proof (a_run_none_iff ops _ (run_length ops (fst (step (sys0 t0 off) (OStart (nolink c))))) Hb) as AN.
  destruct (step (sys0 t0 off) (OStart (nolink c))) as [xn0 on0]. cbn [fst snd] in *.
  destruct (run xn0 ops) as [xn1 ln]. cbn [fst snd] in *. destruct R1 as [_ [_ R1]].
  destruct (a_run None ops ln) as [[closed cur]|].
  - destruct R1 as [wr [roll [Es1 _]]]. rewrite Es1 in En. apply inner_of_eq in En. cbn [unl st_of f_inner] in En.
    destruct (has_write ops); [|destruct AN as [_ AN]; discriminate (AN eq_refl)].
    rewrite <- En in L. exact L.
  - destruct R1 as [Es1 _]. rewrite Es1 in En. apply inner_of_eq in En. cbn [unl new_flw f_inner] in En.
    destruct (has_write ops); [destruct AN as [AN _]; discriminate (AN eq_refl)|]. rewrite <- En in L. exact L.
Qed.

Theorem numbers_stream_symlink c crit t0 off ops :
  numcfg (nolink c) crit -> Forall basic_op ops ->
  exists files, reads c (wfs (s_w (fst (run (sys0 t0 off) (OStart c :: ops ++ [OStop]))))) files
    /\ concat files = written ops.
Proof.
  intros Hcfg Hb. rewrite (symlink_final_fs c t0 off ops Hb). change (reads c) with (reads (nolink c)).
  exact (numbers_stream (nolink c) crit t0 off ops Hcfg Hb).
Qed.

Theorem numbers_partition_symlink c m t0 off ops :
  numcfg (nolink c) (CSize m) -> Forall basic_op ops ->
  reads c (wfs (s_w (fst (run (sys0 t0 off) (OStart c :: ops ++ [OStop]))))) (expected_files m None (items false ops)).
Proof.
  intros Hcfg Hb. rewrite (symlink_final_fs c t0 off ops Hb). change (reads c) with (reads (nolink c)).
  exact (numbers_partition (nolink c) m t0 off ops Hcfg Hb).
Qed.

Theorem numbers_no_panic_symlink c crit t0 off ops :
  numcfg (nolink c) crit -> Forall basic_op ops ->
  Forall obs_ok (snd (run (sys0 t0 off) (OStart c :: ops ++ [OStop]))).
Proof. intros Hcfg Hb. apply symlink_obs_ok; [exact Hb|]. exact (numbers_no_panic (nolink c) crit t0 off ops Hcfg Hb). Qed.

Print Assumptions numbers_symlink_current.
Print Assumptions numbers_stream_symlink.
Print Assumptions numbers_no_panic_symlink.

(* ---- NumbersDirect naming ---- *)
Lemma numd_step_clean c crit x a o : numdcfg c crit -> RelD c crit x a -> basic_op o ->
  obs_ok (snd (step x o)) /\ werrs (s_w (fst (step x o))) = werrs (s_w x).
Proof.
  intros Hcfg R Hb. split; [exact (step_rel_d_ok c crit x a o Hcfg R Hb)|].
  rewrite (step_sync_rel_d c crit x a o Hcfg R). destruct R as [Ht [Ha R]].
  assert (WB : forall b, exists s w' s' rot, s_flw x = Some s /\ f_poisoned s = false
                 /\ write_buffer s (s_w x) b = (Ok tt, w', s', rot) /\ werrs w' = werrs (s_w x)).
  { intros b. destruct a as [[closed cur]|].
    - destruct R as [wr [roll [Es [I [V [Z RS]]]]]]. rewrite <- V in Z.
      destruct (write_active_d c crit (s_w x) wr closed roll b Hcfg I Z) as [w' [wr' [roll' [closed' [E [_ [_ [S' _]]]]]]]].
      eexists _, w', _, _. split; [exact Es|]. split; [reflexivity|]. split; [exact E | exact (same_env_errs _ _ S')].
    - destruct R as [Es [Q [Hn Hi]]].
      destruct (initialize_empty_d c crit (s_w x) Hcfg Q Hn Hi) as [w1 [wr [roll [Ei [I [V [Z [S1 RS]]]]]]]].
      assert (Z0 : roll_size_ok roll (length (cur_view w1 wr))) by (rewrite V; exact Z).
      destruct (write_active_d c crit w1 wr [] roll b Hcfg I Z0) as [w' [wr' [roll' [closed' [E [_ [_ [S' _]]]]]]]].
      eexists _, w', _, _. split; [exact Es|]. split; [reflexivity|].
      split; [rewrite (write_buffer_init c (s_w x) b _ _ _ w1 Ei); exact E|].
      rewrite (same_env_errs _ _ S'). exact (same_env_errs _ _ S1). }
  destruct o; try contradiction; cbn [sync_step].
  - destruct (WB (s_tl x ++ b)) as [s [w' [s' [rot [Es [Hp [E He]]]]]]]. rewrite Es, Hp, E. exact He.
  - destruct (WB b) as [s [w' [s' [rot [Es [Hp [E He]]]]]]]. rewrite Es, Hp, E. exact He.
  - destruct a as [[closed cur]|].
    + destruct R as [wr [roll [Es [I _]]]]. rewrite Es. cbn [st_of_d f_poisoned].
      destruct (flush_active_d c (s_w x) wr closed roll I) as [w' [wr' [E [_ [_ [_ S']]]]]].
      fold (st_of_d c (length closed) roll wr). rewrite E. exact (same_env_errs _ _ S').
    + destruct R as [Es _]. rewrite Es. reflexivity.
  - destruct a as [[closed cur]|].
    + destruct R as [wr [roll [Es [I _]]]]. rewrite Es. cbn [st_of_d f_poisoned f_cfg f_inner].
      destruct (mount_next_rotates_d c crit (s_w x) wr closed roll true Hcfg I eq_refl) as [w' [wr' [roll' [E [_ [_ [_ [S' _]]]]]]]].
      rewrite E. exact (same_env_errs _ _ S').
    + destruct R as [Es _]. rewrite Es. reflexivity.
  - reflexivity.
  - reflexivity.
Qed.

Lemma numd_run_clean c crit : numdcfg c crit -> forall ops x a, RelD c crit x a -> Forall basic_op ops -> clean_run x ops.
Proof.
  intros Hcfg. induction ops as [|o r IH]; intros x a R Hb; [exact I|].
  inversion Hb as [|o' r' Ho Hr]; subst. cbn [clean_run].
  destruct (numd_step_clean c crit x a o Hcfg R Ho) as [K E]. pose proof (step_rel_d c crit x a o Hcfg R Ho) as S.
  destruct (step x o) as [x1 ob]. destruct S as [R1 _]. cbn [fst snd] in *. split; [exact K|]. split; [exact E|].
  exact (IH x1 _ R1 Hr).
Qed.

(* at every point of the run the link names the file with the highest number: with the reader's view
   (closed files, current file) of the run, r(length closed) *)
Theorem numbersdirect_symlink_current c crit t0 off ops :
  numdcfg (nolink c) crit -> c_symlink c = true -> Forall basic_op ops ->
  wlink (s_w (fst (run (sys0 t0 off) (OStart c :: ops))))
  = match a_run None ops (snd (run (fst (step (sys0 t0 off) (OStart (nolink c)))) ops)) with
    | Some (closed, _) => Some (rname c (length closed))
    | None => None
    end.
Proof.
  intros Hcfg Hs Hb. pose proof Hcfg as (_ & _ & _ & Ha). change (c_async (nolink c)) with (c_async c) in Ha.
  pose proof (start_rel_d (nolink c) crit t0 off) as R0.
  pose proof (numd_run_clean _ crit Hcfg ops _ None R0 Hb) as Hc.
  destruct (symlink_run_state c t0 off ops Hs Ha Hb Hc) as [s [Es [En L]]]. cbn zeta in *.
  cbn [run] in En. pose proof (run_rel_d _ crit Hcfg ops _ None R0 Hb) as R1.
  destruct (step (sys0 t0 off) (OStart (nolink c))) as [xn0 on0]. cbn [fst snd] in *.
  destruct (run xn0 ops) as [xn1 ln]. cbn [fst snd] in *. destruct R1 as [_ [_ R1]].
  destruct (a_run None ops ln) as [[closed cur]|].
  - destruct R1 as [wr [roll [Es1 _]]]. rewrite Es1 in En. apply inner_of_eq in En. cbn [unl st_of_d f_inner] in En.
    rewrite <- En in L. exact L.
  - destruct R1 as [Es1 _]. rewrite Es1 in En. apply inner_of_eq in En. cbn [unl new_flw f_inner] in En. rewrite <- En in L. exact L.
Qed.

(* C01 with symlink: after the writer is stopped the directory is r00000 .. r(n), their contents are what was written,
   and the link names the last of them (no link if nothing was written) *)
Theorem numbersdirect_stream_symlink c crit t0 off ops :
  numdcfg (nolink c) crit -> c_symlink c = true -> Forall basic_op ops ->
  let w := s_w (fst (run (sys0 t0 off) (OStart c :: ops ++ [OStop]))) in
  exists files, direct_view c (wfs w) files /\ concat files = written ops
    /\ wlink w = match files with [] => None | _ => Some (rname c (length files - 1)) end.
Proof.
  intros Hcfg Hs Hb. cbn zeta. destruct (link_sim_whole c t0 off ops Hb) as [_ [_ [_ EL]]]. cbn zeta in EL. rewrite EL.
  rewrite (numbersdirect_symlink_current c crit t0 off ops Hcfg Hs Hb), (symlink_final_fs c t0 off ops Hb).
  destruct (run_view_d (nolink c) crit t0 off ops Hcfg Hb) as [x0 [ob0 [E0 [R0 V]]]]. rewrite E0. cbn [fst].
  exists (files_of (a_run None ops (snd (run x0 ops)))). split; [exact V|].
  pose proof (a_run_flat ops None (snd (run x0 ops)) Hb (run_length ops x0)) as F. cbn [flat app] in F. rewrite <- F.
  destruct (a_run None ops (snd (run x0 ops))) as [[cl cu]|]; cbn [files_of flat concat]; [|split; reflexivity].
  split; [rewrite concat_app; cbn [concat]; rewrite app_nil_r; reflexivity|].
  destruct (cl ++ [cu]) eqn:E; [destruct cl; discriminate|]. rewrite <- E, app_length. cbn [length].
  replace (length cl + 1 - 1) with (length cl) by lia. reflexivity.
Qed.

Theorem numbersdirect_partition_symlink c m t0 off ops :
  numdcfg (nolink c) (CSize m) -> Forall basic_op ops ->
  direct_view c (wfs (s_w (fst (run (sys0 t0 off) (OStart c :: ops ++ [OStop]))))) (expected_files m None (items false ops)).
Proof.
  intros Hcfg Hb. rewrite (symlink_final_fs c t0 off ops Hb). change (direct_view c) with (direct_view (nolink c)).
  exact (numbersdirect_partition (nolink c) m t0 off ops Hcfg Hb).
Qed.

Theorem numbersdirect_no_panic_symlink c crit t0 off ops :
  numdcfg (nolink c) crit -> Forall basic_op ops ->
  Forall obs_ok (snd (run (sys0 t0 off) (OStart c :: ops ++ [OStop]))).
Proof. intros Hcfg Hb. apply symlink_obs_ok; [exact Hb|]. exact (numbersdirect_no_panic (nolink c) crit t0 off ops Hcfg Hb). Qed.

Print Assumptions numbersdirect_symlink_current.
Print Assumptions numbersdirect_stream_symlink.
Print Assumptions numbersdirect_no_panic_symlink.

(* ---- Timestamps naming ---- *)
Lemma ts_step_clean c crit e lo hi n x a o :
  tscfg c crit -> tag_ok c -> years_ok e lo hi -> RelT c e lo n x a -> basic_op o -> tick_ok o ->
  (wnow (s_w x) <= hi)%Z -> (N.of_nat n <= usize_max)%N ->
  obs_ok (snd (step x o)) /\ werrs (s_w (fst (step x o))) = werrs (s_w x).
Proof.
  intros Hcfg T Y R Hb Htk Hhi Hmax. split; [exact (step_rel_ts_ok c crit e lo hi n x a o Hcfg T Y R Hb Htk Hhi Hmax)|].
  rewrite (step_sync_rel_ts c crit e lo n x a o Hcfg R). destruct R as [Ht [Ha R]].
  assert (WB : forall b, exists s w' s' rot, s_flw x = Some s /\ f_poisoned s = false
                 /\ write_buffer s (s_w x) b = (Ok tt, w', s', rot) /\ werrs w' = werrs (s_w x)).
  { intros b. destruct a as [[closed cur]|].
    - destruct R as [keys [wr [roll [ts [Es [I [V Hn]]]]]]].
      destruct (write_active_ts c crit e lo hi (s_w x) wr keys closed ts roll b Hcfg T Y I Hhi ltac:(lia))
        as [w' [wr' [roll' [keys' [closed' [ts' [E [_ [S' _]]]]]]]]].
      eexists _, w', _, _. split; [exact Es|]. split; [reflexivity|]. split; [exact E | exact (same_env_errs _ _ S')].
    - destruct R as [Es [Q [Hn [Hi [Hoff Hlo]]]]].
      destruct (initialize_empty_ts c crit e lo (s_w x) Hcfg Q Hn Hi Hoff Hlo) as [w1 [wr [roll [Ei [I [V S1]]]]]].
      assert (Hhi1 : (wnow w1 <= hi)%Z) by (rewrite (same_env_now _ _ S1); exact Hhi).
      destruct (write_active_ts c crit e lo hi w1 wr [] [] (wnow (s_w x)) roll b Hcfg T Y I Hhi1 ltac:(cbn; lia))
        as [w' [wr' [roll' [keys' [closed' [ts' [E [_ [S' _]]]]]]]]].
      eexists _, w', _, _. split; [exact Es|]. split; [reflexivity|].
      split; [rewrite (write_buffer_init c (s_w x) b _ _ _ w1 Ei); exact E|].
      rewrite (same_env_errs _ _ S'). exact (same_env_errs _ _ S1). }
  destruct o; try contradiction; cbn [sync_step].
  - destruct (WB (s_tl x ++ b)) as [s [w' [s' [rot [Es [Hp [E He]]]]]]]. rewrite Es, Hp, E. exact He.
  - destruct (WB b) as [s [w' [s' [rot [Es [Hp [E He]]]]]]]. rewrite Es, Hp, E. exact He.
  - destruct a as [[closed cur]|].
    + destruct R as [keys [wr [roll [ts [Es [I _]]]]]]. rewrite Es. cbn [st_ts f_poisoned].
      destruct (flush_active_ts c e lo (s_w x) wr keys closed ts roll I) as [w' [wr' [E [_ [_ [_ S']]]]]].
      fold (st_ts c ts roll wr). rewrite E. exact (same_env_errs _ _ S').
    + destruct R as [Es _]. rewrite Es. reflexivity.
  - destruct a as [[closed cur]|].
    + destruct R as [keys [wr [roll [ts [Es [I [V Hn]]]]]]]. rewrite Es. cbn [st_ts f_poisoned f_cfg f_inner].
      destruct (mount_next_rotates_ts c crit e lo hi (s_w x) wr keys closed ts roll true Hcfg T Y I Hhi ltac:(lia) eq_refl)
        as [w' [wr' [roll' [E [_ [_ S']]]]]].
      rewrite E. exact (same_env_errs _ _ S').
    + destruct R as [Es _]. rewrite Es. reflexivity.
  - reflexivity.
  - reflexivity.
Qed.

Lemma ts_run_clean c crit e lo hi : tscfg c crit -> tag_ok c -> years_ok e lo hi ->
  forall ops x a n, RelT c e lo n x a -> Forall basic_op ops -> Forall tick_ok ops ->
  (wnow (s_w x) + elapsed ops <= hi)%Z -> (N.of_nat (n + length ops) <= usize_max)%N -> clean_run x ops.
Proof.
  intros Hcfg T Y. induction ops as [|o r IH]; intros x a n R Hb Htk Hhi Hmax; [exact I|].
  inversion Hb as [|o' r' Ho Hr]; subst. inversion Htk as [|o' r' Hto Htr]; subst.
  cbn [elapsed length clean_run] in *. pose proof (elapsed_nonneg r Htr) as Er.
  assert (Hdt : (0 <= dt_of o)%Z) by (destruct o; cbn [dt_of tick_ok] in *; lia).
  destruct (ts_step_clean c crit e lo hi n x a o Hcfg T Y R Ho Hto ltac:(lia) ltac:(lia)) as [K E].
  pose proof (step_rel_ts c crit e lo hi n x a o Hcfg T Y R Ho Hto ltac:(lia) ltac:(lia)) as S.
  destruct (step x o) as [x1 ob]. destruct S as [R1 W1]. cbn [fst snd] in *. split; [exact K|]. split; [exact E|].
  apply (IH x1 _ (S n) R1 Hr Htr); lia.
Qed.

(* the link points to rCURRENT as soon as something has been written (hypotheses of timestamps_stream) *)
Theorem timestamps_symlink_current c crit t0 off ops :
  tscfg (nolink c) crit -> tag_ok c -> c_symlink c = true -> Forall basic_op ops -> Forall tick_ok ops ->
  (0 <= t0 + ts_e c off)%Z -> (t0 + elapsed ops + ts_e c off < sec_max)%Z -> (N.of_nat (length ops) <= usize_max)%N ->
  wlink (s_w (fst (run (sys0 t0 off) (OStart c :: ops)))) = if has_write ops then Some (cname c) else None.
Proof.
  intros Hcfg T Hs Hb Htk Hlo Hhi Hmax. pose proof Hcfg as (_ & _ & _ & Ha). change (c_async (nolink c)) with (c_async c) in Ha.
  pose proof (start_rel_ts (nolink c) t0 off) as R0.
  assert (Y : years_ok (ts_e (nolink c) off) t0 (t0 + elapsed ops)) by (split; assumption).
  assert (W0 : wnow (s_w (fst (step (sys0 t0 off) (OStart (nolink c))))) = t0) by reflexivity.
  pose proof (ts_run_clean (nolink c) crit _ _ _ Hcfg T Y ops _ None 0 R0 Hb Htk ltac:(lia) ltac:(cbn [Nat.add]; exact Hmax)) as Hc.
  destruct (symlink_run_state c t0 off ops Hs Ha Hb Hc) as [s [Es [En L]]]. cbn zeta in *.
  cbn [run] in En.
  pose proof (run_rel_ts (nolink c) crit _ _ _ Hcfg T Y ops _ None 0 R0 Hb Htk ltac:(lia) ltac:(cbn [Nat.add]; exact Hmax)) as [R1 _].
  pose proof (a_run_none_iff ops _ (run_length ops (fst (step (sys0 t0 off) (OStart (nolink c))))) Hb) as AN.
  destruct (step (sys0 t0 off) (OStart (nolink c))) as [xn0 on0]. cbn [fst snd] in *.
  destruct (run xn0 ops) as [xn1 ln]. cbn [fst snd] in *. destruct R1 as [_ [_ R1]].
  destruct (a_run None ops ln) as [[closed cur]|].
  - destruct R1 as [keys [wr [roll [ts [Es1 _]]]]]. rewrite Es1 in En. apply inner_of_eq in En. cbn [unl st_ts f_inner] in En.
    destruct (has_write ops); [|destruct AN as [_ AN]; discriminate (AN eq_refl)].
    rewrite <- En in L. exact L.
  - destruct R1 as [Es1 _]. rewrite Es1 in En. apply inner_of_eq in En. cbn [unl new_flw f_inner] in En.
    destruct (has_write ops); [destruct AN as [AN _]; discriminate (AN eq_refl)|]. rewrite <- En in L. exact L.
Qed.

Theorem timestamps_stream_symlink c crit t0 off ops :
  tscfg (nolink c) crit -> tag_ok c -> Forall basic_op ops -> Forall tick_ok ops ->
  (0 <= t0 + ts_e c off)%Z -> (t0 + elapsed ops + ts_e c off < sec_max)%Z -> (N.of_nat (length ops) <= usize_max)%N ->
  let f := wfs (s_w (fst (run (sys0 t0 off) (OStart c :: ops ++ [OStop])))) in
  (names f = [] /\ written ops = [])
  \/ exists keys closed cur,
       ts_view c (ts_e c off) f keys closed cur
       /\ concat closed ++ cur = written ops
       /\ keys_ok keys
       /\ (forall k, In k keys -> (t0 <= fst k <= t0 + elapsed ops)%Z).
Proof.
  intros Hcfg T Hb Htk Hlo Hhi Hmax. cbn zeta. rewrite (symlink_final_fs c t0 off ops Hb).
  exact (timestamps_stream (nolink c) crit t0 off ops Hcfg T Hb Htk Hlo Hhi Hmax).
Qed.

Theorem timestamps_no_panic_symlink c crit t0 off ops :
  tscfg (nolink c) crit -> tag_ok c -> Forall basic_op ops -> Forall tick_ok ops ->
  (0 <= t0 + ts_e c off)%Z -> (t0 + elapsed ops + ts_e c off < sec_max)%Z -> (N.of_nat (length ops) <= usize_max)%N ->
  Forall obs_ok (snd (run (sys0 t0 off) (OStart c :: ops ++ [OStop]))).
Proof.
  intros Hcfg T Hb Htk Hlo Hhi Hmax. apply symlink_obs_ok; [exact Hb|].
  exact (timestamps_no_panic (nolink c) crit t0 off ops Hcfg T Hb Htk Hlo Hhi Hmax).
Qed.

Print Assumptions timestamps_symlink_current.
Print Assumptions timestamps_stream_symlink.
Print Assumptions timestamps_no_panic_symlink.

(* ---- TimestampsDirect naming ---- *)
Lemma tsd_step_clean c crit e lo hi n x a o :
  tsdcfg c crit -> tag_ok c -> years_ok e lo hi -> RelTd c crit e lo n x a -> basic_op o -> tick_ok o ->
  (wnow (s_w x) <= hi)%Z -> (N.of_nat (S n) <= usize_max)%N ->
  obs_ok (snd (step x o)) /\ werrs (s_w (fst (step x o))) = werrs (s_w x).
Proof.
  intros Hcfg T Y R Hb Htk Hhi Hmax.
  rewrite (step_sync_rel_tsd c crit e lo n x a o Hcfg R). destruct R as [Ht [Ha R]].
  assert (WB : forall b, exists s w' s' rot, s_flw x = Some s /\ f_poisoned s = false
                 /\ write_buffer s (s_w x) b = (Ok tt, w', s', rot) /\ werrs w' = werrs (s_w x)).
  { intros b. destruct a as [[closed cur]|].
    - destruct R as [keys [wr [roll [Es [I [V [Hn [Z RS]]]]]]]]. rewrite <- V in Z.
      assert (Hk : (N.of_nat (length keys) <= usize_max)%N) by (rewrite (td_len _ _ _ _ _ _ _ I); lia).
      destruct (write_active_tsd c crit e lo hi (s_w x) wr keys closed roll b Hcfg T Y I Hhi Hk Z)
        as [w' [wr' [roll' [keys' [closed' [E [_ [_ [S' _]]]]]]]]].
      eexists _, w', _, _. split; [exact Es|]. split; [reflexivity|]. split; [exact E | exact (same_env_errs _ _ S')].
    - destruct R as [Es [Q [Hn [Hi [Hoff Hlo]]]]].
      destruct (initialize_empty_tsd c crit e lo (s_w x) Hcfg Q Hn Hi Hoff Hlo) as [w1 [wr [roll [Ei [I [V [Z [S1 RS]]]]]]]].
      assert (Hhi1 : (wnow w1 <= hi)%Z) by (rewrite (same_env_now _ _ S1); exact Hhi).
      assert (Z0 : roll_size_ok roll (length (cur_view w1 wr))) by (rewrite V; exact Z).
      destruct (write_active_tsd c crit e lo hi w1 wr [(wnow (s_w x), 0)] [] roll b Hcfg T Y I Hhi1 ltac:(cbn [length]; lia) Z0)
        as [w' [wr' [roll' [keys' [closed' [E [_ [_ [S' _]]]]]]]]].
      eexists _, w', _, _. split; [exact Es|]. split; [reflexivity|].
      split; [rewrite (write_buffer_init c (s_w x) b _ _ _ w1 Ei); exact E|].
      rewrite (same_env_errs _ _ S'). exact (same_env_errs _ _ S1). }
  destruct o; try contradiction; cbn [sync_step].
  - destruct (WB (s_tl x ++ b)) as [s [w' [s' [rot [Es [Hp [E He]]]]]]]. rewrite Es, Hp, E. split; [reflexivity | exact He].
  - destruct (WB b) as [s [w' [s' [rot [Es [Hp [E He]]]]]]]. rewrite Es, Hp, E. split; [reflexivity | exact He].
  - destruct a as [[closed cur]|].
    + destruct R as [keys [wr [roll [Es [I _]]]]]. rewrite Es. cbn [st_tsd f_poisoned].
      destruct (flush_active_tsd c e lo (s_w x) wr keys closed roll (nth (length closed) keys kd) I) as [w' [wr' [E [_ [_ [_ S']]]]]].
      fold (st_tsd c e (nth (length closed) keys kd) roll wr). rewrite E. split; [reflexivity | exact (same_env_errs _ _ S')].
    + destruct R as [Es _]. rewrite Es. split; reflexivity.
  - destruct a as [[closed cur]|].
    + destruct R as [keys [wr [roll [Es [I [V [Hn ZR]]]]]]]. rewrite Es. cbn [st_tsd f_poisoned f_cfg f_inner].
      assert (Hk : (N.of_nat (length keys) <= usize_max)%N) by (rewrite (td_len _ _ _ _ _ _ _ I); lia).
      destruct (mount_next_rotates_tsd c crit e lo hi (s_w x) wr keys closed roll true Hcfg T Y I Hhi Hk eq_refl)
        as [w' [wr' [roll' [E [_ [_ [_ [S' _]]]]]]]].
      rewrite E. split; [reflexivity | exact (same_env_errs _ _ S')].
    + destruct R as [Es _]. rewrite Es. split; reflexivity.
  - split; reflexivity.
  - split; [exact I | reflexivity].
Qed.

Lemma tsd_run_clean c crit e lo hi : tsdcfg c crit -> tag_ok c -> years_ok e lo hi ->
  forall ops x a n, RelTd c crit e lo n x a -> Forall basic_op ops -> Forall tick_ok ops ->
  (wnow (s_w x) + elapsed ops <= hi)%Z -> (N.of_nat (n + length ops) <= usize_max)%N -> clean_run x ops.
Proof.
  intros Hcfg T Y. induction ops as [|o r IH]; intros x a n R Hb Htk Hhi Hmax; [exact I|].
  inversion Hb as [|o' r' Ho Hr]; subst. inversion Htk as [|o' r' Hto Htr]; subst.
  cbn [elapsed length clean_run] in *. pose proof (elapsed_nonneg r Htr) as Er.
  assert (Hdt : (0 <= dt_of o)%Z) by (destruct o; cbn [dt_of tick_ok] in *; lia).
  destruct (tsd_step_clean c crit e lo hi n x a o Hcfg T Y R Ho Hto ltac:(lia) ltac:(lia)) as [K E].
  pose proof (step_rel_tsd c crit e lo hi n x a o Hcfg T Y R Ho Hto ltac:(lia) ltac:(lia)) as S.
  destruct (step x o) as [x1 ob]. destruct S as [R1 [W1 _]]. cbn [fst snd] in *. split; [exact K|]. split; [exact E|].
  apply (IH x1 _ (S n) R1 Hr Htr); lia.
Qed.

(* at every point of the run the link names the file of the newest key - the last one of the keys of the directory -
   as soon as something has been written (hypotheses of timestampsdirect_stream) *)
Theorem timestampsdirect_symlink_current c crit t0 off ops :
  tsdcfg (nolink c) crit -> tag_ok c -> c_symlink c = true -> Forall basic_op ops -> Forall tick_ok ops ->
  (0 <= t0 + ts_e c off)%Z -> (t0 + elapsed ops + ts_e c off < sec_max)%Z -> (N.of_nat (length ops) <= usize_max)%N ->
  let x := fst (run (sys0 t0 off) (OStart c :: ops)) in
  if has_write ops
  then exists keys, keys <> [] /\ keys_ok keys /\ dir_is c (ts_e c off) (wfs (s_w x)) keys
         /\ wlink (s_w x) = Some (kname c (ts_e c off) (nth (length keys - 1) keys kd))
  else wlink (s_w x) = None.
Proof.
  intros Hcfg T Hs Hb Htk Hlo Hhi Hmax. pose proof Hcfg as (_ & _ & _ & Ha). change (c_async (nolink c)) with (c_async c) in Ha.
  pose proof (start_rel_tsd (nolink c) crit t0 off) as R0.
  assert (Y : years_ok (ts_e (nolink c) off) t0 (t0 + elapsed ops)) by (split; assumption).
  assert (W0 : wnow (s_w (fst (step (sys0 t0 off) (OStart (nolink c))))) = t0) by reflexivity.
  pose proof (tsd_run_clean (nolink c) crit _ _ _ Hcfg T Y ops _ None 0 R0 Hb Htk ltac:(lia) ltac:(cbn [Nat.add]; exact Hmax)) as Hc.
  destruct (symlink_run_state c t0 off ops Hs Ha Hb Hc) as [s [Es [En L]]].
  destruct (link_sim_whole c t0 off ops Hb) as [[Ew _] _]. cbn zeta in *.
  assert (Ef : wfs (s_w (fst (run (sys0 t0 off) (OStart c :: ops)))) = wfs (s_w (fst (run (sys0 t0 off) (OStart (nolink c) :: ops)))))
    by (rewrite Ew; reflexivity).
  rewrite Ef. clear Ef Ew. set (xs := fst (run (sys0 t0 off) (OStart c :: ops))) in *. clearbody xs. cbn [run] in En |- *.
  pose proof (run_rel_tsd (nolink c) crit _ _ _ Hcfg T Y ops _ None 0 R0 Hb Htk ltac:(lia) ltac:(cbn [Nat.add]; exact Hmax)) as [R1 _].
  pose proof (a_run_none_iff ops _ (run_length ops (fst (step (sys0 t0 off) (OStart (nolink c))))) Hb) as AN.
  destruct (step (sys0 t0 off) (OStart (nolink c))) as [xn0 on0]. cbn [fst snd] in *.
  destruct (run xn0 ops) as [xn1 ln]. cbn [fst snd] in *. destruct R1 as [_ [_ R1]].
  destruct (a_run None ops ln) as [[closed cur]|].
  - destruct R1 as [keys [wr [roll [Es1 [I _]]]]]. rewrite Es1 in En. apply inner_of_eq in En. cbn [unl st_tsd f_inner] in En.
    destruct (has_write ops); [|destruct AN as [_ AN]; discriminate (AN eq_refl)].
    exists keys. pose proof (td_len _ _ _ _ _ _ _ I) as Hl.
    split; [destruct keys; [discriminate Hl | discriminate]|]. split; [exact (td_keys _ _ _ _ _ _ _ I)|].
    split; [exact (tsdinv_dir _ _ _ _ _ _ _ I)|].
    rewrite <- En in L. cbn [link_st] in L. rewrite L, Hl. replace (S (length closed) - 1) with (length closed) by lia. reflexivity.
  - destruct R1 as [Es1 _]. rewrite Es1 in En. apply inner_of_eq in En. cbn [unl new_flw f_inner] in En.
    destruct (has_write ops); [destruct AN as [AN _]; discriminate (AN eq_refl)|]. rewrite <- En in L. exact L.
Qed.

Theorem timestampsdirect_stream_symlink c crit t0 off ops :
  tsdcfg (nolink c) crit -> tag_ok c -> Forall basic_op ops -> Forall tick_ok ops ->
  (0 <= t0 + ts_e c off)%Z -> (t0 + elapsed ops + ts_e c off < sec_max)%Z -> (N.of_nat (length ops) <= usize_max)%N ->
  let f := wfs (s_w (fst (run (sys0 t0 off) (OStart c :: ops ++ [OStop])))) in
  (names f = [] /\ written ops = [])
  \/ exists keys files,
       files <> []
       /\ tsd_view c (ts_e c off) f keys files
       /\ concat files = written ops
       /\ keys_ok keys
       /\ (forall k, In k keys -> (t0 <= fst k <= t0 + elapsed ops)%Z).
Proof.
  intros Hcfg T Hb Htk Hlo Hhi Hmax. cbn zeta. rewrite (symlink_final_fs c t0 off ops Hb).
  exact (timestampsdirect_stream (nolink c) crit t0 off ops Hcfg T Hb Htk Hlo Hhi Hmax).
Qed.

Print Assumptions timestampsdirect_symlink_current.
Print Assumptions timestampsdirect_stream_symlink.

(* ------------------------------------------------------------------ examples *)
Section Examples.
Import String.StringSyntax.
Open Scope string_scope.
Definition with_link (c : config) : config :=
  {| c_spec := c_spec c; c_append := c_append c; c_cap := c_cap c; c_rot := c_rot c; c_utc := c_utc c;
     c_symlink := true; c_bg := c_bg c; c_async := c_async c; c_start := c_start c |}.

(* NumbersDirect naming, size limit 3, buffered writer, symlink *)
Definition exl_c : config := with_link (exd_cfg (ex_sp "log") false (CSize 3) (Some 3%nat)).
Lemma exl_c_ok : numdcfg (nolink exl_c) (CSize 3).
Proof. apply (exd_cfg_ok (ex_sp "log") false (CSize 3) (Some 3%nat)). reflexivity. Qed.

(* three records, the second and the third rotate *)
Definition exl_ops : list op := [OFlush; OWrite (bs "abcd"); OWrite (bs "efgh"); OTick 5; OWrite (bs "ij"); OFlush].
Lemma exl_ops_basic : Forall basic_op exl_ops.
Proof. repeat constructor. Qed.

(* the link after 0, 1, ..., 6 operations of the history, as the model computes it *)
Example exl_links :
  List.map (fun k => wlink (s_w (fst (run (sys0 0 0) (OStart exl_c :: firstn k exl_ops))))) (seq 0 7)
  = [None; None; Some (bs "app_r00000.log"); Some (bs "app_r00001.log"); Some (bs "app_r00001.log");
     Some (bs "app_r00002.log"); Some (bs "app_r00002.log")].
Proof. vm_compute. reflexivity. Qed.

(* the same by the theorem, at the end of the history and after the drop *)
Example exl_current_instance :
  wlink (s_w (fst (run (sys0 0 0) (OStart exl_c :: exl_ops)))) = Some (rname exl_c 2).
Proof. rewrite (numbersdirect_symlink_current exl_c (CSize 3) 0 0 exl_ops exl_c_ok eq_refl exl_ops_basic). vm_compute. reflexivity. Qed.

Example exl_stream_instance :
  let w := s_w (fst (run (sys0 0 0) (OStart exl_c :: exl_ops ++ [OStop]))) in
  exists files, direct_view exl_c (wfs w) files /\ concat files = bs "abcdefghij"
    /\ wlink w = match files with [] => None | _ => Some (rname exl_c (length files - 1)) end.
Proof. exact (numbersdirect_stream_symlink exl_c (CSize 3) 0 0 exl_ops exl_c_ok eq_refl exl_ops_basic). Qed.

(* the directory and the link after the drop, computed *)
Example exl_final :
  (snap_of (fst (run (sys0 0 0) (OStart exl_c :: exl_ops ++ [OStop]))),
   wlink (s_w (fst (run (sys0 0 0) (OStart exl_c :: exl_ops ++ [OStop])))))
  = ([ (bs "app_r00000.log", 0%N, bs "abcd"); (bs "app_r00001.log", 0%N, bs "efgh"); (bs "app_r00002.log", 0%N, bs "ij") ],
     Some (bs "app_r00002.log")).
Proof. vm_compute. reflexivity. Qed.

(* Numbers naming: the link names rCURRENT from the first record on *)
Definition exl_cn : config := with_link (NumRestart.ex_cfg (ex_sp "log") false (CSize 3) (Some 3%nat)).
Example exl_links_numbers :
  List.map (fun k => wlink (s_w (fst (run (sys0 0 0) (OStart exl_cn :: firstn k exl_ops))))) (seq 0 7)
  = [None; None; Some (bs "app_rCURRENT.log"); Some (bs "app_rCURRENT.log"); Some (bs "app_rCURRENT.log");
     Some (bs "app_rCURRENT.log"); Some (bs "app_rCURRENT.log")].
Proof. vm_compute. reflexivity. Qed.

(* The hypothesis "nothing is reported" of symlink_points_to_current cannot be dropped, and this is a property of the
   code (open_log_file creates the symlink BEFORE it opens the file): when the open of the next file fails - here by an
   injected fault; OSetFaults is not a basic operation - the rotation is given up with an error on the error channel
   (ELogFile), the record goes into the old file r00000, all results are normal, and the link names r00001, a file that
   does not exist *)
Definition exl_cu : config := with_link (exd_cfg (ex_sp "log") false (CSize 3) None).
Definition exl_ops_fault : list op := [OWrite (bs "abcd"); OSetFaults [true]; OWrite (bs "efgh")].
Example ex_link_fault :
  let r := run (sys0 0 0) (OStart exl_cu :: exl_ops_fault) in
  (wlink (s_w (fst r)),
   match s_flw (fst r) with Some s => match f_inner s with Active _ _ p => Some p | Initial => None end | None => None end,
   snap_of (fst r), werrs (s_w (fst r)), snd r)
  = (Some (bs "app_r00001.log"), Some (bs "app_r00000.log"),
     [ (bs "app_r00000.log", 0%N, bs "abcdefgh") ], [ELogFile],
     [ObsRes 0 false; ObsRes 0 false; ObsRes 0 false; ObsRes 0 true]).
Proof. vm_compute. reflexivity. Qed.
End Examples.
