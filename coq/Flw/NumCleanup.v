(* Numbers naming with a cleanup strategy: "the cleanup keeps exactly the newest files, compresses losslessly and spares
   the current file", end to end, for every history  OStart c :: ops ++ [OStop]  of basic operations from the empty
   directory.  Parts: NumCleanupNames.v (names, the listing), NumCleanupStep.v (one cleanup), NumCleanupRun.v
   (invariant, rotation, run; theorem numbers_cleanup_stream).  Here: the properties (a)-(d) spelled out, the version
   for a size criterion (the view is a function of the operations), examples, and the counterexamples that show that
   the side condition (suffix not "gz" / not ending with ".gz") is necessary.  Since the repair of the listing order
   (the sort key compares the number behind the last "_r" - or, in a name without basename and discriminant, behind the
   leading "r" - numerically) there is no bound on the indices. *)
Require Import FL.Base.Bytes FL.Base.BytesFacts FL.Base.PathName FL.Fs.Fs FL.Fs.FsFacts FL.Time.Civil FL.Time.TsFormat
  FL.Names.FileSpec FL.Names.NamesFacts FL.Names.SortFacts FL.Names.FamilyFacts FL.Flw.Model FL.Flw.ModelFacts FL.Flw.NumFs
  FL.Flw.NumInv FL.Flw.Run FL.Flw.RunFacts FL.Flw.NumRun FL.Oracles.O_Flw FL.Flw.NumTheorems FL.Flw.NumListing FL.Flw.CleanupFacts
  FL.Flw.NumCleanupNames FL.Flw.NumCleanupStep FL.Flw.NumCleanupRun.
From Coq Require Import ZifyN ZifyNat ZifyBool.
Open Scope nat_scope.

(* ------------------------------------------------------------------ the final directory, name by name *)
Lemma kview_names c f closed cur lo mid : kreader_view c f closed cur lo mid ->
  forall x, (exists j, lookup f x = Some j) <->
    x = cname c \/ (exists i, mid <= i < length closed /\ x = rname c i) \/ (exists i, lo <= i < mid /\ x = gname c i).
Proof.
  intros [[Hle Hnd Hp Ha Hon] (jc & Lc & _)] x. split.
  - intros [j Lj]. exact (Hon _ _ Lj).
  - intros [->|[(i & Hi & ->)|(i & Hi & ->)]]; [eauto | |].
    + destruct (Hp i Hi) as (j & Lj & _). eauto.
    + destruct (Ha i Hi) as (j & Lj & _). eauto.
Qed.

Lemma skipn_cons_nth {A} (l : list A) d : forall lo, lo < length l -> skipn lo l = nth lo l d :: skipn (S lo) l.
Proof. induction l as [|x l IH]; intros [|lo] H; cbn [length] in H; try lia; [reflexivity|]. cbn [skipn nth]. rewrite IH by lia. reflexivity. Qed.

Lemma map_seq_skipn {A} (g : nat -> A) (l : list A) d : forall cnt lo, lo + cnt = length l ->
  (forall i, lo <= i < length l -> g i = nth i l d) -> map g (seq lo cnt) = skipn lo l.
Proof.
  induction cnt as [|cnt IH]; intros lo Hl Hg; cbn [seq map].
  - rewrite skipn_all2 by lia. reflexivity.
  - rewrite (skipn_cons_nth l d lo) by lia. rewrite Hg by lia. f_equal. apply IH; [lia|]. intros i Hi. apply Hg. lia.
Qed.

(* the content found under a name *)
Definition data_at (f : fs) (x : bytes) : bytes := match file_of f x with Some fl => fdata fl | None => [] end.

(* ------------------------------------------------------------------ (a)-(d) *)
(* n = number of log files kept as they are, m = number of files kept as archives (KLog n: m = 0; KGz m: n = 0).
   closed, cur: the reader's view that the run would leave without cleanup. *)
Theorem numbers_cleanup_properties c crit k n m t0 off ops closed cur :
  numkcfg c crit k -> klim k = Some (n, m) -> Forall basic_op ops ->
  sfx_ok (c_spec c) ->
  a_run None ops (snd (run (fst (step (sys0 t0 off) (OStart c))) ops)) = Some (closed, cur) ->
  let f := wfs (s_w (fst (run (sys0 t0 off) (OStart c :: ops ++ [OStop])))) in
  let L := length closed in let lo := L - (n + m) in let mid := L - n in
  (* what was written *)
  concat closed ++ cur = written ops
  (* exactly these names exist, each once *)
  /\ (forall x, (exists j, lookup f x = Some j) <->
        x = cname c \/ (exists i, mid <= i < L /\ x = rname c i) \/ (exists i, lo <= i < mid /\ x = gname c i))
  /\ NoDup (dir_names f)
  (* (a) the limits: at most n plain rotated files, at most m archives; the next cleanup would see them like this *)
  /\ L - mid <= n /\ mid - lo <= m
  /\ (forall off', list_log_gz off' (c_spec c) (fixed0 c) f IFNum = Some (listing c lo mid L))
  (* the newest n closed files are there as they were closed *)
  /\ (forall i, mid <= i < L -> lookup f (gname c i) = None /\
        exists fl, file_of f (rname c i) = Some fl /\ fdata fl = nth i closed [] /\ fgz fl = 0%N /\ fdir fl = false)
  (* (c) the next m are complete archives of what the file held when it was closed; the original is gone *)
  /\ (forall i, lo <= i < mid -> lookup f (rname c i) = None /\
        exists fl, file_of f (gname c i) = Some fl /\ fdata fl = nth i closed [] /\ fgz fl = 1%N /\ fdir fl = false)
  (* older files are gone *)
  /\ (forall i, i < lo -> lookup f (rname c i) = None /\ lookup f (gname c i) = None)
  (* (b) the survivors, read by index, then rCURRENT: a suffix of what was written *)
  /\ written ops = concat (firstn lo closed) ++ concat (map (fun i => data_at f (entry c mid i)) (seq lo (L - lo))) ++ cur
  (* (d) the current file is plain and holds what it would hold without cleanup *)
  /\ (exists fl, file_of f (cname c) = Some fl /\ fdata fl = cur /\ fgz fl = 0%N /\ fdir fl = false).
Proof.
  intros Hcfg Hk Hb Hsfx Ea f L lo mid.
  pose proof (numbers_cleanup_stream c crit k t0 off ops Hcfg Hb) as T. cbv zeta in T. rewrite Ea in T. fold f in T.
  destruct T as [Fl V]. { unfold kside. rewrite Hk. exact Hsfx. }
  cbn [flat] in Fl. unfold k_lo, k_mid in V. rewrite Hk in V. fold L lo mid in V.
  pose proof (kview_names _ _ _ _ _ _ V) as Names. fold L in Names.
  destruct V as [KD (jc & Lc & [Gc Dc] & Cc)]. pose proof KD as [Hle Hnd Hp Ha Hon]. fold L in Hle, Hp, Hon.
  assert (NoName : forall x, ~ (x = cname c \/ (exists i, mid <= i < L /\ x = rname c i) \/ (exists i, lo <= i < mid /\ x = gname c i)) ->
                   lookup f x = None).
  { intros x H. destruct (lookup f x) as [j|] eqn:E; [|reflexivity]. exfalso. apply H, Names. eauto. }
  assert (Data : forall i, lo <= i < L -> data_at f (entry c mid i) = nth i closed []).
  { intros i Hi. unfold data_at, file_of. destruct (Nat.le_gt_cases mid i) as [H|H].
    - rewrite entry_plain by exact H. destruct (Hp i ltac:(lia)) as (j & -> & _ & Cj). exact Cj.
    - rewrite entry_arch by exact H. destruct (Ha i ltac:(lia)) as (j & -> & Dj & _). exact Dj. }
  split; [exact Fl|]. split; [exact Names|]. split; [exact Hnd|]. split; [unfold mid; lia|]. split; [unfold lo, mid; lia|].
  split. { intros off'. apply list_log_gz_numbers; [exact Hsfx | apply kdir_shape; exact KD]. }
  split.
  { intros i Hi. split.
    - apply NoName. intros [X|[(j & Hj & X)|(j & Hj & X)]].
      + exact (gname_not_cname _ _ X).
      + exact (gname_ne_rname _ _ _ X).
      + apply gname_inj in X. lia.
    - destruct (Hp i Hi) as (j & Lj & [Gj Dj] & Cj). exists (inode f j). unfold file_of. rewrite Lj. auto. }
  split.
  { intros i Hi. split.
    - apply NoName. intros [X|[(j & Hj & X)|(j & Hj & X)]].
      + exact (rname_not_cname _ _ X).
      + apply rname_inj in X. lia.
      + symmetry in X. exact (gname_ne_rname _ _ _ X).
    - destruct (Ha i Hi) as (j & Lj & Dj & Gj & Fj). exists (inode f j). unfold file_of. rewrite Lj. auto. }
  split.
  { intros i Hi. split; apply NoName; intros [X|[(j & Hj & X)|(j & Hj & X)]].
    - exact (rname_not_cname _ _ X).
    - apply rname_inj in X. lia.
    - symmetry in X. exact (gname_ne_rname _ _ _ X).
    - exact (gname_not_cname _ _ X).
    - exact (gname_ne_rname _ _ _ X).
    - apply gname_inj in X. lia. }
  split.
  { rewrite (map_seq_skipn (fun i => data_at f (entry c mid i)) closed [] (L - lo) lo); [|unfold lo, L; lia | exact Data].
    rewrite app_assoc, <- concat_app, firstn_skipn. symmetry. exact Fl. }
  exists (inode f jc). unfold file_of. rewrite Lc. auto.
Qed.
Print Assumptions numbers_cleanup_properties.

(* KNever: everything stays - the reader's view of NumRun.v, without side conditions *)
Corollary numbers_cleanup_never c crit t0 off ops :
  numkcfg c crit KNever -> Forall basic_op ops ->
  match a_run None ops (snd (run (fst (step (sys0 t0 off) (OStart c))) ops)) with
  | None => names (wfs (s_w (fst (run (sys0 t0 off) (OStart c :: ops ++ [OStop]))))) = []
  | Some (closed, cur) => reader_view c (wfs (s_w (fst (run (sys0 t0 off) (OStart c :: ops ++ [OStop]))))) closed cur
  end.
Proof.
  intros Hcfg Hb. pose proof (numbers_cleanup_stream c crit KNever t0 off ops Hcfg Hb) as T. cbv zeta in T.
  destruct T as [_ V]; [exact I|].
  destruct (a_run None ops (snd (run (fst (step (sys0 t0 off) (OStart c))) ops))) as [[closed cur]|]; [|exact V].
  destruct V as [[Hle Hnd Hp Ha Hon] Hc]. cbn [k_lo k_mid klim] in *. split; [|split].
  - intros i Hi. apply Hp. lia.
  - exact Hc.
  - intros x j Lx. destruct (Hon _ _ Lx) as [E|[(i & Hi & E)|(i & Hi & E)]]; [auto | right; exists i; split; [lia | exact E] | lia].
Qed.

(* ------------------------------------------------------------------ size criterion: the view is a function of the operations *)
Lemma step_flag_k c k m x a o b :
  numkcfg c (CSize m) k -> RelK c (CSize m) k x a -> kside c k 0 -> (o = OWrite b \/ o = OPlain b) ->
  rot_of (snd (step x o)) = (m <? N.of_nat (length (cur_of a)))%N.
Proof.
  intros Hcfg R Hs0 Ho. rewrite (step_sync_rel_k c (CSize m) k x a o Hcfg R). destruct R as [Ht [Ha R]].
  assert (G : forall buf, exists s, s_flw x = Some s /\ f_poisoned s = false /\
              snd (write_buffer s (s_w x) buf) = (m <? N.of_nat (length (cur_of a)))%N).
  { intros buf. destruct a as [[closed cur]|].
    - destruct R as [wr [roll [Es [I [V [Z RS]]]]]]. exists (st_ofk c k (length closed) roll wr).
      split; [exact Es|]. split; [reflexivity|]. rewrite write_buffer_rotflag.
      destruct (RS m eq_refl) as [z ->]. cbn in Z. subst z. reflexivity.
    - destruct R as [Es [Q [Hn Hi]]]. exists (new_flw c). split; [exact Es|]. split; [reflexivity|].
      destruct (initialize_empty_k c (CSize m) k (s_w x) Hcfg Hs0 Q Hn Hi) as [w1 [wr [roll [Ei [I [V [Z [S1 [RS _]]]]]]]]].
      rewrite (write_buffer_init c (s_w x) buf _ _ _ w1 Ei).
      change {| f_cfg := c; f_inner := Active (Some (mk_rsk k (NSNumR 0) roll)) wr (cname c); f_poisoned := false |}
        with (st_ofk c k 0 roll wr).
      rewrite write_buffer_rotflag, (RS m eq_refl). reflexivity. }
  destruct Ho as [-> | ->]; cbn [sync_step].
  - destruct (G (s_tl x ++ b)) as (s & Es & Hp & Hr). rewrite Es, Hp.
    destruct (write_buffer s (s_w x) (s_tl x ++ b)) as [[[r w'] s'] rot]. exact Hr.
  - destruct (G b) as (s & Es & Hp & Hr). rewrite Es, Hp.
    destruct (write_buffer s (s_w x) b) as [[[r w'] s'] rot]. exact Hr.
Qed.

Lemma nclosed_s_run m : forall ops a, nclosed a <= nclosed (s_run m a ops).
Proof.
  induction ops as [|o r IH]; intros a; cbn [s_run]; [lia|].
  eapply Nat.le_trans; [apply (nclosed_step a o (m <? N.of_nat (length (cur_of a)))%N) | apply IH].
Qed.

Lemma run_size_k' c k m : numkcfg c (CSize m) k -> forall ops x a, RelK c (CSize m) k x a -> Forall basic_op ops ->
  kside c k (nclosed (s_run m a ops)) ->
  a_run a ops (snd (run x ops)) = s_run m a ops.
Proof.
  intros Hcfg. induction ops as [|o r IH]; intros x a R Hb Hside; [reflexivity|].
  inversion Hb as [|o' r' Ho Hr]; subst. cbn [s_run] in Hside.
  assert (Hs1 : kside c k (nclosed (a_step a o (m <? N.of_nat (length (cur_of a)))%N)))
    by (eapply kside_le; [apply nclosed_s_run | exact Hside]).
  assert (Hs0 : kside c k 0) by (eapply kside_le; [|exact Hs1]; lia).
  assert (Erot : a_step a o (rot_of (snd (step x o))) = a_step a o (m <? N.of_nat (length (cur_of a)))%N).
  { destruct o; try reflexivity.
    - rewrite (step_flag_k c k m x a (OWrite b) b Hcfg R Hs0 (or_introl eq_refl)). reflexivity.
    - rewrite (step_flag_k c k m x a (OPlain b) b Hcfg R Hs0 (or_intror eq_refl)). reflexivity. }
  pose proof (step_rel_k c (CSize m) k x a o Hcfg R Ho) as S. cbn [run].
  destruct (step x o) as [x1 ob]. cbn [snd] in Erot. rewrite Erot in S. destruct (S Hs1) as [R1 _].
  specialize (IH x1 _ R1 Hr Hside). destruct (run x1 r) as [x2 obs]. cbn [snd a_run s_run] in *. rewrite Erot. exact IH.
Qed.

(* C08 + cleanup: the closed files and the current file are the greedy partition of what was written; the directory
   holds the newest n of them plain, the next m as archives, and the current file *)
Theorem numbers_cleanup_partition c k m t0 off ops :
  numkcfg c (CSize m) k -> Forall basic_op ops ->
  kside c k (nclosed (s_run m None ops)) ->
  let f := wfs (s_w (fst (run (sys0 t0 off) (OStart c :: ops ++ [OStop])))) in
  match s_run m None ops with
  | None => names f = []
  | Some (closed, cur) =>
    closed ++ [cur] = expected_files m None (items false ops)
    /\ kreader_view c f closed cur (k_lo k (length closed)) (k_mid k (length closed))
  end.
Proof.
  intros Hcfg Hb Hside f.
  pose proof (start_rel_k c (CSize m) k t0 off) as R0.
  pose proof (run_size_k' c k m Hcfg ops _ None R0 Hb Hside) as Es.
  pose proof (numbers_cleanup_stream c (CSize m) k t0 off ops Hcfg Hb) as T. cbv zeta in T. rewrite Es in T.
  destruct (T Hside) as [_ V]. fold f in V.
  pose proof (s_run_none m ops Hb) as P.
  destruct (s_run m None ops) as [[closed cur]|]; [|exact V]. split; [exact P | exact V].
Qed.
Print Assumptions numbers_cleanup_partition.

(* ------------------------------------------------------------------ the same history without cleanup *)
(* The rotation flags - and with them the view (closed, cur) - do not depend on the cleanup strategy: they are decided by
   the clock and the rotation state alone (trace_ok).  So the view of the run with cleanup IS what the same history
   leaves in the directory when the strategy is KNever. *)
Lemma flag_of_env crit w w' ro o : wnow w' = wnow w -> woff w' = woff w -> flag_of crit w' ro o = flag_of crit w ro o.
Proof.
  intros H1 H2. unfold flag_of. destruct (is_write o); [|reflexivity]. rewrite H1. apply rotation_necessary_env; assumption.
Qed.

Lemma runs_agree c c' crit k k' : numkcfg c crit k -> numkcfg c' crit k' -> (forall L, kside c' k' L) ->
  forall ops x x' a, RelK c crit k x a -> RelK c' crit k' x' a ->
  wnow (s_w x') = wnow (s_w x) -> woff (s_w x') = woff (s_w x) -> roll_of_sys x' = roll_of_sys x ->
  Forall basic_op ops ->
  kside c k (nclosed (a_run a ops (snd (run x ops)))) ->
  a_run a ops (snd (run x' ops)) = a_run a ops (snd (run x ops)).
Proof.
  intros Hcfg Hcfg' Hside'. induction ops as [|o r IH]; intros x x' a R R' Hn Ho Hr Hb Hside; [reflexivity|].
  inversion Hb as [|o' r' Hbo Hbr]; subst. cbn [run] in *.
  pose proof (step_rel_k c crit k x a o Hcfg R Hbo) as S. pose proof (step_rel_k c' crit k' x' a o Hcfg' R' Hbo) as S'.
  destruct (step x o) as [x1 ob]. destruct (step x' o) as [x1' ob'].
  specialize (IH x1 x1'). destruct (run x1 r) as [x2 obs]. destruct (run x1' r) as [x2' obs']. cbn [snd a_run] in *.
  destruct S as (R1 & _ & F1 & G1 & N1 & O1); [eapply kside_le; [apply nclosed_run | exact Hside]|].
  destruct (S' (Hside' _)) as (R1' & _ & F1' & G1' & N1' & O1').
  assert (Ef : rot_of ob' = rot_of ob) by (rewrite F1, F1', Hr; apply flag_of_env; assumption).
  rewrite Ef in *. apply IH; auto; congruence.
Qed.

Definition never_cfg (c : config) (crit : criterion) : config :=
  {| c_spec := c_spec c; c_append := c_append c; c_cap := c_cap c; c_rot := Some (crit, NNumbers, KNever); c_utc := c_utc c;
     c_symlink := c_symlink c; c_bg := c_bg c; c_async := c_async c; c_start := c_start c |}.

Theorem numbers_cleanup_vs_never c crit k t0 off ops :
  numkcfg c crit k -> Forall basic_op ops ->
  let a := a_run None ops (snd (run (fst (step (sys0 t0 off) (OStart c))) ops)) in
  kside c k (nclosed a) ->
  let f0 := wfs (s_w (fst (run (sys0 t0 off) (OStart (never_cfg c crit) :: ops ++ [OStop])))) in
  match a with
  | None => names f0 = []
  | Some (closed, cur) => reader_view c f0 closed cur
  end.
Proof.
  intros Hcfg Hb a Hside f0.
  assert (Hcfg0 : numkcfg (never_cfg c crit) crit KNever) by (destruct Hcfg as (_ & ? & ? & ? & ?); repeat split; assumption).
  pose proof (numbers_cleanup_never (never_cfg c crit) crit t0 off ops Hcfg0 Hb) as T. fold f0 in T.
  assert (Ea : a_run None ops (snd (run (fst (step (sys0 t0 off) (OStart (never_cfg c crit)))) ops)) = a).
  { apply (runs_agree c (never_cfg c crit) crit k KNever Hcfg Hcfg0); auto.
    - intros L. exact I.
    - apply start_rel_k.
    - apply start_rel_k. }
  rewrite Ea in T. destruct a as [[closed cur]|]; exact T.
Qed.
Print Assumptions numbers_cleanup_vs_never.

(* ------------------------------------------------------------------ examples *)
Import String.StringSyntax.
Delimit Scope string_scope with string.

Definition ex_cfg (k : cleanup) (sfx : option bytes) : config :=
  {| c_spec := {| fbase := bs "a"%string; fdisc := None; fts := false; fsfx := sfx |};
     c_append := false; c_cap := None; c_rot := Some (CSize 3, NNumbers, k); c_utc := false; c_symlink := false;
     c_bg := false; c_async := false; c_start := None |}.
(* six records of five bytes, limit 3: a rotation before each record but the first *)
Definition ex_ops : list op := map (fun i => OWrite (bs "abcd"%string ++ [N.of_nat i])) (seq 0 6).
Definition ex_final (k : cleanup) (sfx : option bytes) : obs :=
  snapshot (s_w (fst (run (sys0 0 0) (OStart (ex_cfg k sfx) :: ex_ops ++ [OStop])))).
Definition log_sfx : option bytes := Some (bs "log"%string).

(* KLogGz 1 1, five rotations: r00004 plain, r00003 as an archive (kind 1) with its content, r00000..r00002 gone *)
Example ex_loggz_1_1 :
  ex_final (KLogGz 1 1) log_sfx =
  ObsSnap [(bs "a_r00003.log.gz"%string, 1%N, bs "abcd"%string ++ [3%N]);
           (bs "a_r00004.log"%string, 0%N, bs "abcd"%string ++ [4%N]);
           (bs "a_rCURRENT.log"%string, 0%N, bs "abcd"%string ++ [5%N])] None [].
Proof. vm_compute. reflexivity. Qed.

Example ex_log_2 :
  ex_final (KLog 2) log_sfx =
  ObsSnap [(bs "a_r00003.log"%string, 0%N, bs "abcd"%string ++ [3%N]);
           (bs "a_r00004.log"%string, 0%N, bs "abcd"%string ++ [4%N]);
           (bs "a_rCURRENT.log"%string, 0%N, bs "abcd"%string ++ [5%N])] None [].
Proof. vm_compute. reflexivity. Qed.

Example ex_gz_2 :
  ex_final (KGz 2) log_sfx =
  ObsSnap [(bs "a_r00003.log.gz"%string, 1%N, bs "abcd"%string ++ [3%N]);
           (bs "a_r00004.log.gz"%string, 1%N, bs "abcd"%string ++ [4%N]);
           (bs "a_rCURRENT.log"%string, 0%N, bs "abcd"%string ++ [5%N])] None [].
Proof. vm_compute. reflexivity. Qed.

(* the limits count closed files only: with both limits 0 only the current file is left *)
Example ex_loggz_0_0 :
  ex_final (KLogGz 0 0) log_sfx = ObsSnap [(bs "a_rCURRENT.log"%string, 0%N, bs "abcd"%string ++ [5%N])] None [].
Proof. vm_compute. reflexivity. Qed.

(* the hypotheses of the theorems hold for this history (they are not vacuous), and the conclusion is what was computed *)
Lemma ex_ops_basic : Forall basic_op ex_ops.
Proof. unfold ex_ops. apply Forall_forall. intros o H. apply in_map_iff in H. destruct H as (i & <- & _). exact I. Qed.
Lemma ex_numkcfg k sfx : numkcfg (ex_cfg k sfx) (CSize 3) k.
Proof. repeat split. Qed.
Lemma ex_sfx_ok : sfx_ok (c_spec (ex_cfg (KLogGz 1 1) log_sfx)).
Proof. vm_compute. reflexivity. Qed.

Example ex_instance :
  let c := ex_cfg (KLogGz 1 1) log_sfx in
  let f := wfs (s_w (fst (run (sys0 0 0) (OStart c :: ex_ops ++ [OStop])))) in
  let closed := map (fun i => bs "abcd"%string ++ [N.of_nat i]) (seq 0 5) in
  let cur := bs "abcd"%string ++ [5%N] in
  s_run 3 None ex_ops = Some (closed, cur)
  /\ kreader_view c f closed cur 3 4
  /\ (exists fl, file_of f (gname c 3) = Some fl /\ fdata fl = nth 3 closed [] /\ fgz fl = 1%N /\ fdir fl = false)
  /\ lookup f (rname c 3) = None /\ lookup f (rname c 2) = None /\ lookup f (gname c 2) = None.
Proof.
  intros c f closed cur.
  assert (Es : s_run 3 None ex_ops = Some (closed, cur)) by (vm_compute; reflexivity).
  split; [exact Es|].
  pose proof (numbers_cleanup_partition c (KLogGz 1 1) 3 0 0 ex_ops (ex_numkcfg _ _) ex_ops_basic) as T.
  cbv zeta in T. rewrite Es in T. fold f in T.
  destruct T as [_ V]. { exact ex_sfx_ok. }
  change (k_lo (KLogGz 1 1) (length closed)) with 3 in V. change (k_mid (KLogGz 1 1) (length closed)) with 4 in V.
  split; [exact V|]. destruct V as [KD _]. pose proof KD as [_ _ _ Ha _].
  split. { destruct (Ha 3 ltac:(lia)) as (j & Lj & Dj & Gj & Fj). exists (inode f j). unfold file_of. rewrite Lj. auto. }
  pose proof (kview_names c f closed cur 3 4) as Names.
  assert (NoName : forall x, ~ (x = cname c \/ (exists i, 4 <= i < length closed /\ x = rname c i) \/ (exists i, 3 <= i < 4 /\ x = gname c i)) ->
                   lookup f x = None).
  { intros x H. destruct (lookup f x) as [j|] eqn:E; [|reflexivity]. exfalso. apply H, Names; [split; [exact KD|] | eauto].
    vm_compute. eexists. split; [reflexivity|]. repeat split. }
  repeat split; apply NoName; intros [X|[(j & Hj & X)|(j & Hj & X)]];
    try (exact (rname_not_cname _ _ X)); try (exact (gname_not_cname _ _ X));
    try (apply rname_inj in X; lia); try (apply gname_inj in X; lia);
    try (exact (gname_ne_rname _ _ _ X)); try (symmetry in X; exact (gname_ne_rname _ _ _ X)).
Qed.

(* ------------------------------------------------------------------ the side conditions are necessary (findings) *)
(* 1. The suffix "gz": every closed file is listed twice (as a log file and as an archive), so the limits are used up
      twice as fast: with KLogGz 1 1 only ONE closed file survives (instead of two), and it is not compressed. *)
Example sfx_gz_counterexample :
  ~ sfx_ok (c_spec (ex_cfg (KLogGz 1 1) (Some (bs "gz"%string))))
  /\ ex_final (KLogGz 1 1) (Some (bs "gz"%string)) =
     ObsSnap [(bs "a_r00004.gz"%string, 0%N, bs "abcd"%string ++ [4%N]);
              (bs "a_rCURRENT.gz"%string, 0%N, bs "abcd"%string ++ [5%N])] None [].
Proof. split; [vm_compute; discriminate | vm_compute; reflexivity]. Qed.

(* 2. A suffix that ends with ".gz": the closed files are taken for archives and are never compressed; with KGz 2 two
      PLAIN files are kept (kind 0) and there is no archive. *)
Example sfx_log_gz_counterexample :
  ~ sfx_ok (c_spec (ex_cfg (KGz 2) (Some (bs "log.gz"%string))))
  /\ ex_final (KGz 2) (Some (bs "log.gz"%string)) =
     ObsSnap [(bs "a_r00003.log.gz"%string, 0%N, bs "abcd"%string ++ [3%N]);
              (bs "a_r00004.log.gz"%string, 0%N, bs "abcd"%string ++ [4%N]);
              (bs "a_rCURRENT.log.gz"%string, 0%N, bs "abcd"%string ++ [5%N])] None [].
Proof. split; [vm_compute; discriminate | vm_compute; reflexivity]. Qed.

(* 3. Index 100000, REPAIRED (this was the counterexample index_100000_counterexample: the listing was sorted by name,
      "r100000" sorted before "r99999", and the cleanup with KLog 1 removed r100000 - the NEWEST closed file).  The sort key
      now compares the number behind the last "_r" numerically: r100000 is listed first, the cleanup keeps it and removes
      the older r99999. *)
Definition big_c : config := ex_cfg (KLog 1) log_sfx.
Definition big_fs : fs :=
  mkfile (mkfile (mkfile empty_fs (rname big_c (N.to_nat 99999)) (bs "older"%string) 0 10)
                 (rname big_c (N.to_nat 100000)) (bs "newest"%string) 0 20)
         (cname big_c) (bs "cur"%string) 0 30.
Example index_100000_repaired :
  rname big_c (N.to_nat 99999) = bs "a_r99999.log"%string /\ rname big_c (N.to_nat 100000) = bs "a_r100000.log"%string
  /\ list_log_gz 0 (c_spec big_c) (fixed0 big_c) big_fs IFNum = Some [bs "a_r100000.log"%string; bs "a_r99999.log"%string]
  /\ let r := cleanup_impl big_c (world_of big_fs) (KLog 1) IFNum None in
     fst r = Ok tt
     /\ map (data_at (wfs (snd r))) [bs "a_r99999.log"%string; bs "a_r100000.log"%string; bs "a_rCURRENT.log"%string]
        = [[]; bs "newest"%string; bs "cur"%string]
     /\ lookup (wfs (snd r)) (bs "a_r99999.log"%string) = None.
Proof. vm_compute. repeat split; reflexivity. Qed.

(* the same from the theorem of NumCleanupNames.v, which has no hypothesis on the indices: three closed files up to index
   100001, two of them archives *)
Example index_100000_listing_thm f off :
  dir_shape big_c f (N.to_nat 99999) (N.to_nat 100001) (N.to_nat 100002) ->
  list_log_gz off (c_spec big_c) (fixed0 big_c) f IFNum = Some (listing big_c (N.to_nat 99999) (N.to_nat 100001) (N.to_nat 100002)).
Proof. intros DS. apply list_log_gz_numbers; [vm_compute; reflexivity | exact DS]. Qed.

(* 4. AN EMPTY FIXED NAME PART (basename suppressed, no discriminant), REPAIRED (this was the counterexample
      index_100000_counterexample_empty_fixed to the first version of the repair, which split the name at "_r" only): the
      names are r<digits>.<suffix> without "_"; the sort key reads the number behind the leading "r": r100000 is listed
      first, the cleanup with KLog 1 keeps it and removes the older r99999. *)
Definition nofix_c : config :=
  {| c_spec := {| fbase := []; fdisc := None; fts := false; fsfx := log_sfx |};
     c_append := false; c_cap := None; c_rot := Some (CSize 3, NNumbers, KLog 1); c_utc := false; c_symlink := false;
     c_bg := false; c_async := false; c_start := None |}.
Definition nofix_fs : fs :=
  mkfile (mkfile (mkfile empty_fs (rname nofix_c (N.to_nat 99999)) (bs "older"%string) 0 10)
                 (rname nofix_c (N.to_nat 100000)) (bs "newest"%string) 0 20)
         (cname nofix_c) (bs "cur"%string) 0 30.
Example index_100000_empty_fixed_repaired :
  numkcfg nofix_c (CSize 3) (KLog 1) /\ sfx_ok (c_spec nofix_c) /\ fixed0 nofix_c = []
  /\ rname nofix_c (N.to_nat 99999) = bs "r99999.log"%string /\ rname nofix_c (N.to_nat 100000) = bs "r100000.log"%string
  /\ list_log_gz 0 (c_spec nofix_c) (fixed0 nofix_c) nofix_fs IFNum = Some [bs "r100000.log"%string; bs "r99999.log"%string]
  /\ let r := cleanup_impl nofix_c (world_of nofix_fs) (KLog 1) IFNum None in
     fst r = Ok tt
     /\ map (data_at (wfs (snd r))) [bs "r99999.log"%string; bs "r100000.log"%string; bs "rCURRENT.log"%string]
        = [[]; bs "newest"%string; bs "cur"%string]
     /\ lookup (wfs (snd r)) (bs "r99999.log"%string) = None.
Proof.
  split; [repeat split|]. split; [vm_compute; reflexivity|]. split; [reflexivity|].
  vm_compute. repeat split; reflexivity.
Qed.

(* the same from the theorem: any directory of that shape is listed newest first *)
Example index_100000_empty_fixed_listing_thm f off :
  dir_shape nofix_c f (N.to_nat 99999) (N.to_nat 100001) (N.to_nat 100002) ->
  list_log_gz off (c_spec nofix_c) (fixed0 nofix_c) f IFNum = Some (listing nofix_c (N.to_nat 99999) (N.to_nat 100001) (N.to_nat 100002)).
Proof. intros DS. apply list_log_gz_numbers; [vm_compute; reflexivity | exact DS]. Qed.
