(* Filtering commutes with the insertion sorts of the model: entries that a filter rejects have no influence on
   what the filter lets through, wherever they stand in the directory list. *)
Require Import FL.Base.Bytes FL.Base.BytesFacts FL.Fs.Fs FL.Names.FileSpec FL.Names.SortFacts.
From Coq Require Import Sorting.Sorted.
Open Scope nat_scope.

Section SortFilter.
Variable le : bytes -> bytes -> bool.
Hypothesis le_total : forall x y, le x y = true \/ le y x = true.
Hypothesis le_trans : forall x y z, le x y = true -> le y z = true -> le x z = true.

Definition le_rel (x y : bytes) : Prop := le x y = true.
Definition isort (l : list bytes) : list bytes := fold_right (insert_by le) [] l.

Lemma insert_by_in_iff x l y : In y (insert_by le x l) <-> y = x \/ In y l.
Proof.
  induction l as [|z l IH]; cbn [insert_by]; [cbn; intuition|]. destruct (le x z); cbn [In]; [intuition|]. rewrite IH. intuition.
Qed.
Lemma isort_in l y : In y (isort l) <-> In y l.
Proof.
  induction l as [|x l IH]; cbn [isort fold_right]; [tauto|]. fold (isort l). rewrite insert_by_in_iff, IH. cbn [In]. intuition.
Qed.

Lemma insert_by_ssorted x l : StronglySorted le_rel l -> StronglySorted le_rel (insert_by le x l).
Proof.
  induction l as [|y l IH]; intros S; cbn [insert_by].
  - constructor; [constructor | constructor].
  - inversion S as [|y' l' Sl Hy]; subst. destruct (le x y) eqn:E.
    + constructor; [exact S|]. constructor; [exact E|].
      apply Forall_forall. intros z Hz. rewrite Forall_forall in Hy. exact (le_trans x y z E (Hy z Hz)).
    + constructor; [apply IH; exact Sl|].
      apply Forall_forall. intros z Hz. apply insert_by_in_iff in Hz. destruct Hz as [->|Hz].
      * destruct (le_total x y) as [H|H]; [congruence | exact H].
      * rewrite Forall_forall in Hy. exact (Hy z Hz).
Qed.
Lemma isort_ssorted l : StronglySorted le_rel (isort l).
Proof.
  induction l as [|x l IH]; cbn [isort fold_right]; [constructor|]. apply insert_by_ssorted. exact IH.
Qed.

Lemma filter_insert_by_false (q : bytes -> bool) x l : q x = false -> filter q (insert_by le x l) = filter q l.
Proof.
  intros Hq. induction l as [|y l IH]; cbn [insert_by filter]; [rewrite Hq; reflexivity|].
  destruct (le x y); cbn [filter]; [rewrite Hq; reflexivity|]. rewrite IH. reflexivity.
Qed.

Lemma insert_by_head x l : (forall z, In z l -> le x z = true) -> insert_by le x l = x :: l.
Proof. destruct l as [|y l]; intros H; cbn [insert_by]; [reflexivity|]. rewrite H by (left; reflexivity). reflexivity. Qed.

Lemma filter_insert_by_true (q : bytes -> bool) x l : StronglySorted le_rel l -> q x = true ->
  filter q (insert_by le x l) = insert_by le x (filter q l).
Proof.
  intros S Hq. induction l as [|y l IH]; cbn [insert_by filter]; [rewrite Hq; reflexivity|].
  inversion S as [|y' l' Sl Hy]; subst. rewrite Forall_forall in Hy. destruct (le x y) eqn:E.
  - cbn [filter]. rewrite Hq. destruct (q y) eqn:Qy.
    + cbn [insert_by]. rewrite E. reflexivity.
    + symmetry. apply insert_by_head. intros z Hz. apply filter_In in Hz. destruct Hz as [Hz _].
      exact (le_trans x y z E (Hy z Hz)).
  - cbn [filter]. destruct (q y) eqn:Qy.
    + cbn [insert_by]. rewrite E, IH by exact Sl. reflexivity.
    + apply IH. exact Sl.
Qed.

Lemma filter_none {A} (q : A -> bool) l : (forall x, In x l -> q x = false) -> filter q l = [].
Proof.
  induction l as [|x l IH]; intros H; cbn [filter]; [reflexivity|]. rewrite H by (left; reflexivity).
  apply IH. intros y Hy. apply H. right. exact Hy.
Qed.
Lemma filter_all {A} (q : A -> bool) l : (forall x, In x l -> q x = true) -> filter q l = l.
Proof.
  induction l as [|x l IH]; intros H; cbn [filter]; [reflexivity|]. rewrite H by (left; reflexivity).
  f_equal. apply IH. intros y Hy. apply H. right. exact Hy.
Qed.

(* the rejected entries B do not influence what is let through of the sorted list *)
Theorem filter_isort_app (q : bytes -> bool) A B : (forall b, In b B -> q b = false) ->
  filter q (isort (A ++ B)) = filter q (isort A).
Proof.
  intros HB. induction A as [|a A IH]; cbn [app].
  - cbn [isort fold_right filter]. apply filter_none. intros x Hx. apply HB. apply isort_in. exact Hx.
  - cbn [isort fold_right]. fold (isort (A ++ B)) (isort A). destruct (q a) eqn:Qa.
    + rewrite !filter_insert_by_true by (try apply isort_ssorted; exact Qa). rewrite IH. reflexivity.
    + rewrite !filter_insert_by_false by exact Qa. exact IH.
Qed.
End SortFilter.

Lemma filter_rev_comm {A} (q : A -> bool) l : filter q (rev l) = rev (filter q l).
Proof.
  induction l as [|x l IH]; [reflexivity|]. cbn [rev filter]. rewrite filter_app, IH. cbn [filter].
  destruct (q x); cbn [rev]; [reflexivity | rewrite app_nil_r; reflexivity].
Qed.

(* the listing order of read_dir_related_files *)
Theorem filter_sort_by_key_app sfx (q : bytes -> bool) A B : (forall b, In b B -> q b = false) ->
  filter q (sort_by_key sfx (A ++ B)) = filter q (sort_by_key sfx A).
Proof.
  intros HB. exact (filter_isort_app (key_le sfx) (key_le_total sfx) (key_le_trans sfx) q A B HB).
Qed.

(* the order of the snapshots *)
Lemma insert_name_by x l : insert_name x l = insert_by lex_le x l.
Proof. induction l as [|y l IH]; cbn [insert_name insert_by]; [reflexivity|]. rewrite IH. reflexivity. Qed.
Lemma sort_names_isort l : sort_names l = isort lex_le l.
Proof.
  unfold sort_names, isort. induction l as [|x l IH]; cbn [fold_right]; [reflexivity|]. rewrite IH. apply insert_name_by.
Qed.
Theorem filter_sort_names_app (q : bytes -> bool) A B : (forall b, In b B -> q b = false) ->
  filter q (sort_names (A ++ B)) = filter q (sort_names A).
Proof.
  intros HB. rewrite !sort_names_isort. exact (filter_isort_app lex_le lex_le_total lex_le_trans q A B HB).
Qed.
Lemma sort_names_in_iff l y : In y (sort_names l) <-> In y l.
Proof. rewrite sort_names_isort. apply isort_in. Qed.
