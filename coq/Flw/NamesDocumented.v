(* "Every file the logger creates is named as documented": the oracle Oracles/O_Names.name_documented accepts every
   name in the directory, at every point of every history covered by the stream theorems (Numbers - with and without a
   cleanup strategy -, NumbersDirect, Timestamps).  The start-time part is absent in these configurations (fts = false),
   so the start text handed to the oracle is irrelevant.  Hypothesis not_gz: the family's suffix is not "gz" and does not end
   with ".gz" - the oracle takes a trailing ".gz" for the mark of an archive (FamilyFacts.full_infix_as_name_iff: the
   hypothesis is necessary). *)
Require Import FL.Base.Bytes FL.Base.BytesFacts FL.Base.PathName FL.Fs.Fs FL.Fs.FsFacts FL.Time.Civil FL.Time.TsFormat
  FL.Names.FileSpec FL.Names.NamesFacts FL.Names.SortFacts FL.Names.FamilyFacts FL.Flw.Model FL.Flw.ModelFacts FL.Flw.NumFs
  FL.Flw.NumInv FL.Flw.Run FL.Flw.RunFacts FL.Flw.NumRun FL.Oracles.O_Flw FL.Oracles.ReaderOrder FL.Oracles.O_Names
  FL.Flw.NumTheorems FL.Flw.NumListing FL.Flw.NumRestart
  FL.Flw.NumDInv FL.Flw.NumDRun FL.Flw.NumDTheorems
  FL.Flw.CleanupFacts FL.Flw.NumCleanupNames FL.Flw.NumCleanupStep FL.Flw.NumCleanupRun FL.Flw.NumCleanup
  FL.Flw.TsCal FL.Flw.TsTime FL.Flw.TsMono FL.Flw.TsNames FL.Flw.TsInv FL.Flw.TsRun FL.Flw.TsTheorems FL.Flw.TsReader
  FL.Flw.NumKillRestart FL.Flw.NoPanic FL.Flw.TsParse.
From Coq Require Import ZifyN ZifyNat ZifyBool.
Open Scope nat_scope.

(* ------------------------------------------------------------------ the documented fixed part *)
(* without a start-time part the documented fixed part is the one the code computes, whatever the start text; a present but
   empty discriminant is left out by both *)
Lemma doc_fixed_fixed0 c t : fts (c_spec c) = false -> doc_fixed (c_spec c) t = fixed0 c.
Proof.
  unfold doc_fixed, fixed0, fixed_name_part, under. destruct (c_spec c) as [b d ts s]. cbn [fbase fdisc fts]. intros ->.
  destruct b as [|b0 br], d as [[|d0 dr]|]; cbn [filter join app]; rewrite <- ?app_assoc; reflexivity.
Qed.

(* all names of the directory *)
Definition all_documented (c : config) (f : fs) : Prop := forall n, In n (dir_names f) -> name_documented c [] n = true.

Lemma all_documented_empty c f : names f = [] -> all_documented c f.
Proof. intros H n I. unfold dir_names in I. rewrite H in I. destruct I. Qed.

(* ------------------------------------------------------------------ the infixes *)
Lemma full_infix_rname c i : not_gz c -> full_infix (c_spec c) (fixed0 c) (rname c i) = Some (number_infix (N.of_nat i)).
Proof.
  intros G. unfold rname, nm. apply full_infix_as_name_parts; [apply number_infix_nonempty|].
  unfold not_gz in G. destruct (fsfx (c_spec c)); [exact G | apply number_infix_no_gz].
Qed.

(* an archive is recognised like its original *)
Lemma full_infix_gz sp fixed n : strip_suffix (dot :: gz_sfx) n = None ->
  full_infix sp fixed (n ++ dot :: gz_sfx) = full_infix sp fixed n.
Proof. intros H. unfold full_infix. rewrite strip_suffix_app, H. reflexivity. Qed.

Lemma full_infix_gname c i : not_gz c -> full_infix (c_spec c) (fixed0 c) (gname c i) = Some (number_infix (N.of_nat i)).
Proof.
  intros G. rewrite gname_app. unfold dot_gz. rewrite full_infix_gz; [apply full_infix_rname; exact G|].
  apply rname_no_gz. exact G.
Qed.

Lemma valid_number_infix nam cur i : fmt_of nam = None -> valid_infix nam cur (number_infix i) = true.
Proof.
  intros F. unfold valid_infix. rewrite F, number_infix_digs. rewrite N.eqb_refl, digs_all.
  destruct (Nat.leb_spec 5 (length (digs i))) as [_|H]; [|pose proof (digs_length i); lia].
  cbn [andb]. apply orb_true_r.
Qed.

Lemma valid_cur_infix nam x : valid_infix nam (Some x) x = true.
Proof. unfold valid_infix. rewrite beq_refl. reflexivity. Qed.

(* ------------------------------------------------------------------ Numbers *)
Lemma documented_cname c crit k : c_rot c = Some (crit, NNumbers, k) -> fts (c_spec c) = false -> not_gz c ->
  name_documented c [] (cname c) = true.
Proof.
  intros Hrot Hts G. unfold name_documented. rewrite Hrot, (doc_fixed_fixed0 c [] Hts), (full_infix_cname c G).
  unfold cur_infix_of. rewrite Hrot. apply valid_cur_infix.
Qed.

Lemma documented_rname c crit nam k i : c_rot c = Some (crit, nam, k) -> fmt_of nam = None -> fts (c_spec c) = false -> not_gz c ->
  name_documented c [] (rname c i) = true.
Proof.
  intros Hrot F Hts G. unfold name_documented. rewrite Hrot, (doc_fixed_fixed0 c [] Hts), (full_infix_rname c i G).
  apply valid_number_infix. exact F.
Qed.

Lemma documented_gname c crit nam k i : c_rot c = Some (crit, nam, k) -> fmt_of nam = None -> fts (c_spec c) = false -> not_gz c ->
  name_documented c [] (gname c i) = true.
Proof.
  intros Hrot F Hts G. unfold name_documented. rewrite Hrot, (doc_fixed_fixed0 c [] Hts), (full_infix_gname c i G).
  apply valid_number_infix. exact F.
Qed.

(* at every point of a history: the invariant knows all names of the directory *)
Lemma rel_documented c crit x a : numcfg c crit -> not_gz c -> Rel c crit x a -> all_documented c (wfs (s_w x)).
Proof.
  intros [Hrot [Hts _]] G [_ [_ R]]. destruct a as [[closed cur]|].
  - destruct R as [wr [roll [_ [I _]]]]. intros n In_. apply dir_names_lookup in In_. destruct In_ as [j Lj].
    destruct (ni_only _ _ _ _ I n j Lj) as [->|[i [_ ->]]].
    + exact (documented_cname c crit KNever Hrot Hts G).
    + exact (documented_rname c crit NNumbers KNever i Hrot eq_refl Hts G).
  - destruct R as [_ [_ [Hn _]]]. apply all_documented_empty. exact Hn.
Qed.

(* the directory after  OStart c :: ops  - the writer is still open -, for every history *)
Theorem numbers_names_documented_always c crit t0 off ops :
  numcfg c crit -> not_gz c -> Forall basic_op ops ->
  all_documented c (wfs (s_w (fst (run (sys0 t0 off) (OStart c :: ops))))).
Proof.
  intros Hcfg G Hb. cbn [run]. destruct (step (sys0 t0 off) (OStart c)) as [x0 ob0] eqn:E0.
  pose proof (start_rel c crit t0 off) as R0. rewrite E0 in R0. cbn [fst] in R0.
  pose proof (run_rel c crit Hcfg ops x0 None R0 Hb) as R1. destruct (run x0 ops) as [x1 obs1]. cbn [fst snd] in *.
  exact (rel_documented c crit x1 _ Hcfg G R1).
Qed.

(* the directory that the stopped writer leaves *)
Theorem numbers_names_documented c crit t0 off ops :
  numcfg c crit -> not_gz c -> Forall basic_op ops ->
  all_documented c (wfs (s_w (fst (run (sys0 t0 off) (OStart c :: ops ++ [OStop]))))).
Proof.
  intros Hcfg G Hb. destruct (numbers_stream c crit t0 off ops Hcfg Hb) as [files [Rd _]].
  destruct Hcfg as [Hrot [Hts _]]. unfold reads in Rd. destruct files as [|f0 fr].
  - apply all_documented_empty. exact Rd.
  - destruct Rd as [closed [cur [_ [_ [_ Hon]]]]]. intros n In_. apply dir_names_lookup in In_. destruct In_ as [j Lj].
    destruct (Hon n j Lj) as [->|[i [_ ->]]].
    + exact (documented_cname c crit KNever Hrot Hts G).
    + exact (documented_rname c crit NNumbers KNever i Hrot eq_refl Hts G).
Qed.
Print Assumptions numbers_names_documented.

(* every snapshot taken during the run shows documented names only *)
Definition snap_documented (c : config) (ob : obs) : Prop :=
  match ob with ObsSnap files _ _ => forall e, In e files -> name_documented c [] (fst (fst e)) = true | _ => True end.

Lemma snapshot_documented c w : all_documented c (wfs w) -> snap_documented c (snapshot w).
Proof.
  intros H. unfold snapshot, snap_documented. intros e In_. apply in_map_iff in In_. destruct In_ as [n [<- In_]].
  apply (proj1 (sort_names_in' _ _)) in In_. destruct (file_of (wfs w) n); cbn [fst]; apply H; exact In_.
Qed.

Lemma step_snap x : snd (step x OSnap) = snapshot (s_w x).
Proof.
  unfold step, apply_start. cbn [names_computed andb].
  assert (E : (match s_flw x with Some _ => x | None => x end) = x) by (destruct (s_flw x); reflexivity).
  rewrite E. unfold step_core. destruct (s_flw x) as [s|]; [destruct (is_async s)|]; reflexivity.
Qed.

Lemma step_snap_documented c x o : basic_op o -> obs_ok (snd (step x o)) -> all_documented c (wfs (s_w x)) ->
  snap_documented c (snd (step x o)).
Proof.
  intros Hb K H. pose proof (basic_shape x o Hb K) as Sh. destruct o; try contradiction; cbn [obs_normal] in Sh;
    try (destruct Sh as [r ->]; exact I).
  rewrite step_snap. apply snapshot_documented. exact H.
Qed.

Lemma run_snaps_documented c crit : numcfg c crit -> not_gz c -> forall ops x a, Rel c crit x a -> Forall basic_op ops ->
  Forall (snap_documented c) (snd (run x ops)).
Proof.
  intros Hcfg G. induction ops as [|o r IH]; intros x a R Hb; [constructor|].
  cbn [run]. inversion Hb as [|o' r' Ho Hr]; subst.
  pose proof (step_rel c crit x a o Hcfg R Ho) as S. pose proof (step_rel_ok c crit x a o Hcfg R Ho) as K.
  pose proof (step_snap_documented c x o Ho K (rel_documented c crit x a Hcfg G R)) as D.
  destruct (step x o) as [x1 ob]. destruct S as [R1 _]. specialize (IH x1 _ R1 Hr). destruct (run x1 r) as [x2 obs].
  cbn [snd] in *. constructor; assumption.
Qed.

Theorem numbers_snapshots_documented c crit t0 off ops :
  numcfg c crit -> not_gz c -> Forall basic_op ops ->
  Forall (snap_documented c) (snd (run (sys0 t0 off) (OStart c :: ops))).
Proof.
  intros Hcfg G Hb. cbn [run]. destruct (step (sys0 t0 off) (OStart c)) as [x0 ob0] eqn:E0.
  pose proof (start_rel c crit t0 off) as R0. rewrite E0 in R0. cbn [fst] in R0.
  assert (K0 : snap_documented c ob0) by (cbn in E0; injection E0 as _ <-; exact I).
  pose proof (run_snaps_documented c crit Hcfg G ops x0 None R0 Hb) as K1. destruct (run x0 ops) as [x1 obs1]. cbn [snd] in *.
  constructor; assumption.
Qed.
Print Assumptions numbers_snapshots_documented.

(* ------------------------------------------------------------------ Numbers with a cleanup strategy: archives *)
(* the archive  <name>.gz  of a rotated file is accepted like the file itself: the oracle removes the trailing ".gz" *)
Lemma relk_documented c crit k x a : numkcfg c crit k -> not_gz c -> RelK c crit k x a -> all_documented c (wfs (s_w x)).
Proof.
  intros (Hrot & Hts & _) G [_ [_ R]]. destruct a as [[closed cur]|].
  - destruct R as [wr [roll [_ [I _]]]]. intros n In_. apply dir_names_lookup in In_. destruct In_ as [j Lj].
    destruct (kd_only _ _ _ _ _ (nk_dir _ _ _ _ _ _ I) n j Lj) as [->|[[i [_ ->]]|[i [_ ->]]]].
    + exact (documented_cname c crit k Hrot Hts G).
    + exact (documented_rname c crit NNumbers k i Hrot eq_refl Hts G).
    + exact (documented_gname c crit NNumbers k i Hrot eq_refl Hts G).
  - destruct R as [_ [_ [Hn _]]]. apply all_documented_empty. exact Hn.
Qed.

Theorem numbers_cleanup_names_documented_always c crit k t0 off ops :
  numkcfg c crit k -> not_gz c -> Forall basic_op ops ->
  kside c k (nclosed (a_run None ops (snd (run (fst (step (sys0 t0 off) (OStart c))) ops)))) ->
  all_documented c (wfs (s_w (fst (run (sys0 t0 off) (OStart c :: ops))))).
Proof.
  intros Hcfg G Hb Hside. cbn [run]. destruct (step (sys0 t0 off) (OStart c)) as [x0 ob0] eqn:E0.
  pose proof (start_rel_k c crit k t0 off) as R0. rewrite E0 in R0. cbn [fst] in R0, Hside.
  pose proof (run_rel_k c crit k Hcfg ops x0 None R0 Hb Hside) as R1. destruct (run x0 ops) as [x1 obs1]. cbn [fst snd] in *.
  exact (relk_documented c crit k x1 _ Hcfg G R1).
Qed.

(* the hypotheses are those of numbers_cleanup_properties (sfx_ok is not_gz) *)
Theorem numbers_cleanup_names_documented c crit k t0 off ops :
  numkcfg c crit k -> not_gz c -> Forall basic_op ops ->
  kside c k (nclosed (a_run None ops (snd (run (fst (step (sys0 t0 off) (OStart c))) ops)))) ->
  all_documented c (wfs (s_w (fst (run (sys0 t0 off) (OStart c :: ops ++ [OStop]))))).
Proof.
  intros Hcfg G Hb Hside. pose proof (numbers_cleanup_stream c crit k t0 off ops Hcfg Hb) as T. cbv zeta in T.
  destruct (T Hside) as [_ V]. destruct Hcfg as (Hrot & Hts & _).
  destruct (a_run None ops (snd (run (fst (step (sys0 t0 off) (OStart c))) ops))) as [[closed cur]|].
  - destruct V as [KD _]. intros n In_. apply dir_names_lookup in In_. destruct In_ as [j Lj].
    destruct (kd_only _ _ _ _ _ KD n j Lj) as [->|[[i [_ ->]]|[i [_ ->]]]].
    + exact (documented_cname c crit k Hrot Hts G).
    + exact (documented_rname c crit NNumbers k i Hrot eq_refl Hts G).
    + exact (documented_gname c crit NNumbers k i Hrot eq_refl Hts G).
  - apply all_documented_empty. exact V.
Qed.
Print Assumptions numbers_cleanup_names_documented.

(* ------------------------------------------------------------------ NumbersDirect *)
Lemma reld_documented c crit x a : numdcfg c crit -> not_gz c -> RelD c crit x a -> all_documented c (wfs (s_w x)).
Proof.
  intros [Hrot [Hts _]] G [_ [_ R]]. destruct a as [[closed cur]|].
  - destruct R as [wr [roll [_ [I _]]]]. intros n In_. apply dir_names_lookup in In_. destruct In_ as [j Lj].
    destruct (nd_only _ _ _ _ I n j Lj) as [i [_ ->]].
    exact (documented_rname c crit NNumbersDirect KNever i Hrot eq_refl Hts G).
  - destruct R as [_ [_ [Hn _]]]. apply all_documented_empty. exact Hn.
Qed.

Theorem numbersdirect_names_documented_always c crit t0 off ops :
  numdcfg c crit -> not_gz c -> Forall basic_op ops ->
  all_documented c (wfs (s_w (fst (run (sys0 t0 off) (OStart c :: ops))))).
Proof.
  intros Hcfg G Hb. cbn [run]. destruct (step (sys0 t0 off) (OStart c)) as [x0 ob0] eqn:E0.
  pose proof (start_rel_d c crit t0 off) as R0. rewrite E0 in R0. cbn [fst] in R0.
  pose proof (run_rel_d c crit Hcfg ops x0 None R0 Hb) as R1. destruct (run x0 ops) as [x1 obs1]. cbn [fst snd] in *.
  exact (reld_documented c crit x1 _ Hcfg G R1).
Qed.

Theorem numbersdirect_names_documented c crit t0 off ops :
  numdcfg c crit -> not_gz c -> Forall basic_op ops ->
  all_documented c (wfs (s_w (fst (run (sys0 t0 off) (OStart c :: ops ++ [OStop]))))).
Proof.
  intros Hcfg G Hb. destruct (numbersdirect_stream c crit t0 off ops Hcfg Hb) as [files [[_ Hon] _]].
  destruct Hcfg as [Hrot [Hts _]]. intros n In_. apply dir_names_lookup in In_. destruct In_ as [j Lj].
  destruct (Hon n j Lj) as [i [_ ->]]. exact (documented_rname c crit NNumbersDirect KNever i Hrot eq_refl Hts G).
Qed.
Print Assumptions numbersdirect_names_documented.

Lemma run_snaps_documented_d c crit : numdcfg c crit -> not_gz c -> forall ops x a, RelD c crit x a -> Forall basic_op ops ->
  Forall (snap_documented c) (snd (run x ops)).
Proof.
  intros Hcfg G. induction ops as [|o r IH]; intros x a R Hb; [constructor|].
  cbn [run]. inversion Hb as [|o' r' Ho Hr]; subst.
  pose proof (step_rel_d c crit x a o Hcfg R Ho) as S. pose proof (step_rel_d_ok c crit x a o Hcfg R Ho) as K.
  pose proof (step_snap_documented c x o Ho K (reld_documented c crit x a Hcfg G R)) as D.
  destruct (step x o) as [x1 ob]. destruct S as [R1 _]. specialize (IH x1 _ R1 Hr). destruct (run x1 r) as [x2 obs].
  cbn [snd] in *. constructor; assumption.
Qed.

Theorem numbersdirect_snapshots_documented c crit t0 off ops :
  numdcfg c crit -> not_gz c -> Forall basic_op ops ->
  Forall (snap_documented c) (snd (run (sys0 t0 off) (OStart c :: ops))).
Proof.
  intros Hcfg G Hb. cbn [run]. destruct (step (sys0 t0 off) (OStart c)) as [x0 ob0] eqn:E0.
  pose proof (start_rel_d c crit t0 off) as R0. rewrite E0 in R0. cbn [fst] in R0.
  assert (K0 : snap_documented c ob0) by (cbn in E0; injection E0 as _ <-; exact I).
  pose proof (run_snaps_documented_d c crit Hcfg G ops x0 None R0 Hb) as K1. destruct (run x0 ops) as [x1 obs1]. cbn [snd] in *.
  constructor; assumption.
Qed.

(* ------------------------------------------------------------------ Timestamps *)
(* <time stamp> and <time stamp>.restart-NNNN are valid infixes: the time stamp is read back by the parser (TsParse.parse_tsx),
   the restart counter has at least four digits *)
Lemma valid_ts_infix cur e k : in_years e (fst k) -> valid_infix NTimestamps cur (infix_of e k) = true.
Proof.
  intros H. unfold valid_infix. cbn [fmt_of].
  assert (Hc : contains restart_tag (tsx e (fst k)) = false) by (apply no_dot_no_tag; exact (tsx_no_dot e _ H)).
  unfold infix_of. destruct (snd k) as [|m].
  - unfold split_restart. apply contains_false_iff in Hc. rewrite Hc, (parse_tsx e _ H). apply orb_true_r.
  - unfold split_restart, restart_infix. rewrite (sk_find_tag_app _ _ Hc), sk_firstn_app, (parse_tsx e _ H).
    rewrite sk_skipn_app, skipn_length_app. fold (restart_digits (N.of_nat m)). rewrite restart_digits_all.
    destruct (Nat.leb_spec 4 (length (restart_digits (N.of_nat m)))) as [_|X]; [|pose proof (restart_digits_length (N.of_nat m)); lia].
    apply orb_true_r.
Qed.

Lemma documented_kname c crit k e key : c_rot c = Some (crit, NTimestamps, k) -> fts (c_spec c) = false -> not_gz c ->
  in_years e (fst key) -> name_documented c [] (kname c e key) = true.
Proof.
  intros Hrot Hts G Y. unfold name_documented. rewrite Hrot, (doc_fixed_fixed0 c [] Hts), (full_infix_kname c e key G Y).
  apply valid_ts_infix. exact Y.
Qed.

Lemma documented_cname_ts c crit k : c_rot c = Some (crit, NTimestamps, k) -> fts (c_spec c) = false -> not_gz c ->
  name_documented c [] (cname c) = true.
Proof.
  intros Hrot Hts G. unfold name_documented. rewrite Hrot, (doc_fixed_fixed0 c [] Hts), (full_infix_cname c G).
  unfold cur_infix_of. rewrite Hrot. apply valid_cur_infix.
Qed.

Lemma ts_view_documented c crit e lo hi f keys closed cur : tscfg c crit -> not_gz c -> years_ok e lo hi ->
  (forall k, In k keys -> (lo <= fst k <= hi)%Z) -> ts_view c e f keys closed cur -> all_documented c f.
Proof.
  intros [Hrot [Hts _]] G Y Rg [Hlen [_ [_ [Hon _]]]] n In_. apply dir_names_lookup in In_. destruct In_ as [j Lj].
  destruct (Hon n j Lj) as [->|[i [Hi ->]]].
  - exact (documented_cname_ts c crit KNever Hrot Hts G).
  - apply (documented_kname c crit KNever e _ Hrot Hts G). apply (years_in e lo hi _ Y). apply Rg, nth_In. lia.
Qed.

(* the directory that the stopped writer leaves; hypotheses of timestamps_stream *)
Theorem timestamps_names_documented c crit t0 off ops :
  tscfg c crit -> tag_ok c -> not_gz c -> Forall basic_op ops -> Forall tick_ok ops ->
  (0 <= t0 + ts_e c off)%Z -> (t0 + elapsed ops + ts_e c off < sec_max)%Z -> (N.of_nat (length ops) <= usize_max)%N ->
  all_documented c (wfs (s_w (fst (run (sys0 t0 off) (OStart c :: ops ++ [OStop]))))).
Proof.
  intros Hcfg T G Hb Htk Hlo Hhi Hmax.
  pose proof (timestamps_stream c crit t0 off ops Hcfg T Hb Htk Hlo Hhi Hmax) as TS. cbv zeta in TS.
  destruct TS as [[Hn _]|[keys [cl [cu [V [_ [_ Rg]]]]]]]; [apply all_documented_empty; exact Hn|].
  assert (Y : years_ok (ts_e c off) t0 (t0 + elapsed ops)) by (split; assumption).
  exact (ts_view_documented c crit _ _ _ _ keys cl cu Hcfg G Y Rg V).
Qed.
Print Assumptions timestamps_names_documented.

(* at every point of the history *)
Lemma relt_documented c crit e lo hi n x a : tscfg c crit -> not_gz c -> years_ok e lo hi -> (wnow (s_w x) <= hi)%Z ->
  RelT c e lo n x a -> all_documented c (wfs (s_w x)).
Proof.
  intros [Hrot [Hts _]] G Y Hhi [_ [_ R]]. destruct a as [[closed cur]|].
  - destruct R as [keys [wr [roll [ts [_ [I _]]]]]]. intros m In_. apply dir_names_lookup in In_. destruct In_ as [j Lj].
    destruct (ti_only _ _ _ _ _ _ _ _ I m j Lj) as [->|[i [Hi ->]]].
    + exact (documented_cname_ts c crit KNever Hrot Hts G).
    + apply (documented_kname c crit KNever e _ Hrot Hts G). apply (years_in e lo hi _ Y).
      pose proof (ti_range _ _ _ _ _ _ _ _ I (nth i keys kd)) as Rg. pose proof (ti_ts _ _ _ _ _ _ _ _ I) as Rt.
      pose proof (ti_len _ _ _ _ _ _ _ _ I) as Hl.
      assert (Ik : In (nth i keys kd) keys) by (apply nth_In; lia). specialize (Rg Ik). lia.
  - destruct R as [_ [_ [Hn _]]]. apply all_documented_empty. exact Hn.
Qed.

Theorem timestamps_names_documented_always c crit t0 off ops :
  tscfg c crit -> tag_ok c -> not_gz c -> Forall basic_op ops -> Forall tick_ok ops ->
  (0 <= t0 + ts_e c off)%Z -> (t0 + elapsed ops + ts_e c off < sec_max)%Z -> (N.of_nat (length ops) <= usize_max)%N ->
  all_documented c (wfs (s_w (fst (run (sys0 t0 off) (OStart c :: ops))))).
Proof.
  intros Hcfg T G Hb Htk Hlo Hhi Hmax. cbn [run]. destruct (step (sys0 t0 off) (OStart c)) as [x0 ob0] eqn:E0.
  pose proof (start_rel_ts c t0 off) as R0. rewrite E0 in R0. cbn [fst] in R0.
  assert (W0 : wnow (s_w x0) = t0) by (cbn in E0; injection E0 as <- _; reflexivity).
  assert (Y : years_ok (ts_e c off) t0 (t0 + elapsed ops)) by (split; assumption).
  pose proof (run_rel_ts c crit _ _ _ Hcfg T Y ops x0 None 0 R0 Hb Htk ltac:(lia) ltac:(cbn [Nat.add]; exact Hmax)) as [R1 W1].
  destruct (run x0 ops) as [x1 obs1]. cbn [fst snd] in *.
  apply (relt_documented c crit _ _ _ _ x1 _ Hcfg G Y ltac:(lia) R1).
Qed.
Print Assumptions timestamps_names_documented_always.

Lemma run_snaps_documented_ts c crit e lo hi : tscfg c crit -> tag_ok c -> not_gz c -> years_ok e lo hi ->
  forall ops x a n, RelT c e lo n x a -> Forall basic_op ops -> Forall tick_ok ops ->
  (wnow (s_w x) + elapsed ops <= hi)%Z -> (N.of_nat (n + length ops) <= usize_max)%N ->
  Forall (snap_documented c) (snd (run x ops)).
Proof.
  intros Hcfg T G Y. induction ops as [|o r IH]; intros x a n R Hb Htk Hhi Hmax; [constructor|].
  cbn [run]. inversion Hb as [|o' r' Ho Hr]; subst. inversion Htk as [|o' r' Hto Htr]; subst.
  cbn [elapsed length] in *. pose proof (elapsed_nonneg r Htr) as Er.
  assert (Hdt : (0 <= dt_of o)%Z) by (destruct o; cbn [dt_of tick_ok] in *; lia).
  pose proof (step_rel_ts c crit e lo hi n x a o Hcfg T Y R Ho Hto ltac:(lia) ltac:(lia)) as S.
  pose proof (step_rel_ts_ok c crit e lo hi n x a o Hcfg T Y R Ho Hto ltac:(lia) ltac:(lia)) as K.
  pose proof (step_snap_documented c x o Ho K (relt_documented c crit e lo hi n x a Hcfg G Y ltac:(lia) R)) as D.
  destruct (step x o) as [x1 ob].
  destruct S as [R1 W1]. specialize (IH x1 _ (S n) R1 Hr Htr ltac:(lia) ltac:(lia)). destruct (run x1 r) as [x2 obs].
  cbn [snd] in *. constructor; assumption.
Qed.

Theorem timestamps_snapshots_documented c crit t0 off ops :
  tscfg c crit -> tag_ok c -> not_gz c -> Forall basic_op ops -> Forall tick_ok ops ->
  (0 <= t0 + ts_e c off)%Z -> (t0 + elapsed ops + ts_e c off < sec_max)%Z -> (N.of_nat (length ops) <= usize_max)%N ->
  Forall (snap_documented c) (snd (run (sys0 t0 off) (OStart c :: ops))).
Proof.
  intros Hcfg T G Hb Htk Hlo Hhi Hmax. cbn [run]. destruct (step (sys0 t0 off) (OStart c)) as [x0 ob0] eqn:E0.
  pose proof (start_rel_ts c t0 off) as R0. rewrite E0 in R0. cbn [fst] in R0.
  assert (K0 : snap_documented c ob0) by (cbn in E0; injection E0 as _ <-; exact I).
  assert (W0 : wnow (s_w x0) = t0) by (cbn in E0; injection E0 as <- _; reflexivity).
  assert (Y : years_ok (ts_e c off) t0 (t0 + elapsed ops)) by (split; assumption).
  pose proof (run_snaps_documented_ts c crit _ _ _ Hcfg T G Y ops x0 None 0 R0 Hb Htk ltac:(lia) ltac:(cbn [Nat.add]; exact Hmax)) as K1.
  destruct (run x0 ops) as [x1 obs1]. cbn [snd] in *. constructor; assumption.
Qed.

(* ------------------------------------------------------------------ instances *)
Import String.StringSyntax.
Open Scope string_scope.

Lemma ex_not_gz k : not_gz (NumCleanup.ex_cfg k log_sfx).
Proof. vm_compute. reflexivity. Qed.

Example numbers_names_documented_instance :
  all_documented (NumCleanup.ex_cfg KNever log_sfx) (wfs (s_w (fst (run (sys0 0 0) (OStart (NumCleanup.ex_cfg KNever log_sfx) :: ex_ops ++ [OStop]))))).
Proof.
  apply (numbers_names_documented _ (CSize 3)); [|apply ex_not_gz | exact ex_ops_basic].
  destruct (ex_numkcfg KNever log_sfx) as (A & B & C & D & _). repeat split; assumption.
Qed.

(* with a cleanup strategy: the archive a_r00003.log.gz next to a_r00004.log and a_rCURRENT.log *)
Example numbers_cleanup_names_documented_instance :
  all_documented (NumCleanup.ex_cfg (KLogGz 1 1) log_sfx)
    (wfs (s_w (fst (run (sys0 0 0) (OStart (NumCleanup.ex_cfg (KLogGz 1 1) log_sfx) :: ex_ops ++ [OStop])))))
  /\ sort_names (dir_names (wfs (s_w (fst (run (sys0 0 0) (OStart (NumCleanup.ex_cfg (KLogGz 1 1) log_sfx) :: ex_ops ++ [OStop]))))))
     = [bs "a_r00003.log.gz"; bs "a_r00004.log"; bs "a_rCURRENT.log"].
Proof.
  split; [|vm_compute; reflexivity].
  apply (numbers_cleanup_names_documented _ (CSize 3) (KLogGz 1 1)); [apply ex_numkcfg | apply ex_not_gz | exact ex_ops_basic|].
  exact ex_sfx_ok.
Qed.

Example numbersdirect_names_documented_instance :
  all_documented exd_c (wfs (s_w (fst (run (sys0 0 0) (OStart exd_c :: exd_ops ++ [OStop]))))).
Proof. apply (numbersdirect_names_documented exd_c (CSize 3)); [exact exd_c_ok | vm_compute; reflexivity | exact exd_ops_basic]. Qed.

Example timestamps_names_documented_instance :
  all_documented ext_c (wfs (s_w (fst (run (sys0 0 0) (OStart ext_c :: ext_ops ++ [OStop])))))
  /\ name_documented ext_c [] (bs "app_r1970-01-01_00-00-00.restart-0002.log") = true.
Proof.
  split; [|vm_compute; reflexivity].
  apply (timestamps_names_documented ext_c (CSize 100) 0 0 ext_ops ext_c_ok ext_c_tag_ok ext_c_not_gz ext_ops_basic ext_ops_ticks).
  - change (0 <= 0)%Z. lia.
  - change (1 < sec_max)%Z. unfold sec_max. lia.
  - vm_compute. discriminate.
Qed.

(* not_gz is needed: for a family whose own suffix is "gz" the oracle takes ".gz" for the mark of an archive, does not find
   the suffix any more and rejects every name that the writer creates *)
Example gz_suffix_not_documented :
  let c := NumRestart.ex_cfg (ex_sp "gz") false (CSize 100) None in
  snap_of (fst (run (sys0 0 0) (OStart c :: [OWrite (bs "a"); OTrigger; OWrite (bs "b")] ++ [OStop])))
  = [ (bs "app_r00000.gz", 0%N, bs "a"); (bs "app_rCURRENT.gz", 0%N, bs "b") ]
  /\ name_documented c [] (bs "app_r00000.gz") = false /\ name_documented c [] (bs "app_rCURRENT.gz") = false
  /\ ~ not_gz c.
Proof. vm_compute. repeat split; try reflexivity. intros H; discriminate H. Qed.

(* names that are not documented are rejected: a number with four digits, a foreign infix, a restart counter with three digits *)
Example undocumented_rejected :
  name_documented (NumCleanup.ex_cfg KNever log_sfx) [] (bs "a_r0001.log") = false
  /\ name_documented (NumCleanup.ex_cfg KNever log_sfx) [] (bs "a_x.log") = false
  /\ name_documented ext_c [] (bs "app_r1970-01-01_00-00-00.restart-002.log") = false
  /\ name_documented ext_c [] (bs "app_r1970-13-01_00-00-00.log") = false.
Proof. vm_compute. repeat split; reflexivity. Qed.

Print Assumptions numbers_names_documented_always.
Print Assumptions numbers_cleanup_names_documented_always.
Print Assumptions numbersdirect_names_documented_always.
Print Assumptions numbersdirect_snapshots_documented.
Print Assumptions timestamps_snapshots_documented.
