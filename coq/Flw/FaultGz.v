(* C19 with rotation and a compressing cleanup: the model does what the specification FaultGzSpec.simg says - for EVERY
   fault oracle and EVERY list of records (Numbers naming, size criterion, direct mode, cleanup KeepLogFiles /
   KeepCompressedFiles / KeepLogAndCompressedFiles in the caller's thread, synchronous, no symlink, no start-time part
   in the name; with and without append; empty records included). *)
Require Import FL.Base.Bytes FL.Base.BytesFacts FL.Base.PathName FL.Fs.Fs FL.Fs.FsFacts FL.Time.Civil FL.Time.TsFormat
  FL.Names.FileSpec FL.Names.NamesFacts FL.Names.SortFacts FL.Names.FamilyFacts FL.Flw.Model FL.Flw.ModelFacts FL.Flw.NumFs
  FL.Flw.NumInv FL.Flw.Run FL.Flw.RunFacts FL.Flw.NumRun FL.Flw.NumListing FL.Oracles.O_Flw FL.Flw.NumTheorems FL.Flw.NumRestart
  FL.Flw.KillFacts FL.Flw.NumKill FL.Flw.NumKillRestart FL.Flw.FaultFacts FL.Flw.FaultRotSpec FL.Flw.FaultRotation
  FL.Flw.CleanupFacts FL.Flw.NumCleanupNames FL.Flw.NumCleanupStep FL.Flw.NumCleanupRun FL.Flw.NumCleanupKillDir
  FL.Flw.NumCleanupKillStep FL.Flw.NumCleanupKillListing FL.Flw.FaultCleanupSpec FL.Flw.FaultCleanup FL.Flw.FaultGzSpec.
From Coq Require Import ZifyN ZifyNat ZifyBool Permutation Sorted.
Open Scope nat_scope.

(* ------------------------------------------------------------------ ascending lists: deletion, insertion *)
Lemma asc_filter (P : nat * bytes -> bool) (l : cdir) : asc l -> asc (filter P l).
Proof.
  unfold asc. induction l as [|x l IH]; cbn [filter List.map]; intros H; [constructor|].
  inversion H as [|? ? H1 H2]; subst. destruct (P x); cbn [List.map]; [|apply IH; exact H1].
  constructor; [apply IH; exact H1|]. rewrite Forall_forall in *. intros y Hy. apply H2.
  apply in_map_iff in Hy. destruct Hy as [p [<- Hp]]. apply filter_In in Hp. apply in_map. apply Hp.
Qed.
Lemma asc_deli i l : asc l -> asc (deli i l).
Proof. apply asc_filter. Qed.
Lemma asc_insi (q : nat * bytes) l : asc l -> memi (fst q) l = false -> asc (insi q l).
Proof.
  unfold asc. induction l as [|x l IH]; cbn [insi List.map]; intros H M; [repeat constructor|].
  inversion H as [|? ? H1 H2]; subst. rewrite Forall_forall in H2.
  assert (Hne : fst x <> fst q).
  { intros E. apply memi_false with (d := snd x) in M. apply M. left. destruct x; cbn [fst snd] in *. subst. reflexivity. }
  assert (M' : memi (fst q) l = false).
  { apply memi_false. intros d Hd. apply memi_false with (d := d) in M. apply M. right. exact Hd. }
  destruct (Nat.ltb_spec (fst q) (fst x)) as [Hlt|Hge]; cbn [List.map].
  - constructor; [exact H|]. apply Forall_forall. intros y [<-|Hy]; [exact Hlt | specialize (H2 y Hy); lia].
  - constructor; [apply IH; assumption|]. apply Forall_forall. intros y Hy. apply in_map_iff in Hy. destruct Hy as [p [<- Hp]].
    apply insi_in in Hp. destruct Hp as [->|Hp]; [lia | apply H2; apply in_map; exact Hp].
Qed.

Lemma asc_app_notin A (i : nat) (d e : bytes) : asc (A ++ [(i, d)]) -> ~ In (i, e) A.
Proof. intros S H. apply (asc_mid_notin A i d [] e); rewrite ?app_nil_r; assumption. Qed.

(* ------------------------------------------------------------------ the directory *)
Section HDir.
Variable c : config.
Hypothesis Hsfx : sfx_ok (c_spec c).

(* exactly: the plain closed files r<i>, the complete archives r<i>.gz with what gunzip yields, rCURRENT iff ocur *)
Record hdir (f : fs) (pl ar : cdir) (ocur : option nat) : Prop := {
  hd_wf : fs_wf f;
  hd_nd : nodup_names f;
  hd_ascp : asc pl;
  hd_asca : asc ar;
  hd_plain : forall i d, In (i, d) pl -> exists j, lookup f (rname c i) = Some j /\ plain (inode f j) /\ content f j = d;
  hd_arch : forall i g, In (i, g) ar ->
      exists j, lookup f (gname c i) = Some j /\ fdata (inode f j) = g /\ fgz (inode f j) = 1%N /\ fdir (inode f j) = false;
  hd_cur : match ocur with
           | Some j => lookup f (cname c) = Some j /\ plain (inode f j)
           | None => lookup f (cname c) = None
           end;
  hd_only : forall nm j, lookup f nm = Some j ->
      nm = cname c \/ (exists i d, In (i, d) pl /\ nm = rname c i) \/ (exists i g, In (i, g) ar /\ nm = gname c i) }.

Lemma cname_ne_rname i : cname c <> rname c i.
Proof. intros X. symmetry in X. exact (rname_not_cname _ _ X). Qed.
Lemma cname_ne_gname i : cname c <> gname c i.
Proof. intros X. symmetry in X. exact (gname_not_cname _ _ X). Qed.
Lemma rname_ne_gname i j : rname c i <> gname c j.
Proof. intros X. symmetry in X. exact (gname_ne_rname _ _ _ X). Qed.

Lemma hdir_fresh_plain f pl ar o idx : hdir f pl ar o -> (forall i e, In (i, e) pl -> i < idx) -> lookup f (rname c idx) = None.
Proof.
  intros G H. destruct (lookup f (rname c idx)) as [j|] eqn:E; [exfalso | reflexivity].
  destruct (hd_only _ _ _ _ G _ _ E) as [X|[(i & d & Hi & X)|(i & g & Hi & X)]].
  - exact (rname_not_cname _ _ X).
  - apply rname_inj in X. subst i. specialize (H _ _ Hi). lia.
  - exact (rname_ne_gname _ _ X).
Qed.
Lemma hdir_fresh_arch f pl ar o i : hdir f pl ar o -> memi i ar = false -> lookup f (gname c i) = None.
Proof.
  intros G H. destruct (lookup f (gname c i)) as [j|] eqn:E; [exfalso | reflexivity].
  destruct (hd_only _ _ _ _ G _ _ E) as [X|[(i' & d & Hi & X)|(i' & g & Hi & X)]].
  - exact (gname_not_cname _ _ X).
  - exact (gname_ne_rname _ _ _ X).
  - apply gname_inj in X. subst i'. apply memi_false with (d := g) in H. exact (H Hi).
Qed.

(* the files other than the one with inode j (named nmj) after bytes were appended to j *)
Lemma hdir_append_frame f (pl : cdir) j b nmj : fs_wf f -> lookup f nmj = Some j ->
  (forall i d, In (i, d) pl -> rname c i <> nmj ->
     (exists k, lookup f (rname c i) = Some k /\ plain (inode f k) /\ content f k = d) ->
     exists k, lookup (append_ino f j b) (rname c i) = Some k /\ plain (inode (append_ino f j b) k) /\ content (append_ino f j b) k = d)
  /\ (forall i g, gname c i <> nmj ->
     (exists k, lookup f (gname c i) = Some k /\ fdata (inode f k) = g /\ fgz (inode f k) = 1%N /\ fdir (inode f k) = false) ->
     exists k, lookup (append_ino f j b) (gname c i) = Some k /\ fdata (inode (append_ino f j b) k) = g
               /\ fgz (inode (append_ino f j b) k) = 1%N /\ fdir (inode (append_ino f j b) k) = false).
Proof.
  intros W Lj. split.
  - intros i d _ Hne (k & Lk & Pk & Ck). exists k. rewrite lookup_append. split; [exact Lk|].
    unfold content. rewrite (append_other f j b nmj (rname c i) k W Lj Lk Hne). split; assumption.
  - intros i g Hne (k & Lk & Dk & Gk & Fk). exists k. rewrite lookup_append. split; [exact Lk|].
    rewrite (append_other f j b nmj (gname c i) k W Lj Lk Hne). repeat split; assumption.
Qed.

(* the writer appends to rCURRENT *)
Lemma hdir_append_cur f pl ar j b : hdir f pl ar (Some j) ->
  hdir (append_ino f j b) pl ar (Some j) /\ content (append_ino f j b) j = content f j ++ b.
Proof.
  intros G. pose proof (hd_wf _ _ _ _ G) as W. destruct (hd_cur _ _ _ _ G) as [Lc Pc].
  pose proof (wf_bound _ W _ _ Lc) as Hj. destruct (append_self f j b Hj) as [Ij Cj]. split; [|exact Cj].
  destruct (hdir_append_frame f pl j b (cname c) W Lc) as [FP FA]. constructor.
  - apply wf_append. exact W.
  - apply nd_append. exact (hd_nd _ _ _ _ G).
  - exact (hd_ascp _ _ _ _ G).
  - exact (hd_asca _ _ _ _ G).
  - intros i d Hi. apply (FP i d Hi (rname_not_cname c i)). exact (hd_plain _ _ _ _ G i d Hi).
  - intros i g Hi. apply (FA i g (gname_not_cname c i)). exact (hd_arch _ _ _ _ G i g Hi).
  - rewrite lookup_append. split; [exact Lc|]. rewrite Ij. apply plain_with_data. exact Pc.
  - intros nm k. rewrite lookup_append. apply (hd_only _ _ _ _ G).
Qed.

(* the writer appends to the closed file r<idx> (there is no rCURRENT) *)
Lemma hdir_append_old f pl ar idx d j b : hdir f (pl ++ [(idx, d)]) ar None -> lookup f (rname c idx) = Some j ->
  hdir (append_ino f j b) (pl ++ [(idx, d ++ b)]) ar None.
Proof.
  intros G Lj. pose proof (hd_wf _ _ _ _ G) as W. pose proof (wf_bound _ W _ _ Lj) as Hj.
  destruct (append_self f j b Hj) as [Ij Cj].
  assert (Hd : content f j = d /\ plain (inode f j)).
  { destruct (hd_plain _ _ _ _ G idx d) as (k & Lk & Pk & Ck); [apply in_or_app; right; left; reflexivity|].
    assert (k = j) by congruence. subst k. split; assumption. }
  destruct Hd as [Hd Pj]. destruct (hdir_append_frame f (pl ++ [(idx, d)]) j b (rname c idx) W Lj) as [FP FA]. constructor.
  - apply wf_append. exact W.
  - apply nd_append. exact (hd_nd _ _ _ _ G).
  - pose proof (hd_ascp _ _ _ _ G) as A. unfold asc in *. rewrite map_app in *. exact A.
  - exact (hd_asca _ _ _ _ G).
  - intros i e Hi. apply in_app_or in Hi. destruct Hi as [Hi|[E|[]]].
    + assert (Hi' : In (i, e) (pl ++ [(idx, d)])) by (apply in_or_app; left; exact Hi). apply (FP i e Hi'); [|exact (hd_plain _ _ _ _ G i e Hi')].
      intros X. apply rname_inj in X. subst i. exact (asc_app_notin pl idx d e (hd_ascp _ _ _ _ G) Hi).
    + injection E as <- <-. exists j. rewrite lookup_append. split; [exact Lj|]. rewrite Ij, Cj, Hd.
      split; [apply plain_with_data; exact Pj | reflexivity].
  - intros i g Hi. apply (FA i g (gname_ne_rname c i idx)). exact (hd_arch _ _ _ _ G i g Hi).
  - rewrite lookup_append. exact (hd_cur _ _ _ _ G).
  - intros nm k. rewrite lookup_append. intros L. destruct (hd_only _ _ _ _ G _ _ L) as [X|[(i & e & Hi & X)|X]]; [left; exact X | | right; right; exact X].
    right. left. apply in_app_or in Hi. destruct Hi as [Hi|[E|[]]].
    + exists i, e. split; [apply in_or_app; left; exact Hi | exact X].
    + injection E as <- <-. exists idx, (d ++ b). split; [apply in_or_app; right; left; reflexivity | exact X].
Qed.

(* rCURRENT is renamed to r<idx> *)
Lemma hdir_rename f pl ar j idx : hdir f pl ar (Some j) -> (forall i e, In (i, e) pl -> i < idx) ->
  exists f1, rename f (cname c) (rname c idx) = Some f1 /\ inodes f1 = inodes f
    /\ hdir f1 (pl ++ [(idx, content f j)]) ar None /\ lookup f1 (rname c idx) = Some j.
Proof.
  intros G H. pose proof (hd_wf _ _ _ _ G) as W. destruct (hd_cur _ _ _ _ G) as [Lc Pc].
  destruct (rename_spec f (cname c) (rname c idx) j (cname_ne_rname idx) Lc) as (f1 & Er & Ei & Lb & La & Lo).
  exists f1. split; [exact Er|]. split; [exact Ei|]. split; [|exact Lb].
  assert (In1 : forall k, inode f1 k = inode f k) by (intros k; unfold inode; rewrite Ei; reflexivity).
  constructor.
  - exact (wf_rename _ _ _ _ W Er).
  - exact (nd_rename _ _ _ _ Er (hd_nd _ _ _ _ G)).
  - apply asc_snoc; [exact (hd_ascp _ _ _ _ G) | exact H].
  - exact (hd_asca _ _ _ _ G).
  - intros i e Hi. apply in_app_or in Hi. destruct Hi as [Hi|[E|[]]].
    + destruct (hd_plain _ _ _ _ G i e Hi) as (k & Lk & Pk & Ck). exists k.
      rewrite Lo; [|apply rname_not_cname | intros X; apply rname_inj in X; specialize (H _ _ Hi); lia].
      unfold content. rewrite In1. split; [exact Lk|]. split; assumption.
    + injection E as <- <-. exists j. unfold content. rewrite In1. split; [exact Lb|]. split; [exact Pc | reflexivity].
  - intros i g Hi. destruct (hd_arch _ _ _ _ G i g Hi) as (k & Lk & Dk & Gk & Fk). exists k.
    rewrite Lo by (apply gname_not_cname || apply gname_ne_rname). rewrite In1. repeat split; assumption.
  - exact La.
  - intros nm k L. destruct (beq_spec nm (rname c idx)) as [->|N1].
    + right. left. exists idx, (content f j). split; [apply in_or_app; right; left; reflexivity | reflexivity].
    + destruct (beq_spec nm (cname c)) as [->|N2]; [rewrite La in L; discriminate|].
      rewrite Lo in L by assumption. destruct (hd_only _ _ _ _ G _ _ L) as [X|[(i & e & Hi & X)|X]]; [contradiction | | right; right; exact X].
      right. left. exists i, e. split; [apply in_or_app; left; exact Hi | exact X].
Qed.

(* a new rCURRENT is created *)
Lemma hdir_create f pl ar now : hdir f pl ar None ->
  hdir (fst (create_file f (cname c) 0%N now)) pl ar (Some (snd (create_file f (cname c) 0%N now)))
  /\ content (fst (create_file f (cname c) 0%N now)) (snd (create_file f (cname c) 0%N now)) = [].
Proof.
  intros G. pose proof (hd_wf _ _ _ _ G) as W. pose proof (hd_cur _ _ _ _ G) as Lc. cbn beta iota in Lc.
  pose proof (create_file_spec f (cname c) 0%N now) as CS. pose proof (wf_create f (cname c) 0%N now W Lc) as W2.
  pose proof (nd_create f (cname c) 0%N now Lc (hd_nd _ _ _ _ G)) as N2.
  destruct (create_file f (cname c) 0%N now) as [f2 new]. cbn [fst snd] in *. destruct CS as [Enew [Hino [Lnew Lo]]].
  assert (Inew : inode f2 new = {| fdata := []; fgz := 0%N; fborn := now; fdir := false |}).
  { unfold inode. rewrite Hino, Enew, inode_app_new. reflexivity. }
  assert (Iold : forall k, k < length (inodes f) -> inode f2 k = inode f k).
  { intros k Hk. unfold inode. rewrite Hino, inode_app_old by assumption. reflexivity. }
  split; [|unfold content; rewrite Inew; reflexivity]. constructor.
  - exact W2.
  - exact N2.
  - exact (hd_ascp _ _ _ _ G).
  - exact (hd_asca _ _ _ _ G).
  - intros i d Hi. destruct (hd_plain _ _ _ _ G i d Hi) as (k & Lk & Pk & Ck). exists k. rewrite Lo by apply rname_not_cname.
    unfold content. rewrite Iold by (apply (wf_bound _ W _ _ Lk)). split; [exact Lk|]. split; assumption.
  - intros i g Hi. destruct (hd_arch _ _ _ _ G i g Hi) as (k & Lk & Dk & Gk & Fk). exists k. rewrite Lo by apply gname_not_cname.
    rewrite Iold by (apply (wf_bound _ W _ _ Lk)). repeat split; assumption.
  - split; [exact Lnew|]. rewrite Inew. split; reflexivity.
  - intros nm k L. destruct (beq_spec nm (cname c)) as [->|N1]; [left; reflexivity|]. rewrite Lo in L by exact N1.
    exact (hd_only _ _ _ _ G _ _ L).
Qed.

(* a name is removed: the files under other names stay *)
Lemma hdir_unlink_plain f pl ar o i : hdir f pl ar o -> hdir (unlink f (rname c i)) (deli i pl) ar o.
Proof.
  intros G. pose proof (hd_wf _ _ _ _ G) as W. destruct (unlink_spec f (rname c i)) as (UI & UN & UO).
  assert (In1 : forall k, inode (unlink f (rname c i)) k = inode f k) by (intros k; unfold inode; rewrite UI; reflexivity).
  constructor.
  - apply wf_unlink. exact W.
  - apply nd_unlink. exact (hd_nd _ _ _ _ G).
  - apply asc_deli. exact (hd_ascp _ _ _ _ G).
  - exact (hd_asca _ _ _ _ G).
  - intros i' e Hi. apply deli_in in Hi. destruct Hi as [Hi Hne]. cbn [fst] in Hne.
    destruct (hd_plain _ _ _ _ G i' e Hi) as (k & Lk & Pk & Ck).
    exists k. rewrite UO by (intros X; apply rname_inj in X; contradiction). unfold content. rewrite In1. split; [exact Lk|]. split; assumption.
  - intros i' g Hi. destruct (hd_arch _ _ _ _ G i' g Hi) as (k & Lk & Dk & Gk & Fk). exists k. rewrite UO by apply gname_ne_rname.
    rewrite In1. repeat split; assumption.
  - pose proof (hd_cur _ _ _ _ G) as Hc. rewrite UO by apply cname_ne_rname. destruct o as [j|]; [rewrite In1|]; exact Hc.
  - intros nm k L. destruct (beq_spec nm (rname c i)) as [->|N1]; [rewrite UN in L; discriminate|]. rewrite UO in L by exact N1.
    destruct (hd_only _ _ _ _ G _ _ L) as [X|[(i' & e & Hi & X)|X]]; [left; exact X | | right; right; exact X].
    right. left. exists i', e. split; [|exact X]. apply deli_in. split; [exact Hi|]. cbn [fst]. intros ->. contradiction.
Qed.

Lemma hdir_unlink_arch f pl ar o i : hdir f pl ar o -> hdir (unlink f (gname c i)) pl (deli i ar) o.
Proof.
  intros G. pose proof (hd_wf _ _ _ _ G) as W. destruct (unlink_spec f (gname c i)) as (UI & UN & UO).
  assert (In1 : forall k, inode (unlink f (gname c i)) k = inode f k) by (intros k; unfold inode; rewrite UI; reflexivity).
  constructor.
  - apply wf_unlink. exact W.
  - apply nd_unlink. exact (hd_nd _ _ _ _ G).
  - exact (hd_ascp _ _ _ _ G).
  - apply asc_deli. exact (hd_asca _ _ _ _ G).
  - intros i' e Hi. destruct (hd_plain _ _ _ _ G i' e Hi) as (k & Lk & Pk & Ck). exists k. rewrite UO by apply rname_ne_gname.
    unfold content. rewrite In1. split; [exact Lk|]. split; assumption.
  - intros i' g Hi. apply deli_in in Hi. destruct Hi as [Hi Hne]. cbn [fst] in Hne.
    destruct (hd_arch _ _ _ _ G i' g Hi) as (k & Lk & Dk & Gk & Fk). exists k.
    rewrite UO by (intros X; apply gname_inj in X; contradiction). rewrite In1. repeat split; assumption.
  - pose proof (hd_cur _ _ _ _ G) as Hc. rewrite UO by apply cname_ne_gname. destruct o as [j|]; [rewrite In1|]; exact Hc.
  - intros nm k L. destruct (beq_spec nm (gname c i)) as [->|N1]; [rewrite UN in L; discriminate|]. rewrite UO in L by exact N1.
    destruct (hd_only _ _ _ _ G _ _ L) as [X|[X|(i' & g & Hi & X)]]; [left; exact X | right; left; exact X|].
    right. right. exists i', g. split; [|exact X]. apply deli_in. split; [exact Hi|]. cbn [fst]. intros ->. contradiction.
Qed.

(* a complete archive r<i>.gz with the content g is created *)
Lemma hdir_add_arch f pl ar o i g now : hdir f pl ar o -> memi i ar = false ->
  let f1 := fst (open_trunc f (gname c i) 2%N now) in
  let ino := snd (open_trunc f (gname c i) 2%N now) in
  hdir (set_gz f1 ino 1%N g) pl (insi (i, g) ar) o
  /\ (forall k, k < length (inodes f) -> inode (set_gz f1 ino 1%N g) k = inode f k)
  /\ (forall nm, nm <> gname c i -> lookup (set_gz f1 ino 1%N g) nm = lookup f nm).
Proof.
  intros G M. cbv zeta. pose proof (hd_wf _ _ _ _ G) as W. pose proof (hdir_fresh_arch f pl ar o i G M) as Lg.
  rewrite (open_trunc_fresh f (gname c i) 2%N now Lg).
  pose proof (create_file_spec f (gname c i) 2%N now) as CS. pose proof (wf_create f (gname c i) 2%N now W Lg) as W2.
  pose proof (nd_create f (gname c i) 2%N now Lg (hd_nd _ _ _ _ G)) as N2.
  destruct (create_file f (gname c i) 2%N now) as [f2 new]. cbn [fst snd] in *. destruct CS as [Enew [Hino [Lnew Lo]]].
  assert (Hnew : new < length (inodes f2)) by (rewrite Hino, app_length, Enew; cbn [length]; lia).
  destruct (set_gz_spec f2 new 1%N g Hnew) as (SL & SLen & SI & SO).
  assert (Iold : forall k, k < length (inodes f) -> inode (set_gz f2 new 1%N g) k = inode f k).
  { intros k Hk. rewrite SO by lia. unfold inode. rewrite Hino, inode_app_old by assumption. reflexivity. }
  assert (Lold : forall nm, nm <> gname c i -> lookup (set_gz f2 new 1%N g) nm = lookup f nm).
  { intros nm Hn. rewrite SL. apply Lo. exact Hn. }
  split; [|split; assumption]. constructor.
  - apply wf_set_gz. exact W2.
  - apply nd_set_gz. exact N2.
  - exact (hd_ascp _ _ _ _ G).
  - apply asc_insi; [exact (hd_asca _ _ _ _ G) | exact M].
  - intros i' e Hi. destruct (hd_plain _ _ _ _ G i' e Hi) as (k & Lk & Pk & Ck). exists k. rewrite Lold by apply rname_ne_gname.
    unfold content. rewrite Iold by (apply (wf_bound _ W _ _ Lk)). split; [exact Lk|]. split; assumption.
  - intros i' g' Hi. apply insi_in in Hi. destruct Hi as [E|Hi].
    + injection E as -> ->. exists new. rewrite SL, SI. cbn [fdata fgz fdir]. repeat split. exact Lnew.
    + destruct (hd_arch _ _ _ _ G i' g' Hi) as (k & Lk & Dk & Gk & Fk). exists k.
      rewrite Lold by (intros X; apply gname_inj in X; subst i'; apply memi_false with (d := g') in M; exact (M Hi)).
      rewrite Iold by (apply (wf_bound _ W _ _ Lk)). repeat split; assumption.
  - pose proof (hd_cur _ _ _ _ G) as Hc. rewrite Lold by apply cname_ne_gname. destruct o as [j|]; [|exact Hc].
    destruct Hc as [Lc Pc]. rewrite Iold by (apply (wf_bound _ W _ _ Lc)). split; assumption.
  - intros nm k L. destruct (beq_spec nm (gname c i)) as [->|N1].
    + right. right. exists i, g. split; [apply insi_in; left; reflexivity | reflexivity].
    + rewrite Lold in L by exact N1. destruct (hd_only _ _ _ _ G _ _ L) as [X|[X|(i' & g' & Hi & X)]]; [left; exact X | right; left; exact X|].
      right. right. exists i', g'. split; [apply insi_in; right; exact Hi | exact X].
Qed.
End HDir.

(* ------------------------------------------------------------------ the listing of such a directory *)
Lemma next_idx_cases (cl : cdir) : (cl = [] /\ next_idx cl = 0) \/ exists j e, In (j, e) cl /\ next_idx cl = S j.
Proof.
  destruct cl as [|[j e] cl] using rev_ind; [left; split; reflexivity|]. right. exists j, e. rewrite next_idx_snoc.
  split; [apply in_or_app; right; left; reflexivity | reflexivity].
Qed.

Section HList.
Variable c : config.
Hypothesis Hsfx : sfx_ok (c_spec c).
Variables (f : fs) (off : Z) (pl ar : cdir) (ocur : option nat).
Hypothesis G : hdir c f pl ar ocur.

Let sfx := fsfx (c_spec c).
Let SL := sort_by_key sfx (filter (fun n => is_reg_file f n && is_prefix (fixed0 c) n) (dir_names f)).

Lemma HS_in n : In n SL <-> (exists j, lookup f n = Some j) /\ is_reg_file f n = true /\ is_prefix (fixed0 c) n = true.
Proof. unfold SL. rewrite In_sort_by_key, filter_In, andb_true_iff, dir_names_lookup. tauto. Qed.
Lemma HS_nodup : NoDup SL.
Proof. eapply Permutation_NoDup; [apply Permutation_sym, sort_by_key_perm|]. apply NoDup_filter. exact (hd_nd _ _ _ _ _ G). Qed.

Lemma h_plain_part : filter (qf off sfx (fixed0 c) IFNum sfx) SL = List.map (rname c) (List.map fst pl).
Proof.
  apply (sorted_unique (key_rel sfx)).
  - intros x y. apply key_le_antisym.
  - apply StronglySorted_filter, sort_by_key_strongly_sorted.
  - apply (ssorted_map lt); [|exact (hd_ascp _ _ _ _ _ G)]. intros i j Hij. unfold key_rel, sfx.
    apply (key_le_number_any c i j false false Hsfx Hij).
  - apply NoDup_filter, HS_nodup.
  - apply FinFun.Injective_map_NoDup; [intros i j E; exact (rname_inj _ _ _ E) | apply asc_nodup; exact (hd_ascp _ _ _ _ _ G)].
  - intros x. rewrite filter_In, HS_in, in_map_iff. split.
    + intros [[[j Lj] _] Q]. destruct (hd_only _ _ _ _ _ G x j Lj) as [->|[(i & d & Hi & ->)|(i & g & Hi & ->)]].
      * unfold sfx in Q. rewrite qf_cname in Q. discriminate.
      * exists i. split; [reflexivity|]. apply in_map_iff. exists (i, d). split; [reflexivity | exact Hi].
      * unfold sfx in Q. rewrite qf_gname_plain in Q by exact Hsfx. discriminate.
    + intros (i & <- & Hi). apply in_map_iff in Hi. destruct Hi as [[i' d] [E Hi]]. cbn [fst] in E. subst i'.
      destruct (hd_plain _ _ _ _ _ G i d Hi) as (j & Lj & [_ Dj] & _).
      split; [split; [eauto | split]|].
      * unfold is_reg_file, file_of. rewrite Lj, Dj. reflexivity.
      * rewrite rname_shape. apply is_prefix_under.
      * apply qf_rname.
Qed.

Lemma h_arch_part : filter (qf off sfx (fixed0 c) IFNum (Some gz_sfx)) SL = List.map (gname c) (List.map fst ar).
Proof.
  apply (sorted_unique (key_rel sfx)).
  - intros x y. apply key_le_antisym.
  - apply StronglySorted_filter, sort_by_key_strongly_sorted.
  - apply (ssorted_map lt); [|exact (hd_asca _ _ _ _ _ G)]. intros i j Hij. unfold key_rel, sfx. rewrite <- !add_gz_gname.
    apply (key_le_number_any c i j true true Hsfx Hij).
  - apply NoDup_filter, HS_nodup.
  - apply FinFun.Injective_map_NoDup; [intros i j E; exact (gname_inj _ _ _ E) | apply asc_nodup; exact (hd_asca _ _ _ _ _ G)].
  - intros x. rewrite filter_In, HS_in, in_map_iff. split.
    + intros [[[j Lj] _] Q]. destruct (hd_only _ _ _ _ _ G x j Lj) as [->|[(i & d & Hi & ->)|(i & g & Hi & ->)]].
      * unfold sfx in Q. rewrite qf_cname in Q. discriminate.
      * unfold sfx in Q. rewrite qf_rname_gz in Q by exact Hsfx. discriminate.
      * exists i. split; [reflexivity|]. apply in_map_iff. exists (i, g). split; [reflexivity | exact Hi].
    + intros (i & <- & Hi). apply in_map_iff in Hi. destruct Hi as [[i' g] [E Hi]]. cbn [fst] in E. subst i'.
      destruct (hd_arch _ _ _ _ _ G i g Hi) as (j & Lj & _ & _ & Dj).
      split; [split; [eauto | split]|].
      * unfold is_reg_file, file_of. rewrite Lj, Dj. reflexivity.
      * rewrite gname_app, rname_shape, <- app_assoc. apply is_prefix_under.
      * apply qf_gname_gz. exact Hsfx.
Qed.

(* the name of a listed entry *)
Definition ename (e : lentry) : bytes := if fst e then gname c (fst (snd e)) else rname c (fst (snd e)).

(* the plain files newest first, then the archives newest first *)
Theorem list_log_gz_hdir : list_log_gz off (c_spec c) (fixed0 c) f IFNum = Some (List.map ename (g_listing pl ar)).
Proof.
  unfold list_log_gz, existing_rot, sel_log_gz. cbn [sel_plain sel_gz sel_rcur sel_custom].
  rewrite !filter_files_total. cbn [app_opt]. rewrite !app_nil_r. unfold related_files.
  fold sfx. fold SL. rewrite !filter_rev', h_plain_part, h_arch_part.
  unfold g_listing. rewrite map_app, !map_map, <- !map_rev. reflexivity.
Qed.

Lemma ename_in_plain i : In (rname c i) (List.map ename (g_listing pl ar)) <-> exists d, In (i, d) pl.
Proof.
  unfold g_listing. rewrite map_app, !map_map, in_app_iff, !in_map_iff. split.
  - intros [[[j d] [E Hin]]|[[j d] [E Hin]]]; unfold ename in E; cbn [fst snd] in E.
    + apply rname_inj in E. subst j. apply in_rev in Hin. eauto.
    + exfalso. exact (gname_ne_rname _ _ _ E).
  - intros [d Hd]. left. exists (i, d). split; [reflexivity | apply -> in_rev; exact Hd].
Qed.

(* the archives that stand next to their original, newest first *)
Theorem redundant_hdir :
  redundant_gz (List.map ename (g_listing pl ar)) = List.map (fun a => gname c (fst a)) (g_redundant pl ar).
Proof.
  unfold redundant_gz.
  assert (Gen : forall FL, filter (fun n => ext_is n gz_sfx && existsb (beq (set_extension n [])) FL) (List.map ename (g_listing pl ar))
                = List.map (fun a => gname c (fst a)) (filter (fun a => existsb (beq (rname c (fst a))) FL) (rev ar))).
  { intros FL. unfold g_listing. rewrite map_app, !map_map, filter_app.
    assert (E1 : filter (fun n => ext_is n gz_sfx && existsb (beq (set_extension n [])) FL) (List.map (fun x => ename (false, x)) (rev pl)) = []).
    { apply filter_all_false. intros x Hx. apply in_map_iff in Hx. destruct Hx as [p [<- _]]. unfold ename. cbn [fst snd].
      rewrite rname_not_gz by exact Hsfx. reflexivity. }
    rewrite E1. cbn [app]. unfold ename. cbn [fst snd]. induction (rev ar) as [|[i g] r IH]; [reflexivity|].
    cbn [List.map filter fst]. rewrite gname_is_gz, gname_strip. cbn [andb].
    destruct (existsb (beq (rname c i)) FL); cbn [List.map fst]; rewrite IH; reflexivity. }
  rewrite Gen. unfold g_redundant. f_equal. apply filter_ext. intros [i g]. cbn [fst].
  apply Bool.eq_iff_eq_true. rewrite memi_true, <- ename_in_plain, existsb_exists. split.
  - intros [y [Hy B]]. apply beq_eq in B. subst y. exact Hy.
  - intros H. exists (rname c i). split; [exact H | apply beq_refl].
Qed.

(* the index that index_for_rcurrent computes from the listing *)
Theorem highest_index_hdir :
  (forall i d, In (i, d) pl -> (N.of_nat i <= u32_max)%N) -> (forall i d, In (i, d) ar -> (N.of_nat i <= u32_max)%N) ->
  match get_highest_index off (c_spec c) (fixed0 c) f with
  | None => None
  | Some (Some i) => Some (i + 1)%N
  | Some None => Some 0%N
  end = Some (N.of_nat (g_next pl ar)).
Proof.
  intros Hbp Hba. unfold get_highest_index. rewrite list_log_gz_hdir.
  set (l := filter_map_opt (index_of_listed (fixed0 c)) (List.map ename (g_listing pl ar))).
  assert (Hl : forall v, In v l <-> exists i d, (In (i, d) pl \/ In (i, d) ar) /\ v = N.of_nat i).
  { intros v. unfold l. rewrite filter_map_opt_in. unfold g_listing. split.
    - intros (x & Hx & Ex). rewrite map_app, !map_map, in_app_iff, !in_map_iff in Hx.
      destruct Hx as [[[i d] [<- Hi]]|[[i d] [<- Hi]]]; unfold ename in Ex; cbn [fst snd] in Ex; apply in_rev in Hi.
      + rewrite index_of_rname in Ex by (exact (Hbp _ _ Hi)). injection Ex as <-. eauto.
      + rewrite index_of_gname in Ex by (exact (Hba _ _ Hi)). injection Ex as <-. eauto.
    - intros (i & d & [Hi|Hi] & ->).
      + exists (rname c i). split; [|apply index_of_rname; exact (Hbp _ _ Hi)].
        rewrite map_app, !map_map, in_app_iff. left. apply in_map_iff. exists (i, d). split; [reflexivity | apply -> in_rev; exact Hi].
      + exists (gname c i). split; [|apply index_of_gname; exact (Hba _ _ Hi)].
        rewrite map_app, !map_map, in_app_iff. right. apply in_map_iff. exists (i, d). split; [reflexivity | apply -> in_rev; exact Hi]. }
  pose proof (asc_below_next pl (hd_ascp _ _ _ _ _ G)) as Bp. pose proof (asc_below_next ar (hd_asca _ _ _ _ _ G)) as Ba.
  unfold g_next. pose proof (max_opt_spec l) as M. destruct (max_opt l) as [mx|].
  - destruct M as [Im Hm]. apply Hl in Im. destruct Im as (i & d & Hi & ->). f_equal.
    assert (Hup : i < Nat.max (next_idx pl) (next_idx ar)) by (destruct Hi as [Hi|Hi]; [specialize (Bp _ _ Hi) | specialize (Ba _ _ Hi)]; lia).
    assert (Hlo : Nat.max (next_idx pl) (next_idx ar) <= S i).
    { destruct (next_idx_cases pl) as [[_ Ep]|(j & e & Hj & Ep)], (next_idx_cases ar) as [[_ Ea]|(j' & e' & Hj' & Ea)]; rewrite Ep, Ea.
      - lia.
      - assert (N.of_nat j' <= N.of_nat i)%N by (apply Hm, Hl; eauto). lia.
      - assert (N.of_nat j <= N.of_nat i)%N by (apply Hm, Hl; eauto). lia.
      - assert (N.of_nat j <= N.of_nat i)%N by (apply Hm, Hl; eauto). assert (N.of_nat j' <= N.of_nat i)%N by (apply Hm, Hl; eauto). lia. }
    lia.
  - destruct (next_idx_cases pl) as [[_ Ep]|(j & e & Hj & Ep)].
    + destruct (next_idx_cases ar) as [[_ Ea]|(j' & e' & Hj' & Ea)]; [rewrite Ep, Ea; reflexivity|]. exfalso.
      assert (Hin : In (N.of_nat j') l) by (apply Hl; eauto). rewrite M in Hin. destruct Hin.
    + exfalso. assert (Hin : In (N.of_nat j) l) by (apply Hl; eauto). rewrite M in Hin. destruct Hin.
Qed.
End HList.

(* ------------------------------------------------------------------ compress_file with a fault oracle *)
Lemma set_fs_set_fs q a b : set_fs (set_fs q a) b = set_fs q b.
Proof. reflexivity. Qed.

Lemma compress_file_fw q fl n src : quiet q -> fs_wf (wfs q) ->
  lookup (wfs q) (gz_name n) = None -> lookup (wfs q) n = Some src ->
  let f1 := fst (open_trunc (wfs q) (gz_name n) 2%N (wnow q)) in
  let ino := snd (open_trunc (wfs q) (gz_name n) 2%N (wnow q)) in
  let data := content (wfs q) src in
  compress_file (fw q fl) n =
  (let '(t1, fl1) := pop fl in if t1 then (false, fw q fl1) else
   let '(t2, fl2) := pop fl1 in if t2 then (false, fw (set_fs q (set_gz f1 ino 1%N [])) fl2) else
   let '(t3, fl3) := pop fl2 in if t3 then (false, fw (set_fs q (set_gz f1 ino 1%N [])) fl3) else
   let '(t4, fl4) := pop fl3 in if t4 then (false, fw (set_fs q (set_gz f1 ino 1%N data)) fl4) else
   let '(t5, fl5) := pop fl4 in if t5 then (false, fw (set_fs q (set_gz f1 ino 1%N data)) fl5) else
   (true, fw (set_fs q (unlink (set_gz f1 ino 1%N data) n)) fl5)).
Proof.
  intros Q W Lg Ln. cbv zeta. pose proof (open_trunc_spec (wfs q) (gz_name n) 2%N (wnow q) W) as OT.
  unfold compress_file. rewrite tick_fw. destruct (pop fl) as [t1 fl1]. cbn [fst snd]. destruct t1; [reflexivity|].
  change (wfs (fw q fl1)) with (wfs q). change (wnow (fw q fl1)) with (wnow q). unfold file_of at 1. rewrite Lg.
  rewrite effect_fw by exact Q.
  destruct (open_trunc (wfs q) (gz_name n) 2%N (wnow q)) as [f1 ino]. cbn [fst snd] in *.
  destruct OT as (W1 & Lg1 & Hj1 & C1 & Hlen & Lo1 & Io1 & Jnew & _). specialize (Jnew Lg).
  assert (Q1 : quiet (set_fs q f1)) by (apply quiet_set_fs; exact Q).
  rewrite tick_fw. destruct (pop fl1) as [t2 fl2]. cbn [fst snd]. destruct t2.
  { rewrite effect_fw by exact Q1. reflexivity. }
  change (wfs (fw (set_fs q f1) fl2)) with f1.
  assert (Hne : n <> gz_name n) by (intros X; symmetry in X; exact (gz_name_neq _ X)).
  rewrite Lo1 by exact Hne. rewrite Ln.
  assert (Cs : content f1 src = content (wfs q) src).
  { unfold content. rewrite Io1; [reflexivity | apply (wf_bound _ W _ _ Ln) | pose proof (wf_bound _ W _ _ Ln); lia]. }
  rewrite Cs. rewrite tick_fw. destruct (pop fl2) as [t3 fl3]. cbn [fst snd]. destruct t3.
  { rewrite effect_fw by exact Q1. reflexivity. }
  rewrite effect_fw by exact Q1. cbn [set_fs wfs]. rewrite set_fs_set_fs.
  rewrite tick_fw. destruct (pop fl3) as [t4 fl4]. cbn [fst snd]. destruct t4.
  { rewrite effect_fw by exact Q1. reflexivity. }
  rewrite effect_fw by exact Q1. cbn [set_fs wfs]. rewrite set_fs_set_fs.
  rewrite p_remove_fw by (apply quiet_set_fs; exact Q). destruct (pop fl4) as [t5 fl5]. cbn [fst snd]. destruct t5; [reflexivity|].
  cbn [set_fs wfs]. assert (L5 : lookup (set_gz f1 ino 1%N (content (wfs q) src)) n = Some src) by (unfold lookup; cbn [set_gz names]; fold (lookup f1 n); rewrite Lo1 by exact Hne; exact Ln).
  rewrite L5, set_fs_set_fs. reflexivity.
Qed.

Section G.
Variables (c : config) (m : N) (k : cleanup) (ll cl : nat).
Hypothesis Hcfg : numkcfg c (CSize m) k.
Hypothesis Hk : klim k = Some (ll, cl).
Hypothesis Hcap : c_cap c = None.
Hypothesis Hsfx : sfx_ok (c_spec c).

Let Hts : fts (c_spec c) = false := proj1 (proj2 Hcfg).
Let total := ll + cl.

(* old inodes keep their files *)
Definition keeps (f f' : fs) : Prop := forall j, j < length (inodes f) -> j < length (inodes f') /\ inode f' j = inode f j.
Lemma keeps_refl f : keeps f f.
Proof. intros j H. split; [exact H | reflexivity]. Qed.
Lemma keeps_trans f1 f2 f3 : keeps f1 f2 -> keeps f2 f3 -> keeps f1 f3.
Proof. intros A B j H. destruct (A j H) as [H2 E2]. destruct (B j H2) as [H3 E3]. split; [exact H3 | congruence]. Qed.
Lemma keeps_unlink f a : keeps f (unlink f a).
Proof. intros j H. split; [exact H | reflexivity]. Qed.

(* ---- one compression, in terms of the directory ---- *)
Lemma compress_hdir q fl (pl ar : cdir) o i (d : bytes) : quiet q -> hdir c (wfs q) pl ar o -> In (i, d) pl -> memi i ar = false ->
  exists q', compress_file (fw q fl) (rname c i)
             = (snd (fst (g_compress i d pl ar fl)), fw q' (snd (g_compress i d pl ar fl)))
    /\ same_env q q' /\ keeps (wfs q) (wfs q')
    /\ hdir c (wfs q') (fst (fst (fst (g_compress i d pl ar fl)))) (snd (fst (fst (g_compress i d pl ar fl)))) o.
Proof.
  intros Q G Hi M. pose proof (hd_wf _ _ _ _ _ G) as W.
  destruct (hd_plain _ _ _ _ _ G i d Hi) as (src & Ls & Ps & Cs).
  pose proof (hdir_fresh_arch c (wfs q) pl ar o i G M) as Lg.
  pose proof (compress_file_fw q fl (rname c i) src Q W Lg Ls) as E. cbv zeta in E. fold (gname c i) in E. rewrite Cs in E. rewrite E. clear E.
  destruct (hdir_add_arch c (wfs q) pl ar o i [] (wnow q) G M) as (G0 & K0 & L0).
  destruct (hdir_add_arch c (wfs q) pl ar o i d (wnow q) G M) as (Gd & Kd & Ld). cbv zeta in *.
  set (f1 := fst (open_trunc (wfs q) (gname c i) 2%N (wnow q))) in *.
  set (ino := snd (open_trunc (wfs q) (gname c i) 2%N (wnow q))) in *.
  assert (Len : forall g, length (inodes (wfs q)) <= length (inodes (set_gz f1 ino 1%N g))).
  { intros g. cbn [set_gz inodes]. rewrite upd_length. unfold f1.
    pose proof (open_trunc_spec (wfs q) (gname c i) 2%N (wnow q) W) as OT. destruct (open_trunc (wfs q) (gname c i) 2%N (wnow q)). cbn [fst]. apply OT. }
  assert (K0' : keeps (wfs q) (set_gz f1 ino 1%N [])) by (intros j Hj; split; [specialize (Len []); lia | apply K0; exact Hj]).
  assert (Kd' : keeps (wfs q) (set_gz f1 ino 1%N d)) by (intros j Hj; split; [specialize (Len d); lia | apply Kd; exact Hj]).
  unfold g_compress.
  destruct (pop fl) as [t1 fl1]. destruct t1.
  { exists q. cbn [fst snd]. split; [reflexivity|]. split; [apply same_env_refl; exact Q|]. split; [apply keeps_refl | exact G]. }
  destruct (pop fl1) as [t2 fl2]. destruct t2.
  { eexists. cbn [fst snd]. split; [reflexivity|]. split; [apply same_env_set_fs; exact Q|]. split; assumption. }
  destruct (pop fl2) as [t3 fl3]. destruct t3.
  { eexists. cbn [fst snd]. split; [reflexivity|]. split; [apply same_env_set_fs; exact Q|]. split; assumption. }
  destruct (pop fl3) as [t4 fl4]. destruct t4.
  { eexists. cbn [fst snd]. split; [reflexivity|]. split; [apply same_env_set_fs; exact Q|]. split; assumption. }
  destruct (pop fl4) as [t5 fl5]. destruct t5.
  { eexists. cbn [fst snd]. split; [reflexivity|]. split; [apply same_env_set_fs; exact Q|]. split; assumption. }
  eexists. cbn [fst snd]. split; [reflexivity|]. split; [apply same_env_set_fs; exact Q|]. cbn [set_fs wfs].
  split; [eapply keeps_trans; [exact Kd' | apply keeps_unlink]|]. apply hdir_unlink_plain. exact Gd.
Qed.

(* ---- the loop of the cleanup ---- *)
Definition ekey (e : lentry) : bool * nat := (fst e, fst (snd e)).
Definition ok_entries (files : list lentry) (pl ar : cdir) : Prop :=
  (forall i d, In (false, (i, d)) files -> In (i, d) pl) /\ (forall i g, In (true, (i, g)) files -> In (i, g) ar)
  /\ NoDup (List.map ekey files) /\ (forall i d, In (false, (i, d)) files -> memi i ar = false).

Lemma ok_entries_tail e r pl ar pl' ar' : ok_entries (e :: r) pl ar ->
  (forall i d, In (i, d) pl -> (false, i) <> ekey e -> In (i, d) pl') ->
  (forall i g, In (i, g) ar -> (true, i) <> ekey e -> In (i, g) ar') ->
  (forall i, (false, i) <> ekey e -> memi i ar = false -> memi i ar' = false) ->
  ok_entries r pl' ar'.
Proof.
  intros (H1 & H2 & H3 & H4) Hp Ha Hm. inversion H3 as [|? ? Hn Hr]; subst.
  assert (Key : forall e', In e' r -> ekey e' <> ekey e) by (intros e' He' X; apply Hn; rewrite <- X; apply in_map; exact He').
  split; [|split; [|split]].
  - intros i d Hi. apply Hp; [apply H1; right; exact Hi|]. intros X. exact (Key _ Hi X).
  - intros i g Hi. apply Ha; [apply H2; right; exact Hi|]. intros X. exact (Key _ Hi X).
  - exact Hr.
  - intros i d Hi. apply Hm; [intros X; exact (Key _ Hi X) | apply (H4 i d); right; exact Hi].
Qed.

Lemma cleanup_loop_gz : forall files q fl idx (pl ar : cdir) o, quiet q -> hdir c (wfs q) pl ar o -> ok_entries files pl ar ->
  exists q', cleanup_loop (fw q fl) (List.map (ename c) files) idx ll total None
             = (snd (fst (g_loop files idx ll total pl ar fl)), fw q' (snd (g_loop files idx ll total pl ar fl)))
    /\ same_env q q' /\ keeps (wfs q) (wfs q')
    /\ hdir c (wfs q') (fst (fst (fst (g_loop files idx ll total pl ar fl)))) (snd (fst (fst (g_loop files idx ll total pl ar fl)))) o.
Proof.
  induction files as [|[g [i d]] r IH]; intros q fl idx pl ar o Q G OK.
  - exists q. cbn [List.map cleanup_loop g_loop fst snd]. split; [reflexivity|]. split; [apply same_env_refl; exact Q|]. split; [apply keeps_refl | exact G].
  - cbn [List.map]. rewrite cleanup_loop_cons. unfold CleanupFacts.act. cbn [g_loop].
    assert (Eext : ext_is (ename c (g, (i, d))) gz_sfx = g).
    { unfold ename. cbn [fst snd]. destruct g; [apply gname_is_gz | apply rname_not_gz; exact Hsfx]. }
    rewrite Eext. destruct (Nat.leb total idx).
    + (* removed *)
      rewrite p_remove_fw by exact Q. destruct (pop fl) as [t fl1]. cbn [fst snd]. destruct t.
      { exists q. cbn [fst snd]. split; [reflexivity|]. split; [apply same_env_refl; exact Q|]. split; [apply keeps_refl | exact G]. }
      destruct OK as (H1 & H2 & H3 & H4). destruct g; unfold ename; cbn [fst snd].
      * destruct (hd_arch _ _ _ _ _ G i d (H2 i d (or_introl eq_refl))) as (j & Lj & _). rewrite Lj.
        pose proof (hdir_unlink_arch c (wfs q) pl ar o i G) as G1.
        destruct (IH (set_fs q (unlink (wfs q) (gname c i))) fl1 (S idx) pl (deli i ar) o (quiet_set_fs q _ Q) G1) as (q' & E & S & K & G').
        { apply (ok_entries_tail (true, (i, d)) r pl ar); [repeat split; assumption | intros; assumption | |].
          - intros i' g' Hi Hne. apply deli_in. split; [exact Hi|]. cbn [fst]. intros ->. apply Hne. reflexivity.
          - intros i' _ Hm. apply memi_false. intros d' Hd'. apply deli_in in Hd'. apply memi_false with (d := d') in Hm. exact (Hm (proj1 Hd')). }
        exists q'. split; [exact E|]. split; [eapply same_env_trans; [apply same_env_set_fs; exact Q | exact S]|]. split; [|exact G'].
        eapply keeps_trans; [apply (keeps_unlink (wfs q) (gname c i)) | exact K].
      * destruct (hd_plain _ _ _ _ _ G i d (H1 i d (or_introl eq_refl))) as (j & Lj & _). rewrite Lj.
        pose proof (hdir_unlink_plain c (wfs q) pl ar o i G) as G1.
        destruct (IH (set_fs q (unlink (wfs q) (rname c i))) fl1 (S idx) (deli i pl) ar o (quiet_set_fs q _ Q) G1) as (q' & E & S & K & G').
        { apply (ok_entries_tail (false, (i, d)) r pl ar); [repeat split; assumption | | intros; assumption | intros; assumption].
          intros i' d' Hi Hne. apply deli_in. split; [exact Hi|]. cbn [fst]. intros ->. apply Hne. reflexivity. }
        exists q'. split; [exact E|]. split; [eapply same_env_trans; [apply same_env_set_fs; exact Q | exact S]|]. split; [|exact G'].
        eapply keeps_trans; [apply (keeps_unlink (wfs q) (rname c i)) | exact K].
    + destruct (Nat.leb ll idx).
      * destruct g.
        -- (* an archive in the compression zone: kept *)
           apply (IH q fl (S idx) pl ar o Q G). apply (ok_entries_tail (true, (i, d)) r pl ar); [exact OK | | |]; intros; assumption.
        -- (* a plain file in the compression zone: compressed *)
           destruct OK as (H1 & H2 & H3 & H4). unfold ename at 1. cbn [fst snd].
           destruct (compress_hdir q fl pl ar o i d Q G (H1 i d (or_introl eq_refl)) (H4 i d (or_introl eq_refl))) as (q1 & E1 & S1 & K1 & G1).
           rewrite E1. pose proof (fun p => proj1 (deli_in i pl p)) as DP. pose proof (fun q0 p => proj1 (insi_in q0 ar p)) as IA.
           assert (Shape : (snd (fst (g_compress i d pl ar fl)) = true ->
                            fst (fst (fst (g_compress i d pl ar fl))) = deli i pl /\ snd (fst (fst (g_compress i d pl ar fl))) = insi (i, d) ar)).
           { unfold g_compress. destruct (pop fl) as [t1 fl1]. destruct t1; [discriminate|]. destruct (pop fl1) as [t2 fl2]. destruct t2; [discriminate|].
             destruct (pop fl2) as [t3 fl3]. destruct t3; [discriminate|]. destruct (pop fl3) as [t4 fl4]. destruct t4; [discriminate|].
             destruct (pop fl4) as [t5 fl5]. destruct t5; [discriminate|]. intros _. split; reflexivity. }
           destruct (g_compress i d pl ar fl) as [[[pl1 ar1] ok1] fl1]. cbn [fst snd] in *. destruct ok1.
           ++ destruct (Shape eq_refl) as [-> ->].
              destruct (IH q1 fl1 (S idx) (deli i pl) (insi (i, d) ar) o (proj1 S1) G1) as (q' & E & S & K & G').
              { apply (ok_entries_tail (false, (i, d)) r pl ar); [repeat split; assumption | | |].
                - intros i' d' Hi Hne. apply deli_in. split; [exact Hi|]. cbn [fst]. intros ->. apply Hne. reflexivity.
                - intros i' g' Hi _. apply insi_in. right. exact Hi.
                - intros i' Hne Hm. apply memi_false. intros d' Hd'. apply insi_in in Hd'. destruct Hd' as [X|Hd'].
                  + injection X as -> _. apply Hne. reflexivity.
                  + apply memi_false with (d := d') in Hm. exact (Hm Hd'). }
              exists q'. split; [exact E|]. split; [eapply same_env_trans; eassumption|]. split; [eapply keeps_trans; eassumption | exact G'].
           ++ exists q1. cbn [fst snd]. split; [reflexivity|]. split; [exact S1|]. split; assumption.
      * (* among the newest ll: kept *)
        destruct (if g then AKeep else AKeep) eqn:Ea; try (destruct g; discriminate).
        apply (IH q fl (S idx) pl ar o Q G). apply (ok_entries_tail (g, (i, d)) r pl ar); [exact OK | | |]; intros; assumption.
Qed.

(* ---- the redundant archives ---- *)
Lemma filter_all_true {A} (p : A -> bool) l : (forall x, In x l -> p x = true) -> filter p l = l.
Proof. induction l as [|y l IH]; intros H; cbn [filter]; [reflexivity|]. rewrite (H y) by (left; reflexivity). f_equal. apply IH. intros x Hx. apply H. right; exact Hx. Qed.

Lemma strip_step (pl ar : cdir) i :
  filter (fun m0 => negb (beq m0 (gname c i))) (List.map (ename c) (g_listing pl ar)) = List.map (ename c) (g_listing pl (deli i ar)).
Proof.
  unfold g_listing. rewrite !map_app, !map_map, filter_app. f_equal.
  - apply filter_all_true. intros x Hx. apply in_map_iff in Hx. destruct Hx as [p [<- _]]. unfold ename. cbn [fst snd].
    destruct (beq_spec (rname c (fst p)) (gname c i)) as [X|_]; [exfalso; exact (rname_ne_gname c _ _ X) | reflexivity].
  - unfold deli. rewrite <- filter_rev'. unfold ename. cbn [fst snd]. induction (rev ar) as [|[j g] r IH]; [reflexivity|].
    cbn [List.map filter fst]. destruct (beq_spec (gname c j) (gname c i)) as [X|N1].
    + apply gname_inj in X. subst j. rewrite Nat.eqb_refl. cbn [negb]. exact IH.
    + destruct (Nat.eqb_spec j i) as [->|_]; [contradiction|]. cbn [negb List.map fst]. rewrite IH. reflexivity.
Qed.

Lemma g_red_spec : forall red (ar : cdir) fl,
  (forall p, In p (fst (fst (g_red red ar fl))) -> In p ar)
  /\ (snd (fst (g_red red ar fl)) = true -> forall p, In p (fst (fst (g_red red ar fl))) -> ~ In (fst p) (List.map fst red)).
Proof.
  induction red as [|a r IH]; intros ar fl; cbn [g_red].
  - cbn [fst snd List.map]. split; [intros p H; exact H | intros _ p _ []].
  - destruct (pop fl) as [t fl1]. destruct t; cbn [fst snd]; [split; [intros p H; exact H | discriminate]|].
    destruct (IH (deli (fst a) ar) fl1) as [I1 I2]. split.
    + intros p Hp. apply I1 in Hp. apply deli_in in Hp. exact (proj1 Hp).
    + intros Hok p Hp [E|Hin]; [|exact (I2 Hok p Hp Hin)]. apply I1 in Hp. apply deli_in in Hp. destruct Hp as [_ Hne]. congruence.
Qed.

Lemma remove_redundant_fw : forall red q fl (pl ar : cdir) o, quiet q -> hdir c (wfs q) pl ar o ->
  (forall a, In a red -> In a ar) -> NoDup (List.map fst red) ->
  exists q' files',
    remove_redundant (fw q fl) (List.map (fun a => gname c (fst a)) red) (List.map (ename c) (g_listing pl ar))
    = (snd (fst (g_red red ar fl)), fw q' (snd (g_red red ar fl)), files')
    /\ (snd (fst (g_red red ar fl)) = true -> files' = List.map (ename c) (g_listing pl (fst (fst (g_red red ar fl)))))
    /\ same_env q q' /\ keeps (wfs q) (wfs q') /\ hdir c (wfs q') pl (fst (fst (g_red red ar fl))) o.
Proof.
  induction red as [|[i g] r IH]; intros q fl pl ar o Q G Hin ND; cbn [List.map remove_redundant g_red fst].
  - exists q, (List.map (ename c) (g_listing pl ar)). cbn [fst snd]. split; [reflexivity|]. split; [reflexivity|].
    split; [apply same_env_refl; exact Q|]. split; [apply keeps_refl | exact G].
  - rewrite p_remove_fw by exact Q. destruct (pop fl) as [t fl1]. cbn [fst snd]. destruct t.
    { exists q, (List.map (ename c) (g_listing pl ar)). cbn [fst snd]. split; [reflexivity|]. split; [discriminate|].
      split; [apply same_env_refl; exact Q|]. split; [apply keeps_refl | exact G]. }
    destruct (hd_arch _ _ _ _ _ G i g (Hin _ (or_introl eq_refl))) as (j & Lj & _). rewrite Lj, strip_step.
    inversion ND as [|? ? Hn Hr]; subst.
    destruct (IH (set_fs q (unlink (wfs q) (gname c i))) fl1 pl (deli i ar) o (quiet_set_fs q _ Q) (hdir_unlink_arch c (wfs q) pl ar o i G))
      as (q' & files' & E & Ef & S & K & G'); [|exact Hr|].
    { intros a Ha. apply deli_in. split; [apply Hin; right; exact Ha|]. intros X. apply Hn. rewrite <- X. apply in_map. exact Ha. }
    exists q', files'. split; [exact E|]. split; [exact Ef|]. split; [eapply same_env_trans; [apply same_env_set_fs; exact Q | exact S]|].
    split; [eapply keeps_trans; [apply (keeps_unlink (wfs q) (gname c i)) | exact K] | exact G'].
Qed.

(* ---- one cleanup ---- *)
Lemma cleanup_impl_klim k' w : klim k' = Some (ll, cl) ->
  cleanup_impl c w k' IFNum None =
  (let '(t, w1) := tick w in
   if t then (Err, w1) else
   match list_log_gz (woff w1) (c_spec c) (fixed_of c w1) (wfs w1) IFNum with
   | None => (Panic, w1)
   | Some files =>
     let '(ok0, w1', files') := remove_redundant w1 (redundant_gz files) files in
     if negb ok0 then (Err, w1') else
     let '(ok, w2) := cleanup_loop w1' files' 0 ll (ll + cl) None in ((if ok then Ok tt else Err), w2)
   end).
Proof. intros H. destruct k'; cbn [klim] in H; try discriminate; injection H as <- <-; reflexivity. Qed.

Lemma nodup_app_in {A} (a b : list A) : NoDup a -> NoDup b -> (forall x, In x a -> In x b -> False) -> NoDup (a ++ b).
Proof.
  induction a as [|x a IH]; intros Na Nb H; cbn [app]; [exact Nb|]. inversion Na as [|? ? Hn Hr]; subst. constructor.
  - intros Hin. apply in_app_or in Hin. destruct Hin as [Hin|Hin]; [exact (Hn Hin) | exact (H x (or_introl eq_refl) Hin)].
  - apply IH; [exact Hr | exact Nb|]. intros y Hy. apply H. right. exact Hy.
Qed.

Lemma g_listing_entries (pl ar : cdir) : asc pl -> asc ar -> (forall i, memi i pl = true -> memi i ar = false) ->
  ok_entries (g_listing pl ar) pl ar.
Proof.
  intros Ap Aa Hd. unfold g_listing. split; [|split; [|split]].
  - intros i d Hi. apply in_app_or in Hi. destruct Hi as [Hi|Hi]; apply in_map_iff in Hi; destruct Hi as [p [E Hp]]; [|discriminate].
    injection E as ->. apply in_rev in Hp. exact Hp.
  - intros i g Hi. apply in_app_or in Hi. destruct Hi as [Hi|Hi]; apply in_map_iff in Hi; destruct Hi as [p [E Hp]]; [discriminate|].
    injection E as ->. apply in_rev in Hp. exact Hp.
  - rewrite map_app, !map_map. unfold ekey. cbn [fst snd]. apply nodup_app_in.
    + change (fun x : nat * bytes => (false, fst x)) with (fun x : nat * bytes => pair false (fst x)).
      rewrite <- (map_map fst (pair false)). apply FinFun.Injective_map_NoDup; [intros a b E; injection E; auto|].
      rewrite map_rev. apply NoDup_rev. apply asc_nodup. exact Ap.
    + rewrite <- (map_map fst (pair true)). apply FinFun.Injective_map_NoDup; [intros a b E; injection E; auto|].
      rewrite map_rev. apply NoDup_rev. apply asc_nodup. exact Aa.
    + intros x Hx Hy. apply in_map_iff in Hx. apply in_map_iff in Hy. destruct Hx as [p [<- _]]. destruct Hy as [p' [E _]]. discriminate.
  - intros i d Hi. apply in_app_or in Hi. destruct Hi as [Hi|Hi]; apply in_map_iff in Hi; destruct Hi as [p [E Hp]]; [|discriminate].
    injection E as ->. apply in_rev in Hp. apply Hd. apply memi_true. eauto.
Qed.

Lemma g_redundant_facts (pl ar : cdir) : asc ar ->
  (forall a, In a (g_redundant pl ar) -> In a ar) /\ NoDup (List.map fst (g_redundant pl ar)).
Proof.
  intros Aa. unfold g_redundant. split.
  - intros a Ha. apply filter_In in Ha. apply in_rev. exact (proj1 Ha).
  - assert (N : NoDup (List.map fst (rev ar))) by (rewrite map_rev; apply NoDup_rev, asc_nodup; exact Aa).
    induction (rev ar) as [|x r IH]; cbn [filter List.map]; [constructor|]. cbn [List.map] in N. inversion N as [|? ? Hn Hr]; subst.
    destruct (memi (fst x) pl); [|apply IH; exact Hr]. cbn [List.map]. constructor; [|apply IH; exact Hr].
    intros Hin. apply Hn. apply in_map_iff in Hin. destruct Hin as [p [E Hp]]. apply filter_In in Hp. rewrite <- E. apply in_map. exact (proj1 Hp).
Qed.

Lemma cleanup_impl_gz q fl (pl ar : cdir) o : quiet q -> hdir c (wfs q) pl ar o ->
  exists q', cleanup_impl c (fw q fl) k IFNum None
             = ((if snd (fst (g_cleanup ll total pl ar fl)) then Ok tt else Err), fw q' (snd (g_cleanup ll total pl ar fl)))
    /\ same_env q q' /\ keeps (wfs q) (wfs q')
    /\ hdir c (wfs q') (fst (fst (fst (g_cleanup ll total pl ar fl)))) (snd (fst (fst (g_cleanup ll total pl ar fl)))) o.
Proof.
  intros Q G. rewrite (cleanup_impl_klim k (fw q fl) Hk). unfold g_cleanup. rewrite tick_fw.
  destruct (pop fl) as [t0 fl0]. cbn [fst snd]. destruct t0.
  { exists q. cbn [fst snd]. split; [reflexivity|]. split; [apply same_env_refl; exact Q|]. split; [apply keeps_refl | exact G]. }
  rewrite (fixed_of_fixed0 c (fw q fl0) Hts). change (woff (fw q fl0)) with (woff q). change (wfs (fw q fl0)) with (wfs q).
  rewrite (list_log_gz_hdir c Hsfx (wfs q) (woff q) pl ar o G), (redundant_hdir c Hsfx pl ar).
  destruct (g_redundant_facts pl ar (hd_asca _ _ _ _ _ G)) as [Rin Rnd].
  destruct (remove_redundant_fw (g_redundant pl ar) q fl0 pl ar o Q G Rin Rnd) as (q1 & files' & E1 & Ef & S1 & K1 & G1).
  rewrite E1. clear E1. pose proof (g_red_spec (g_redundant pl ar) ar fl0) as [RS1 RS2].
  destruct (g_red (g_redundant pl ar) ar fl0) as [[ar1 ok0] fl1]. cbn [fst snd] in *. destruct ok0; cbn [negb].
  - rewrite (Ef eq_refl).
    assert (OK : ok_entries (g_listing pl ar1) pl ar1).
    { apply g_listing_entries; [exact (hd_ascp _ _ _ _ _ G1) | exact (hd_asca _ _ _ _ _ G1)|].
      intros i Hi. apply memi_false. intros g Hg. apply (RS2 eq_refl (i, g) Hg). cbn [fst].
      apply in_map_iff. exists (i, g). split; [reflexivity|]. unfold g_redundant. apply filter_In. split; [apply -> in_rev; exact (RS1 _ Hg) | exact Hi]. }
    destruct (cleanup_loop_gz (g_listing pl ar1) q1 fl1 0 pl ar1 o (proj1 S1) G1 OK) as (q2 & E2 & S2 & K2 & G2).
    fold total. rewrite E2. destruct (g_loop (g_listing pl ar1) 0 ll total pl ar1 fl1) as [[[pl2 ar2] ok] fl2]. cbn [fst snd] in *.
    exists q2. split; [destruct ok; reflexivity|]. split; [eapply same_env_trans; eassumption|]. split; [eapply keeps_trans; eassumption | exact G2].
  - exists q1. cbn [fst snd]. split; [reflexivity|]. split; [exact S1|]. split; assumption.
Qed.
Definition actg (idx cur : N) (wr : writer) : inner := Active (Some (mk_rsk k (NSNumR idx) (RSize m cur))) wr (cname c).
Definition flwg (i : inner) : flw := {| f_cfg := c; f_inner := i; f_poisoned := false |}.

(* a rotation: the new index (rename), the new file (open), the cleanup *)
Lemma mount_next_g_unfold w idx cur wr : wpend wr = [] -> (m <? cur)%N = true ->
  mount_next c w (actg idx cur wr) false =
  match index_for_rcurrent c w (Some idx) true with
  | (Ok idx', w') =>
    match open_log_file c w' (Some cur_infix) with
    | (Ok (wr', path'), w2) =>
      let '(rc, w4) := cleanup_impl c w2 k IFNum None in
      (match rc with Ok _ => Ok tt | Err => Err | Panic => Panic end, w4,
       Active (Some (mk_rsk k (NSNumR idx') (RSize m 0))) wr' path')
    | (Err, w2) => (Err, w2, actg idx' cur wr)
    | (Panic, w2) => (Panic, w2, actg idx' cur wr)
    end
  | (Err, w') => (Err, w', actg idx cur wr)
  | (Panic, w') => (Panic, w', actg idx cur wr)
  end.
Proof.
  intros Hp Hm. unfold mount_next, actg. cbn [mk_rsk rs_roll rs_naming rs_cleanup rs_bg orb rotation_necessary].
  unfold size_rotation_necessary. rewrite Hm.
  destruct (index_for_rcurrent c w (Some idx) true) as [[idx'| |] w']; try reflexivity.
  destruct (open_log_file c w' (Some cur_infix)) as [[[wr' path']| |] w2]; try reflexivity.
  rewrite w_flush_nop by exact Hp. cbv beta iota zeta. rewrite w_drop_nop by reflexivity.
  unfold cleanup_or_queue. cbn [reset_size_and_date ns_filter ns_writes_direct].
  destruct (cleanup_impl c w2 k IFNum None) as [rc w4]. reflexivity.
Qed.

Lemma mount_next_g_idle w idx cur wr : (m <? cur)%N = false -> mount_next c w (actg idx cur wr) false = (Ok tt, w, actg idx cur wr).
Proof.
  intros Hm. unfold mount_next, actg. cbn [mk_rsk rs_roll orb rotation_necessary]. unfold size_rotation_necessary. rewrite Hm. reflexivity.
Qed.

Lemma index_rotate_gw q fl idx : quiet q ->
  index_for_rcurrent c (fw q fl) (Some idx) true =
  if fst (pop fl) then (Err, fw q (snd (pop fl)))
  else match rename (wfs q) (cname c) (nm c (number_infix idx)) with
       | Some f1 => (Ok (idx + 1)%N, fw (set_fs q f1) (snd (pop fl)))
       | None => (Ok idx, fw q (snd (pop fl)))
       end.
Proof.
  intros Q. unfold index_for_rcurrent. rewrite !(name_of_fixed c (fw q fl)) by exact Hts.
  fold (nm c cur_infix) (nm c (number_infix idx)). fold (cname c). rewrite p_rename_fw by exact Q.
  destruct (pop fl) as [f1 fl1]. cbn [fst snd]. destruct f1; [reflexivity|].
  destruct (rename (wfs q) (cname c) (nm c (number_infix idx))); reflexivity.
Qed.

Lemma open_cur_fresh_g q fl : quiet q -> lookup (wfs q) (cname c) = None ->
  open_log_file c (fw q fl) (Some cur_infix) =
  if fst (pop fl) then (Err, fw q (snd (pop fl)))
  else (Ok ({| wino := snd (create_file (wfs q) (cname c) 0%N (wnow q)); wpend := []; wcap := c_cap c |}, cname c),
        fw (set_fs q (fst (create_file (wfs q) (cname c) 0%N (wnow q)))) (snd (pop fl))).
Proof.
  intros Q L. pose proof Hcfg as (_ & _ & Hlink & _). unfold open_log_file. rewrite (name_of_fixed c (fw q fl)) by exact Hts.
  fold (nm c cur_infix) (cname c). unfold do_symlink. rewrite Hlink. rewrite p_open_fw by exact Q.
  destruct (pop fl) as [f2 fl2]; cbn [fst snd]. destruct f2; [reflexivity|].
  unfold file_of at 1. rewrite L.
  assert (Eopen : (if c_append c then open_append (wfs q) (cname c) (wnow q) else open_trunc (wfs q) (cname c) 0%N (wnow q))
                  = create_file (wfs q) (cname c) 0%N (wnow q)).
  { destruct (c_append c); [apply open_append_fresh | apply open_trunc_fresh]; exact L. }
  rewrite Eopen. reflexivity.
Qed.


Lemma open_cur_existing_g q fl j : quiet q -> c_append c = true -> lookup (wfs q) (cname c) = Some j -> fdir (inode (wfs q) j) = false ->
  open_log_file c (fw q fl) (Some cur_infix) =
  if fst (pop fl) then (Err, fw q (snd (pop fl)))
  else (Ok ({| wino := j; wpend := []; wcap := c_cap c |}, cname c), fw q (snd (pop fl))).
Proof.
  intros Q Ha L D. pose proof Hcfg as (_ & _ & Hlink & _). unfold open_log_file. rewrite (name_of_fixed c (fw q fl)) by exact Hts.
  fold (nm c cur_infix) (cname c). unfold do_symlink. rewrite Hlink. rewrite p_open_fw by exact Q.
  destruct (pop fl) as [f2 fl2]; cbn [fst snd]. destruct f2; [reflexivity|].
  unfold file_of at 1. rewrite L, D, Ha. unfold open_append. rewrite L. cbn [fst snd]. rewrite set_fs_same. reflexivity.
Qed.

(* ---- the rest of write_buffer after the rotation check ---- *)
Lemma wbg_active q fl idx cur wr r1 q1 fl1 idx1 cur1 wr1 b :
  mount_next c (fw q fl) (actg idx cur wr) false = (r1, fw q1 fl1, actg idx1 cur1 wr1) ->
  r1 <> Panic -> quiet q1 -> wcap wr1 = None ->
  exists q3,
    write_buffer (flwg (actg idx cur wr)) (fw q fl) b
    = ((if fst (wr_pop b fl1) then Err else Ok tt), fw q3 (snd (wr_pop b fl1)),
       flwg (actg idx1 (if fst (wr_pop b fl1) then cur1 else (cur1 + N.of_nat (length b))%N) wr1), (m <? cur)%N)
    /\ reported q1 q3 (match r1 with Err => [ELogFile] | _ => [] end)
    /\ wfs q3 = (if fst (wr_pop b fl1) then wfs q1 else append_ino (wfs q1) (wino wr1) b).
Proof.
  intros M Hr Q1 Hc. unfold actg in *. unfold write_buffer, flwg. cbn [f_cfg f_inner]. rewrite M.
  cbn [mk_rsk rs_roll rotation_necessary]. unfold size_rotation_necessary.
  destruct r1 as [[]| |]; [| |contradiction].
  - destruct (w_write_fw q1 fl1 wr1 b Q1 Hc) as [q3 [E [S F]]]. rewrite E.
    exists q3. split; [|split; [apply same_env_reported; exact S | exact F]].
    destruct (fst (wr_pop b fl1)); cbn [negb with_inner f_cfg f_poisoned mk_rsk rs_naming rs_roll rs_cleanup rs_bg increase_size]; reflexivity.
  - rewrite report_fw by exact Q1. destruct (report_reported ELogFile q1 Q1) as [R1 F1].
    destruct (w_write_fw (report ELogFile q1) fl1 wr1 b (proj1 R1) Hc) as [q3 [E [S F]]]. rewrite E.
    exists q3. split; [|split].
    + destruct (fst (wr_pop b fl1)); cbn [negb with_inner f_cfg f_poisoned mk_rsk rs_naming rs_roll rs_cleanup rs_bg increase_size]; reflexivity.
    + pose proof (reported_trans _ _ _ _ _ R1 (same_env_reported _ _ S)) as R. cbn [app] in R. exact R.
    + rewrite F, F1. reflexivity.
Qed.

(* ---- the log call around write_buffer ---- *)
Lemma stepg_write x i b r w1 i1 rot :
  s_flw x = Some (flwg i) -> s_tl x = [] -> write_buffer (flwg i) (s_w x) b = (r, w1, flwg i1, rot) -> r <> Panic ->
  step x (OWrite b) = ({| s_flw := Some (flwg i1); s_w := match r with Err => report EWrite w1 | _ => w1 end; s_tl := []; s_dead := s_dead x |},
                       ObsRes 0 rot).
Proof.
  intros Es Ht E Hr. pose proof Hcfg as (_ & _ & _ & Ha & _).
  rewrite (step_sync_cfg x (OWrite b) (flwg i) Es Hts Ha). cbn [sync_step]. rewrite Es. cbn [flwg f_poisoned].
  rewrite Ht. cbn [app]. fold (flwg i). rewrite E. destruct r; [reflexivity | reflexivity | contradiction].
Qed.

Lemma stepg_write_eq x x1 i i1 b :
  s_flw x = Some (flwg i) -> s_flw x1 = Some (flwg i1) -> s_tl x = [] -> s_tl x1 = [] -> s_dead x1 = s_dead x ->
  write_buffer (flwg i) (s_w x) b = write_buffer (flwg i1) (s_w x1) b ->
  step x (OWrite b) = step x1 (OWrite b).
Proof.
  intros Es Es1 Ht Ht1 Hd E. pose proof Hcfg as (_ & _ & _ & Ha & _).
  rewrite (step_sync_cfg x (OWrite b) (flwg i) Es Hts Ha), (step_sync_cfg x1 (OWrite b) (flwg i1) Es1 Hts Ha).
  cbn [sync_step]. rewrite Es, Es1. cbn [flwg f_poisoned]. rewrite Ht, Ht1, Hd. cbn [app].
  fold (flwg i) (flwg i1). rewrite E. reflexivity.
Qed.

(* ---- the writer and its file: on rCURRENT (old = false), or on the closed file r<idx> (old = true) ---- *)

(* ---- the writer and its file: on rCURRENT (old = false), or on the closed file r<idx> (old = true) ---- *)
Definition GA (old : bool) (q : world) (wr : writer) (pl ar : cdir) (idx : nat) (d : bytes) : Prop :=
  wpend wr = [] /\ wcap wr = None /\ (forall i e, In (i, e) pl -> i < idx) /\
  if old then hdir c (wfs q) (pl ++ [(idx, d)]) ar None /\ lookup (wfs q) (rname c idx) = Some (wino wr)
  else hdir c (wfs q) pl ar (Some (wino wr)) /\ content (wfs q) (wino wr) = d.
Definition gst_same (old : bool) (pl ar : cdir) (idx : nat) (d : bytes) : gst := if old then GOld pl ar idx d else GCur pl ar idx d.

Lemma ga_env old q q' wr pl ar idx d : GA old q wr pl ar idx d -> wfs q' = wfs q -> GA old q' wr pl ar idx d.
Proof. unfold GA. intros H F. rewrite F. exact H. Qed.

Lemma ga_append old q q' wr pl ar idx d b : GA old q wr pl ar idx d -> wfs q' = append_ino (wfs q) (wino wr) b -> GA old q' wr pl ar idx (d ++ b).
Proof.
  intros (Hp & Hc & Hb & H) F. split; [exact Hp|]. split; [exact Hc|]. split; [exact Hb|]. rewrite F. destruct old.
  - destruct H as [G L]. split; [apply hdir_append_old; assumption | rewrite lookup_append; exact L].
  - destruct H as [G C]. destruct (hdir_append_cur c (wfs q) pl ar (wino wr) b G) as [G' C']. split; [exact G' | rewrite C', C; reflexivity].
Qed.

(* what the rename of rCURRENT at a rotation does *)
Lemma ga_rename old q wr pl ar idx d fl1 : quiet q -> GA old q wr pl ar idx d ->
  exists q1,
    match rename (wfs q) (cname c) (nm c (number_infix (kidx_of old idx))) with
    | Some f1 => (@Ok N (kidx_of old idx + 1)%N, fw (set_fs q f1) fl1)
    | None => (Ok (kidx_of old idx), fw q fl1)
    end = (Ok (kidx_of true idx), fw q1 fl1)
    /\ quiet q1 /\ wacts q1 = wacts q /\ werrs q1 = werrs q /\ GA true q1 wr pl ar idx d.
Proof.
  intros Q (Hp & Hc & Hb & H). destruct old; cbn [kidx_of].
  - destruct H as [G L]. pose proof (hd_cur _ _ _ _ _ G) as Lc. cbn beta iota in Lc. rewrite (rename_none _ _ _ Lc).
    exists q. split; [reflexivity|]. split; [exact Q|]. split; [reflexivity|]. split; [reflexivity|].
    split; [exact Hp|]. split; [exact Hc|]. split; [exact Hb|]. split; assumption.
  - destruct H as [G C]. destruct (hdir_rename c (wfs q) pl ar (wino wr) idx G Hb) as (f1 & Er & Ei & G1 & L1).
    fold (rname c idx). rewrite Er. exists (set_fs q f1). split; [reflexivity|]. split; [apply quiet_set_fs; exact Q|].
    split; [reflexivity|]. split; [reflexivity|]. split; [exact Hp|]. split; [exact Hc|]. split; [exact Hb|].
    cbn [set_fs wfs]. rewrite C in G1. split; assumption.
Qed.

(* ------------------------------------------------------------------ the invariant of the run *)
Definition DG (q : world) (pl ar : cdir) (created : bool) : Prop :=
  exists o, hdir c (wfs q) pl ar o /\ (if created then exists j, o = Some j /\ content (wfs q) j = [] else o = None).

Definition FInvG (B : nat) (x : sys) (st : gst) (errs : list ecode) (fl : list bool) : Prop :=
  exists q, s_w x = fw q fl /\ quiet q /\ wacts q = 0 /\ werrs q = errs /\ s_tl x = [] /\
  match st with
  | GInit pl ar created =>
    s_flw x = Some (flwg Initial) /\ DG q pl ar created /\ (N.of_nat (g_next pl ar + B) <= u32_max)%N
  | GCur pl ar idx d => exists wr, s_flw x = Some (flwg (actg (kidx_of false idx) (N.of_nat (length d)) wr)) /\ GA false q wr pl ar idx d
  | GOld pl ar idx d => exists wr, s_flw x = Some (flwg (actg (kidx_of true idx) (N.of_nat (length d)) wr)) /\ GA true q wr pl ar idx d
  end.

Lemma finvg_same B x old (pl ar : cdir) (idx : nat) (d : bytes) errs fl q wr :
  s_w x = fw q fl -> quiet q -> wacts q = 0 -> werrs q = errs -> s_tl x = [] ->
  s_flw x = Some (flwg (actg (kidx_of old idx) (N.of_nat (length d)) wr)) -> GA old q wr pl ar idx d ->
  FInvG B x (gst_same old pl ar idx d) errs fl.
Proof. intros. exists q. destruct old; cbn [gst_same]; repeat (split; [assumption|]); exists wr; split; assumption. Qed.

(* the rotation check has been made (result r1, world q1, oracle fl1, writer wr1 on a file that holds d1): the write *)
Lemma tail_stepg B x q fl idx cur wr r1 q1 fl1 old1 (pl1 ar1 : cdir) (idx1 : nat) (d1 : bytes) wr1 errs1 (b : bytes) :
  s_w x = fw q fl -> s_tl x = [] -> s_flw x = Some (flwg (actg idx cur wr)) ->
  mount_next c (fw q fl) (actg idx cur wr) false = (r1, fw q1 fl1, actg (kidx_of old1 idx1) (N.of_nat (length d1)) wr1) ->
  r1 <> Panic -> quiet q1 -> wacts q1 = 0 -> werrs q1 = errs1 -> GA old1 q1 wr1 pl1 ar1 idx1 d1 ->
  let '(d', e, fl2) := s_write d1 b fl1 in
  exists x' rot, step x (OWrite b) = (x', ObsRes 0 rot)
    /\ FInvG B x' (gst_same old1 pl1 ar1 idx1 d') (errs1 ++ (match r1 with Err => [ELogFile] | _ => [] end) ++ e) fl2.
Proof.
  intros Ew Ht Es M Hr Q1 Ha1 He1 A1.
  pose proof A1 as (Hp1 & Hc1 & _).
  destruct (wbg_active q fl idx cur wr r1 q1 fl1 _ _ wr1 b M Hr Q1 Hc1) as [q3 [E [R3 F3]]].
  unfold s_write. destruct (wr_pop b fl1) as [f fl2]. cbn [fst snd] in *.
  rewrite <- Ew in E. pose proof (stepg_write x _ b _ _ _ _ Es Ht E) as S.
  destruct f.
  - eexists _, _. split; [apply S; discriminate|].
    destruct (report_reported EWrite q3 (proj1 R3)) as [R4 F4].
    pose proof (reported_trans _ _ _ _ _ R3 R4) as R.
    apply (finvg_same B _ old1 pl1 ar1 idx1 d1 _ fl2 (report EWrite q3) wr1); cbn [s_w s_tl s_flw].
    + apply report_fw. apply R3.
    + apply R.
    + exact (reported_acts _ _ _ R Ha1).
    + rewrite (reported_errs _ _ _ _ R He1). reflexivity.
    + reflexivity.
    + reflexivity.
    + apply (ga_env old1 q1); [exact A1 | rewrite F4; exact F3].
  - eexists _, _. split; [apply S; discriminate|].
    apply (finvg_same B _ old1 pl1 ar1 idx1 (d1 ++ b) _ fl2 q3 wr1); cbn [s_w s_tl s_flw].
    + reflexivity.
    + apply R3.
    + exact (reported_acts _ _ _ R3 Ha1).
    + rewrite (reported_errs _ _ _ _ R3 He1), app_nil_r. reflexivity.
    + reflexivity.
    + rewrite app_length, Nat2N.inj_add. reflexivity.
    + apply (ga_append old1 q1); [exact A1 | exact F3].
Qed.

(* one record on an initialised writer *)
Lemma active_stepg B x old q fl errs (pl ar : cdir) (idx : nat) (d : bytes) wr (b : bytes) :
  s_w x = fw q fl -> quiet q -> wacts q = 0 -> werrs q = errs -> s_tl x = [] ->
  s_flw x = Some (flwg (actg (kidx_of old idx) (N.of_nat (length d)) wr)) -> GA old q wr pl ar idx d ->
  let '(st', e, fl') := g_active m ll total old pl ar idx d b fl in
  exists x' rot, step x (OWrite b) = (x', ObsRes 0 rot) /\ FInvG B x' st' (errs ++ e) fl'.
Proof.
  intros Ew Q Ha He Ht Es A. pose proof A as (Hp & Hc & Hb & _).
  unfold g_active. fold (gst_same old pl ar idx).
  destruct (m <? N.of_nat (length d))%N eqn:Em.
  - pose proof (mount_next_g_unfold (fw q fl) (kidx_of old idx) (N.of_nat (length d)) wr Hp Em) as M.
    rewrite index_rotate_gw in M by exact Q.
    destruct (pop fl) as [f1 fl1]. cbn [fst snd] in M. destruct f1.
    + pose proof (tail_stepg B x q fl _ _ wr Err q fl1 old pl ar idx d wr errs b Ew Ht Es M (fun H => ltac:(discriminate H)) Q Ha He A) as T.
      destruct (s_write d b fl1) as [[d' e] fl2]. exact T.
    + destruct (ga_rename old q wr pl ar idx d fl1 Q A) as (q1 & Er & Q1 & Ha1 & He1 & A1). rewrite Er in M.
      assert (Lc1 : lookup (wfs q1) (cname c) = None) by (destruct A1 as (_ & _ & _ & G1 & _); exact (hd_cur _ _ _ _ _ G1)).
      rewrite (open_cur_fresh_g q1 fl1 Q1 Lc1) in M.
      destruct (pop fl1) as [f2 fl2]. cbn [fst snd] in M. destruct f2.
      * pose proof (tail_stepg B x q fl _ _ wr Err q1 fl2 true pl ar idx d wr errs b Ew Ht Es M (fun H => ltac:(discriminate H)) Q1
                      (eq_trans Ha1 Ha) (eq_trans He1 He) A1) as T.
        destruct (s_write d b fl2) as [[d' e] fl3]. exact T.
      * (* the rotation is completed: the cleanup *)
        set (q2 := set_fs q1 (fst (create_file (wfs q1) (cname c) 0%N (wnow q1)))) in *.
        set (wr2 := {| wino := snd (create_file (wfs q1) (cname c) 0%N (wnow q1)); wpend := []; wcap := c_cap c |}) in *.
        assert (Q2 : quiet q2) by (apply quiet_set_fs; exact Q1).
        destruct A1 as (_ & _ & _ & G1 & _).
        destruct (hdir_create c (wfs q1) (pl ++ [(idx, d)]) ar (wnow q1) G1) as [G2 C2].
        destruct (cleanup_impl_gz q2 fl2 (pl ++ [(idx, d)]) ar (Some (wino wr2)) Q2 G2) as (q3 & Ec & S3 & K3 & G3).
        rewrite Ec in M. pose proof (proj1 (g_cleanup_incl ll total (pl ++ [(idx, d)]) ar fl2)) as CI.
        destruct (g_cleanup ll total (pl ++ [(idx, d)]) ar fl2) as [[[pl2 ar2] ok] fl3]. cbn [fst snd] in *.
        assert (A3 : GA false q3 wr2 pl2 ar2 (S idx) []).
        { split; [reflexivity|]. split; [exact Hcap|]. split.
          - intros i e Hi. specialize (CI _ Hi). apply in_app_or in CI. destruct CI as [H|[H|[]]]; [specialize (Hb _ _ H); lia|].
            injection H as <- _. lia.
          - split; [exact G3|]. destruct (hd_cur _ _ _ _ _ G2) as [L2 _].
            destruct (K3 (wino wr2) (wf_bound _ (hd_wf _ _ _ _ _ G2) _ _ L2)) as [_ I3]. unfold content. rewrite I3. exact C2. }
        assert (Ei3 : kidx_of true idx = kidx_of false (S idx)) by (cbn [kidx_of]; lia).
        assert (M' : mount_next c (fw q fl) (actg (kidx_of old idx) (N.of_nat (length d)) wr) false
                     = ((if ok then Ok tt else Err), fw q3 fl3, actg (kidx_of false (S idx)) (N.of_nat (length (@nil N))) wr2)).
        { rewrite M, <- Ei3. destruct ok; reflexivity. }
        assert (Ha3 : wacts q3 = 0) by (rewrite (same_env_acts _ _ S3); [reflexivity | exact (eq_trans Ha1 Ha)]).
        assert (He3 : werrs q3 = errs). { destruct S3 as (_ & _ & _ & H & _). rewrite H. exact (eq_trans He1 He). }
        pose proof (tail_stepg B x q fl _ _ wr (if ok then Ok tt else Err) q3 fl3 false pl2 ar2 (S idx) [] wr2 errs b Ew Ht Es M'
                      ltac:(destruct ok; discriminate) (proj1 S3) Ha3 He3 A3) as T.
        destruct (s_write [] b fl3) as [[d' e] fl4]. destruct T as (x' & rot & St & I'). exists x', rot. split; [exact St|].
        cbn [gst_same] in I'. destruct ok; exact I'.
  - pose proof (mount_next_g_idle (fw q fl) (kidx_of old idx) (N.of_nat (length d)) wr Em) as M.
    pose proof (tail_stepg B x q fl _ _ wr (Ok tt) q fl old pl ar idx d wr errs b Ew Ht Es M (fun H => ltac:(discriminate H)) Q Ha He A) as T.
    destruct (s_write d b fl) as [[d' e] fl1]. exact T.
Qed.

(* ------------------------------------------------------------------ the initialisation *)
Definition g_init_tail (ap : bool) (pl1 ar : cdir) (created1 : bool) (idx1 : nat) (fl2 : list bool)
  : (cdir * cdir * bool * option nat) * list bool :=
  let '(f3, fl3) := pop fl2 in
  if f3 then ((pl1, ar, created1, None), fl3) else
  let '(f4, fl4) := if ap then pop fl3 else (false, fl3) in
  if f4 then ((pl1, ar, true, None), fl4) else
  let '(pl2, ar2, ok, fl5) := g_cleanup ll total pl1 ar fl4 in
  ((pl2, ar2, true, if ok then Some idx1 else None), fl5).
Definition g_init_res (ap : bool) (pl ar : cdir) (created : bool) (fl : list bool) : (cdir * cdir * bool * option nat) * list bool :=
  let '(f1, fl1) := pop fl in
  if f1 then ((pl, ar, created, None), fl1) else
  let idx := g_next pl ar in
  let '(f2, fl2) := if ap then (false, fl1) else pop fl1 in
  if f2 then ((pl, ar, created, None), fl2) else
  g_init_tail ap (if ap then pl else if created then pl ++ [(idx, [])] else pl) ar
              (if ap then created else false) (if ap then idx else if created then S idx else idx) fl2.

Lemma g_init_alt ap pl ar created b fl :
  g_init ap m ll total pl ar created b fl
  = match g_init_res ap pl ar created fl with
    | ((pl', ar', cr, None), fl') => (GInit pl' ar' cr, [EWrite], fl')
    | ((pl', ar', _, Some idx1), fl') => g_active m ll total false pl' ar' idx1 [] b fl'
    end.
Proof.
  unfold g_init, g_init_res, g_init_tail. destruct (pop fl) as [f1 fl1]. destruct f1; [reflexivity|].
  destruct (if ap then (false, fl1) else pop fl1) as [f2 fl2]. destruct f2; [reflexivity|].
  destruct (pop fl2) as [f3 fl3]. destruct f3; [reflexivity|].
  destruct (if ap then pop fl3 else (false, fl3)) as [f4 fl4]. destruct f4; [reflexivity|].
  destruct (g_cleanup ll total _ ar fl4) as [[[pl2 ar2] ok] fl5]. destruct ok; reflexivity.
Qed.

Lemma g_next_cleanup (pl ar : cdir) fl : asc pl -> asc ar ->
  g_next (fst (fst (fst (g_cleanup ll total pl ar fl)))) (snd (fst (fst (g_cleanup ll total pl ar fl)))) <= g_next pl ar.
Proof.
  intros Ap Aa. destruct (g_cleanup_incl ll total pl ar fl) as [I1 I2].
  destruct (g_cleanup ll total pl ar fl) as [[[pl2 ar2] ok] fl']. cbn [fst snd] in *. unfold g_next.
  pose proof (next_idx_incl pl pl2 Ap I1) as H1.
  assert (H2 : next_idx ar2 <= Nat.max (next_idx pl) (next_idx ar)).
  { destruct (next_idx_cases ar2) as [[_ E]|(j & e & Hj & E)]; rewrite E; [lia|].
    destruct (I2 _ Hj) as [H|[d [Hd _]]]; [pose proof (asc_below_next ar Aa j e H) | cbn [fst] in Hd; pose proof (asc_below_next pl Ap j d Hd)]; lia. }
  lia.
Qed.

(* open rCURRENT, read its size (append), clean up *)
Lemma init_tail_gw B q1 fl2 (pl1 ar : cdir) (created1 : bool) (idx1 : nat) :
  quiet q1 -> DG q1 pl1 ar created1 -> (created1 = true -> c_append c = true) -> (forall i e, In (i, e) pl1 -> i < idx1) ->
  (N.of_nat (g_next pl1 ar + B) <= u32_max)%N ->
  match g_init_tail (c_append c) pl1 ar created1 idx1 fl2 with
  | ((pl', ar', cr, None), fl') =>
    exists q',
      bind (open_log_file c (fw q1 fl2) (Some cur_infix)) (fun wp w2 =>
        let '(wr, path) := wp in
        bind (roll_new w2 (CSize m) (c_append c) path) (fun roll w3 =>
        bind (cleanup_impl c w3 k IFNum None) (fun _ w4 =>
        (Ok (Active (Some {| rs_naming := NSNumR (N.of_nat idx1); rs_roll := roll; rs_cleanup := k; rs_bg := c_bg c |}) wr path),
         if c_bg c then set_acts w4 0 else w4))))
      = (Err, fw q' fl') /\ same_env q1 q' /\ DG q' pl' ar' cr /\ (N.of_nat (g_next pl' ar' + B) <= u32_max)%N
  | ((pl', ar', _, Some idx'), fl') =>
    exists q' wr,
      bind (open_log_file c (fw q1 fl2) (Some cur_infix)) (fun wp w2 =>
        let '(wr, path) := wp in
        bind (roll_new w2 (CSize m) (c_append c) path) (fun roll w3 =>
        bind (cleanup_impl c w3 k IFNum None) (fun _ w4 =>
        (Ok (Active (Some {| rs_naming := NSNumR (N.of_nat idx1); rs_roll := roll; rs_cleanup := k; rs_bg := c_bg c |}) wr path),
         if c_bg c then set_acts w4 0 else w4))))
      = (Ok (actg (N.of_nat idx') 0 wr), fw q' fl') /\ same_env q1 q' /\ GA false q' wr pl' ar' idx' []
  end.
Proof.
  intros Q1 (o & G & Ho) Hca Hb1 Hbd. pose proof Hcfg as (_ & _ & _ & _ & Hbg). unfold g_init_tail.
  assert (Op : exists q2 j,
    open_log_file c (fw q1 fl2) (Some cur_infix)
    = (if fst (pop fl2) then (Err, fw q1 (snd (pop fl2)))
       else (Ok ({| wino := j; wpend := []; wcap := c_cap c |}, cname c), fw q2 (snd (pop fl2))))
    /\ same_env q1 q2 /\ hdir c (wfs q2) pl1 ar (Some j) /\ content (wfs q2) j = []).
  { destruct created1.
    - destruct Ho as (j & -> & Cj). destruct (hd_cur _ _ _ _ _ G) as [Lc [_ Dc]]. exists q1, j.
      split; [apply (open_cur_existing_g q1 fl2 j Q1 (Hca eq_refl) Lc Dc)|]. split; [apply same_env_refl; exact Q1|]. split; assumption.
    - subst o. pose proof (hd_cur _ _ _ _ _ G) as Lc. cbn beta iota in Lc.
      destruct (hdir_create c (wfs q1) pl1 ar (wnow q1) G) as [G2 C2].
      exists (set_fs q1 (fst (create_file (wfs q1) (cname c) 0%N (wnow q1)))), (snd (create_file (wfs q1) (cname c) 0%N (wnow q1))).
      split; [apply (open_cur_fresh_g q1 fl2 Q1 Lc)|]. split; [apply same_env_set_fs; exact Q1|]. split; assumption. }
  destruct Op as (q2 & j & Eop & S2 & G2 & C2). rewrite Eop. clear Eop.
  destruct (pop fl2) as [f3 fl3]. cbn [fst snd]. destruct f3; cbn [bind].
  { exists q1. split; [reflexivity|]. split; [apply same_env_refl; exact Q1|]. split; [exists o; split; assumption | exact Hbd]. }
  pose proof (proj1 S2) as Q2. destruct (hd_cur _ _ _ _ _ G2) as [Lc2 Pc2].
  assert (RN : roll_new (fw q2 fl3) (CSize m) (c_append c) (cname c)
               = (let '(f4, fl4) := if c_append c then pop fl3 else (false, fl3) in
                  if f4 then (Err, fw q2 fl4) else (Ok (RSize m 0), fw q2 fl4))).
  { unfold roll_new. destruct (c_append c); [|reflexivity]. rewrite tick_fw. destruct (pop fl3) as [f4 fl4]. cbn [fst snd].
    destruct f4; [reflexivity|]. change (wfs (fw q2 fl4)) with (wfs q2). unfold file_of. rewrite Lc2.
    unfold content in C2. rewrite C2. reflexivity. }
  rewrite RN. clear RN.
  destruct (if c_append c then pop fl3 else (false, fl3)) as [f4 fl4]. destruct f4; cbn [bind].
  { exists q2. split; [reflexivity|]. split; [exact S2|]. split; [|exact Hbd]. exists (Some j). split; [exact G2|]. eauto. }
  destruct (cleanup_impl_gz q2 fl4 pl1 ar (Some j) Q2 G2) as (q3 & Ec & S3 & K3 & G3). rewrite Ec. clear Ec.
  pose proof (proj1 (g_cleanup_incl ll total pl1 ar fl4)) as CI.
  pose proof (g_next_cleanup pl1 ar fl4 (hd_ascp _ _ _ _ _ G) (hd_asca _ _ _ _ _ G)) as NX.
  destruct (g_cleanup ll total pl1 ar fl4) as [[[pl2 ar2] ok] fl5]. cbn [fst snd] in *.
  assert (C3 : content (wfs q3) j = []).
  { destruct (K3 j (wf_bound _ (hd_wf _ _ _ _ _ G2) _ _ Lc2)) as [_ I3]. unfold content. rewrite I3. exact C2. }
  destruct ok; cbn [bind].
  - exists q3, {| wino := j; wpend := []; wcap := c_cap c |}. rewrite Hbg. split; [reflexivity|].
    split; [eapply same_env_trans; eassumption|]. split; [reflexivity|]. split; [exact Hcap|].
    split; [intros i e Hi; apply (Hb1 i e), CI, Hi|]. split; assumption.
  - exists q3. split; [reflexivity|]. split; [eapply same_env_trans; eassumption|]. split; [exists (Some j); split; [exact G3 | eauto]|]. lia.
Qed.

Lemma initialize_unfold_g k' w : klim k' = Some (ll, cl) -> c_rot c = Some (CSize m, NNumbers, k') ->
  initialize c w =
  bind (init_naming c w NNumbers) (fun ni w1 =>
    let '(ns, infix) := ni in
    bind (open_log_file c w1 (Some infix)) (fun wp w2 =>
    let '(wr, path) := wp in
    bind (roll_new w2 (CSize m) (c_append c) path) (fun roll w3 =>
    bind (cleanup_impl c w3 k' (ns_filter ns) None) (fun _ w4 =>
    (Ok (Active (Some {| rs_naming := ns; rs_roll := roll; rs_cleanup := k'; rs_bg := c_bg c |}) wr path),
     if c_bg c then set_acts w4 0 else w4))))).
Proof. intros H1 H2. unfold initialize. rewrite H2. destruct k'; [discriminate H1 | reflexivity | reflexivity | reflexivity]. Qed.

Lemma initialize_gw B q fl pl ar created : quiet q -> DG q pl ar created -> (N.of_nat (g_next pl ar + S B) <= u32_max)%N ->
  match g_init_res (c_append c) pl ar created fl with
  | ((pl', ar', cr, None), fl') =>
    exists q', initialize c (fw q fl) = (Err, fw q' fl') /\ same_env q q' /\ DG q' pl' ar' cr /\ (N.of_nat (g_next pl' ar' + B) <= u32_max)%N
  | ((pl', ar', _, Some idx1), fl') =>
    exists q' wr, initialize c (fw q fl) = (Ok (actg (N.of_nat idx1) 0 wr), fw q' fl') /\ same_env q q' /\ GA false q' wr pl' ar' idx1 []
  end.
Proof.
  intros Q D Hbd. pose proof D as (o & G & Ho). pose proof Hcfg as (Hrot & _ & Hlink & Has & Hbg).
  assert (Hlt : forall i d, In (i, d) pl -> i < g_next pl ar).
  { intros i d Hi. pose proof (asc_below_next pl (hd_ascp _ _ _ _ _ G) i d Hi). unfold g_next. lia. }
  assert (Hlta : forall i d, In (i, d) ar -> i < g_next pl ar).
  { intros i d Hi. pose proof (asc_below_next ar (hd_asca _ _ _ _ _ G) i d Hi). unfold g_next. lia. }
  assert (Hu32 : forall i d, In (i, d) pl -> (N.of_nat i <= u32_max)%N) by (intros i d Hi; specialize (Hlt i d Hi); lia).
  assert (Hu32a : forall i d, In (i, d) ar -> (N.of_nat i <= u32_max)%N) by (intros i d Hi; specialize (Hlta i d Hi); lia).
  assert (Fail : forall fl', exists q', (Err : res inner, fw q fl') = (Err, fw q' fl') /\ same_env q q' /\ DG q' pl ar created
                                        /\ (N.of_nat (g_next pl ar + B) <= u32_max)%N).
  { intros fl'. exists q. split; [reflexivity|]. split; [apply same_env_refl; exact Q|]. split; [exact D | lia]. }
  rewrite (initialize_unfold_g k (fw q fl) Hk Hrot). unfold init_naming, index_for_rcurrent, with_listing. rewrite tick_fw.
  unfold g_init_res. destruct (pop fl) as [f1 fl1]. cbn [fst snd]. destruct f1; [cbn [bind]; apply Fail|].
  cbv beta. rewrite (fixed_of_fixed0 c (fw q fl1) Hts). change (woff (fw q fl1)) with (woff q). change (wfs (fw q fl1)) with (wfs q).
  rewrite (highest_index_hdir c Hsfx (wfs q) (woff q) pl ar o G Hu32 Hu32a).
  set (idx := g_next pl ar) in *.
  assert (R : exists q1, same_env q q1 /\
    (if negb (c_append c)
     then let '(r, w1) := p_rename (fw q fl1) (name_of c (fw q fl1) (Some cur_infix)) (name_of c (fw q fl1) (Some (number_infix (N.of_nat idx)))) in
          match r with ROk => (Ok (N.of_nat idx + 1)%N, w1) | RNotFound => (Ok (N.of_nat idx), w1) | RErr => (Err, w1) end
     else (Ok (N.of_nat idx), fw q fl1))
    = (let '(f2, fl2) := if c_append c then (false, fl1) else pop fl1 in
       if f2 then (Err, fw q fl2)
       else (Ok (N.of_nat (if c_append c then idx else if created then S idx else idx)), fw q1 fl2))
    /\ DG q1 (if c_append c then pl else if created then pl ++ [(idx, [])] else pl) ar (if c_append c then created else false)
    /\ ((if c_append c then created else false) = true -> c_append c = true)
    /\ (forall i e, In (i, e) (if c_append c then pl else if created then pl ++ [(idx, [])] else pl) ->
                    i < (if c_append c then idx else if created then S idx else idx))
    /\ (N.of_nat (g_next (if c_append c then pl else if created then pl ++ [(idx, [])] else pl) ar + B) <= u32_max)%N).
  { destruct (c_append c) eqn:Happ; cbn [negb].
    - exists q. split; [apply same_env_refl; exact Q|]. split; [reflexivity|]. split; [exact D|]. split; [intros _; reflexivity|].
      split; [exact Hlt | fold idx; lia].
    - rewrite !(name_of_fixed c (fw q fl1)) by exact Hts. fold (nm c cur_infix) (cname c). fold (nm c (number_infix (N.of_nat idx))).
      rewrite p_rename_fw by exact Q. destruct created.
      + destruct Ho as (j & -> & Cj). destruct (hdir_rename c (wfs q) pl ar j idx G Hlt) as (f1 & Er & Ei & G1 & L1). rewrite Cj in G1.
        unfold rname in Er. rewrite Er. exists (set_fs q f1). split; [apply same_env_set_fs; exact Q|].
        split. { destruct (pop fl1) as [f2 fl2]. cbn [fst snd]. destruct f2; [reflexivity|]. f_equal. f_equal. lia. }
        split; [exists None; split; [exact G1 | reflexivity]|]. split; [discriminate|].
        split. { intros i e Hi. apply in_app_or in Hi. destruct Hi as [Hi|[E|[]]]; [specialize (Hlt _ _ Hi); lia | injection E as <- _; lia]. }
        unfold g_next. rewrite next_idx_snoc. fold idx in Hbd. unfold idx, g_next in *. lia.
      + subst o. pose proof (hd_cur _ _ _ _ _ G) as Lc. cbn beta iota in Lc. rewrite (rename_none _ _ (nm c (number_infix (N.of_nat idx))) Lc).
        exists q. split; [apply same_env_refl; exact Q|].
        split. { destruct (pop fl1) as [f2 fl2]. cbn [fst snd]. destruct f2; reflexivity. }
        split; [exact D|]. split; [discriminate|]. split; [exact Hlt | fold idx; lia]. }
  destruct R as (q1 & S1 & ER & D1 & Hca1 & Hb1 & Hbd1). rewrite ER. clear ER.
  destruct (if c_append c then (false, fl1) else pop fl1) as [f2 fl2]. destruct f2; [cbn [bind]; apply Fail|]. cbn [bind].
  cbn [ns_filter naming_writes_direct].
  pose proof (init_tail_gw B q1 fl2 _ ar _ _ (proj1 S1) D1 Hca1 Hb1 Hbd1) as T.
  destruct (g_init_tail (c_append c) _ ar _ _ fl2) as [[[[pl' ar'] cr] [idx'|]] fl'].
  - destruct T as (q' & wr & E & S & A). exists q', wr. split; [exact E|]. split; [eapply same_env_trans; eassumption | exact A].
  - destruct T as (q' & E & S & D' & Hbd'). exists q'. split; [exact E|]. split; [eapply same_env_trans; eassumption|]. split; assumption.
Qed.

(* one record on a writer that is not initialised *)
Lemma init_stepg B x pl ar created errs fl b : FInvG (S B) x (GInit pl ar created) errs fl ->
  let '(st', e, fl') := g_init (c_append c) m ll total pl ar created b fl in
  exists x' rot, step x (OWrite b) = (x', ObsRes 0 rot) /\ FInvG B x' st' (errs ++ e) fl'.
Proof.
  intros [q [Ew [Q [Ha [He [Ht [Es [D Hbd]]]]]]]]. rewrite g_init_alt.
  pose proof (initialize_gw B q fl pl ar created Q D Hbd) as IF.
  destruct (g_init_res (c_append c) pl ar created fl) as [[[[pl' ar'] cr] [idx1|]] fl'].
  - destruct IF as [q' [wr [Ei [S A]]]].
    set (x1 := {| s_flw := Some (flwg (actg (N.of_nat idx1) 0 wr)); s_w := fw q' fl'; s_tl := []; s_dead := s_dead x |}).
    assert (E : step x (OWrite b) = step x1 (OWrite b)).
    { apply (stepg_write_eq x x1 Initial (actg (N.of_nat idx1) 0 wr) b Es eq_refl Ht eq_refl eq_refl). rewrite Ew. cbn [x1 s_w].
      exact (write_buffer_init c (fw q fl) b _ wr (cname c) (fw q' fl') Ei). }
    rewrite E.
    apply (active_stepg B x1 false q' fl' errs pl' ar' idx1 [] wr b eq_refl (proj1 S)).
    + exact (same_env_acts _ _ S Ha).
    + destruct S as [_ [_ [_ [H _]]]]. congruence.
    + reflexivity.
    + reflexivity.
    + exact A.
  - destruct IF as [q' [Ei [S [D' Hbd']]]].
    assert (E : write_buffer (flwg Initial) (s_w x) b = (Err, fw q' fl', flwg Initial, false)).
    { rewrite Ew. unfold write_buffer. cbn [flwg f_cfg f_inner]. rewrite Ei. reflexivity. }
    eexists _, _. split; [apply (stepg_write x Initial b Err _ Initial false Es Ht E); discriminate|].
    destruct (report_reported EWrite q' (proj1 S)) as [R4 F4].
    pose proof (reported_trans _ _ _ _ _ (same_env_reported _ _ S) R4) as RR. cbn [app] in RR.
    exists (report EWrite q'). cbn [s_w s_tl s_flw].
    split; [apply report_fw; apply S|]. split; [apply R4|]. split; [exact (reported_acts _ _ _ RR Ha)|].
    split; [exact (reported_errs _ _ _ _ RR He)|]. split; [reflexivity|]. split; [reflexivity|].
    split; [|exact Hbd']. unfold DG in *. rewrite F4. exact D'.
Qed.

Theorem gfstep B x st errs fl b : FInvG (S B) x st errs fl ->
  let '(st', e, fl') := gstep (c_append c) m ll total st fl b in
  exists x' rot, step x (OWrite b) = (x', ObsRes 0 rot) /\ FInvG B x' st' (errs ++ e) fl'.
Proof.
  intros I. destruct st as [pl ar created|pl ar idx d|pl ar idx d]; cbn [gstep].
  - apply init_stepg. exact I.
  - destruct I as [q [Ew [Q [Ha [He [Ht [wr [Es A]]]]]]]]. exact (active_stepg B x false q fl errs pl ar idx d wr b Ew Q Ha He Ht Es A).
  - destruct I as [q [Ew [Q [Ha [He [Ht [wr [Es A]]]]]]]]. exact (active_stepg B x true q fl errs pl ar idx d wr b Ew Q Ha He Ht Es A).
Qed.

Theorem gfrun : forall recs x st errs fl, FInvG (length recs) x st errs fl ->
  let '(st', e, fl') := simg_st (c_append c) m ll total st fl recs in
  exists x' obs, run x (List.map OWrite recs) = (x', obs) /\ FInvG 0 x' st' (errs ++ e) fl' /\ Forall obs_normal obs.
Proof.
  induction recs as [|b rest IH]; intros x st errs fl I; cbn [simg_st List.map run length] in *.
  - exists x, []. rewrite app_nil_r. split; [reflexivity|]. split; [exact I | constructor].
  - pose proof (gfstep (length rest) x st errs fl b I) as S. destruct (gstep (c_append c) m ll total st fl b) as [[st1 e1] fl1].
    destruct S as [x1 [rot [S1 I1]]]. specialize (IH x1 st1 (errs ++ e1) fl1 I1).
    destruct (simg_st (c_append c) m ll total st1 fl1 rest) as [[st2 e2] fl2]. destruct IH as [x2 [obs [R [I2 O]]]].
    exists x2, (ObsRes 0 rot :: obs). rewrite S1, R. split; [reflexivity|]. split; [rewrite app_assoc; exact I2|].
    constructor; [exists rot; reflexivity | exact O].
Qed.

(* what a reader finds: exactly the plain closed files r<i> with their contents, the complete archives r<i>.gz with what
   gunzip yields, rCURRENT with its content or no rCURRENT, nothing else *)
Definition hview (f : fs) (pl ar : cdir) (ocur : option bytes) : Prop :=
  fs_wf f /\ asc pl /\ asc ar
  /\ (forall i d, In (i, d) pl -> exists j, lookup f (rname c i) = Some j /\ plain (inode f j) /\ content f j = d)
  /\ (forall i g, In (i, g) ar ->
        exists j, lookup f (gname c i) = Some j /\ fdata (inode f j) = g /\ fgz (inode f j) = 1%N /\ fdir (inode f j) = false)
  /\ match ocur with
     | Some d => exists j, lookup f (cname c) = Some j /\ plain (inode f j) /\ content f j = d
     | None => lookup f (cname c) = None
     end
  /\ (forall nm j, lookup f nm = Some j ->
        nm = cname c \/ (exists i d, In (i, d) pl /\ nm = rname c i) \/ (exists i g, In (i, g) ar /\ nm = gname c i)).

Lemma hdir_hview f pl ar o ocur : hdir c f pl ar o ->
  match ocur, o with
  | Some d, Some j => content f j = d
  | None, None => True
  | _, _ => False
  end -> hview f pl ar ocur.
Proof.
  intros G H. split; [exact (hd_wf _ _ _ _ _ G)|]. split; [exact (hd_ascp _ _ _ _ _ G)|]. split; [exact (hd_asca _ _ _ _ _ G)|].
  split; [exact (hd_plain _ _ _ _ _ G)|]. split; [exact (hd_arch _ _ _ _ _ G)|].
  split; [|exact (hd_only _ _ _ _ _ G)]. pose proof (hd_cur _ _ _ _ _ G) as Hc.
  destruct ocur as [d|], o as [j|]; try contradiction; [destruct Hc as [L P]; exists j; auto | exact Hc].
Qed.

Lemma finvg_final B x st errs fl : FInvG B x st errs fl ->
  hview (wfs (s_w x)) (g_plain st) (g_arch st) (g_cur st)
  /\ werrs (s_w x) = errs /\ wfaults (s_w x) = fl /\ wkill (s_w x) = None.
Proof.
  intros [q [Ew [Q [Ha [He [Ht I]]]]]]. rewrite Ew. cbn [fw set_faults wfs werrs wfaults wkill].
  split; [|split; [exact He | split; [reflexivity | apply Q]]].
  destruct st as [pl ar created|pl ar idx d|pl ar idx d]; cbn [g_plain g_arch g_cur].
  - destruct I as [_ [(o & G & Ho) _]]. apply (hdir_hview _ _ _ o); [exact G|]. destruct created.
    + destruct Ho as (j & -> & Cj). exact Cj.
    + subst o. exact I.
  - destruct I as [wr [_ (_ & _ & _ & G & C)]]. apply (hdir_hview _ _ _ (Some (wino wr))); assumption.
  - destruct I as [wr [_ (_ & _ & _ & G & L)]]. apply (hdir_hview _ _ _ None); [exact G | exact I].
Qed.

Lemma finvg_start B t0 off fl : (N.of_nat B <= u32_max)%N ->
  FInvG B (fst (step {| s_flw := None; s_w := set_faults (world0 t0 off) fl; s_tl := []; s_dead := false |} (OStart c))) (GInit [] [] false) [] fl.
Proof.
  intros HB. exists (world0 t0 off). split; [reflexivity|]. split; [split; reflexivity|]. split; [reflexivity|]. split; [reflexivity|].
  split; [reflexivity|]. split; [reflexivity|]. split; [|exact HB].
  exists None. split; [|reflexivity]. constructor.
  - exact wf_empty.
  - constructor.
  - constructor.
  - constructor.
  - intros i d [].
  - intros i d [].
  - reflexivity.
  - intros nm j H. discriminate H.
Qed.

End G.

(* ------------------------------------------------------------------ the theorem *)
(* For every fault oracle fl and every list of records: after  OStart c :: map OWrite recs  from the empty directory with
   the oracle fl, the directory is exactly what simg says - the plain closed files, the archives (complete gzip files,
   what gunzip yields), rCURRENT or no rCURRENT, nothing else -, the error channel holds exactly the errors simg lists,
   the oracle is consumed as simg says, and every log call (and the start) returns normally *)
Theorem faults_rotation_gz c m k ll cl t0 off fl recs :
  numkcfg c (CSize m) k -> klim k = Some (ll, cl) -> c_cap c = None -> sfx_ok (c_spec c) ->
  (N.of_nat (length recs) <= u32_max)%N ->
  let r := run (fsys t0 off fl) (OStart c :: List.map OWrite recs) in
  let '(plain, archives, ocur, errs, rest) := simg (c_append c) m ll (ll + cl) fl recs in
  hview c (wfs (s_w (fst r))) plain archives ocur
  /\ werrs (s_w (fst r)) = errs
  /\ wfaults (s_w (fst r)) = rest
  /\ (forall o, In o (snd r) -> exists rot, o = ObsRes 0 rot).
Proof.
  intros Hcfg Hk Hcap Hsfx HB. cbv zeta. unfold simg.
  pose proof (finvg_start c m k (length recs) t0 off fl HB) as I0. fold (fsys t0 off fl) in I0.
  pose proof (gfrun c m k ll cl Hcfg Hk Hcap Hsfx recs _ _ _ _ I0) as R.
  destruct (simg_st (c_append c) m ll (ll + cl) (GInit [] [] false) fl recs) as [[st e] fl'].
  destruct R as [x' [obs [R [I O]]]]. cbn [app] in I.
  assert (Rn : run (fsys t0 off fl) (OStart c :: List.map OWrite recs) = (x', ObsRes 0 false :: obs)).
  { cbn [run]. destruct (step (fsys t0 off fl) (OStart c)) as [x1 ob] eqn:E1.
    assert (ob = ObsRes 0 false) by (unfold fsys in E1; cbv in E1; injection E1 as _ <-; reflexivity).
    cbn [fst] in R. rewrite R. subst ob. reflexivity. }
  rewrite Rn. cbn [fst snd].
  destruct (finvg_final c m k 0 x' st e fl' I) as [V [He [Hf _]]].
  split; [exact V|]. split; [exact He|]. split; [exact Hf|].
  intros o [<-|Ho]; [eexists; reflexivity|]. rewrite Forall_forall in O. exact (O o Ho).
Qed.
Print Assumptions faults_rotation_gz.

(* record by record (see FaultGzSpec.lost_only_around_failures_g): the log - the contents of the files closed for good, then
   the writer's file - is the concatenation of the records that were kept; every plain closed file and every archive in
   the directory is a closed file of the log with its content, or empty; a record is missing only if its own log call
   consumed a failing entry, and is then reported with EWrite *)
Theorem faults_rotation_gz_trace c m k ll cl t0 off fl recs :
  numkcfg c (CSize m) k -> klim k = Some (ll, cl) -> c_cap c = None -> sfx_ok (c_spec c) ->
  (N.of_nat (length recs) <= u32_max)%N ->
  let x := fst (run (fsys t0 off fl) (OStart c :: List.map OWrite recs)) in
  let t := gtrace (c_append c) m ll (ll + cl) (GInit [] [] false) fl recs in
  let lg := glog (c_append c) m ll (ll + cl) (GInit [] [] false) fl recs in
  exists st,
    hview c (wfs (s_w x)) (g_plain st) (g_arch st) (g_cur st)
    /\ concat (List.map snd lg) ++ g_wcur st = concat (List.map t_kept t)
    /\ (forall p, In p (g_pl st) \/ In p (g_arch st) -> In p lg \/ snd p = [])
    /\ List.map t_rec t = recs
    /\ werrs (s_w x) = concat (List.map t_errs t)
    /\ fl = concat (List.map t_used t) ++ wfaults (s_w x)
    /\ (forall e, In e t -> length (t_errs e) = ntrue (t_used e))
    /\ (forall e, In e t -> (forall f, In f (t_used e) -> f = false) -> t_errs e = [] /\ t_kept e = t_rec e)
    /\ (forall e, In e t -> t_kept e <> t_rec e -> In true (t_used e) /\ In EWrite (t_errs e)).
Proof.
  intros Hcfg Hk Hcap Hsfx HB. cbv zeta.
  pose proof (faults_rotation_gz c m k ll cl t0 off fl recs Hcfg Hk Hcap Hsfx HB) as Fr. cbv zeta in Fr. unfold simg in Fr.
  pose proof (lost_only_around_failures_g (c_append c) m ll (ll + cl) fl recs) as L.
  destruct (simg_st (c_append c) m ll (ll + cl) (GInit [] [] false) fl recs) as [[st e] fl']. cbv zeta in L.
  destruct Fr as [V [He [Hf _]]]. destruct L as [H1 [H2 [H3 [H4 [H5 [H6 [H7 H8]]]]]]].
  exists st. rewrite He, Hf. split; [exact V|]. split; [exact H4|]. split; [exact H5|]. split; [exact H1|]. split; [exact H3|].
  split; [exact H2|]. auto.
Qed.
Print Assumptions faults_rotation_gz_trace.

Theorem faults_rotation_gz_stream c m k ll cl t0 off fl recs :
  numkcfg c (CSize m) k -> klim k = Some (ll, cl) -> c_cap c = None -> sfx_ok (c_spec c) ->
  (N.of_nat (length recs) <= u32_max)%N ->
  let x := fst (run (fsys t0 off fl) (OStart c :: List.map OWrite recs)) in
  exists st kept,
    hview c (wfs (s_w x)) (g_plain st) (g_arch st) (g_cur st)
    /\ concat (List.map snd (glog (c_append c) m ll (ll + cl) (GInit [] [] false) fl recs)) ++ g_wcur st = concat kept
    /\ Subseq kept recs
    /\ length recs = length kept + nlost (werrs (s_w x))
    /\ nlost (werrs (s_w x)) <= length (werrs (s_w x)).
Proof.
  intros Hcfg Hk Hcap Hsfx HB. cbv zeta.
  pose proof (faults_rotation_gz c m k ll cl t0 off fl recs Hcfg Hk Hcap Hsfx HB) as Fr. cbv zeta in Fr. unfold simg in Fr.
  pose proof (loss_is_reported_g (c_append c) m ll (ll + cl) recs (GInit [] [] false) fl) as L.
  destruct (simg_st (c_append c) m ll (ll + cl) (GInit [] [] false) fl recs) as [[st e] fl'].
  destruct Fr as [V [He _]]. destruct L as [kept [Hs [Hst [Hl Hle]]]].
  exists st, kept. rewrite He. split; [exact V|]. split; [exact Hst|]. auto.
Qed.
Print Assumptions faults_rotation_gz_stream.

(* THE LIMITS ARE RESTORED, at the level of the run: when the oracle has been used up by recs1 and the next log call
   initialises or rotates, then after it and whatever records follow: the writer is on rCURRENT, at most ll plain closed
   files and at most ll + cl closed files (plain and archives) exist, and nothing more has been reported *)
Theorem gz_limit_restored c m k ll cl t0 off fl recs1 b recs2 :
  numkcfg c (CSize m) k -> klim k = Some (ll, cl) -> c_cap c = None -> sfx_ok (c_spec c) ->
  (N.of_nat (length (recs1 ++ b :: recs2)) <= u32_max)%N ->
  let '(st1, e1, fl1) := simg_st (c_append c) m ll (ll + cl) (GInit [] [] false) fl recs1 in
  all_false fl1 -> grotates m st1 = true ->
  let x := fst (run (fsys t0 off fl) (OStart c :: List.map OWrite (recs1 ++ b :: recs2))) in
  exists pl ar d, hview c (wfs (s_w x)) pl ar (Some d) /\ length pl <= ll /\ length pl + length ar <= ll + cl /\ werrs (s_w x) = e1.
Proof.
  intros Hcfg Hk Hcap Hsfx HB.
  pose proof (faults_rotation_gz c m k ll cl t0 off fl (recs1 ++ b :: recs2) Hcfg Hk Hcap Hsfx HB) as Fr. cbv zeta in Fr. unfold simg in Fr.
  rewrite simg_st_app in Fr.
  pose proof (simg_st_pending (c_append c) m ll (ll + cl) recs1 (GInit [] [] false) fl I) as P1.
  destruct (simg_st (c_append c) m ll (ll + cl) (GInit [] [] false) fl recs1) as [[st1 e1] fl1] eqn:E1. cbn [fst] in P1.
  intros Hf Hr. cbv zeta.
  assert (Hr' : grotates m (fst (fst (simg_st (c_append c) m ll (ll + cl) st1 fl1 []))) = true) by exact Hr.
  pose proof (gz_limit_restored_spec (c_append c) m ll (ll + cl) [] b recs2 st1 fl1 (Nat.le_add_r ll cl) Hf P1 Hr') as R. cbn [app] in R.
  destruct (simg_st (c_append c) m ll (ll + cl) st1 fl1 (b :: recs2)) as [[st2 e2] fl2].
  destruct R as [-> [_ [[L1 L2] (pl & ar & idx & d & ->)]]]. destruct Fr as [V [He _]].
  exists pl, ar, d. split; [exact V|]. split; [exact L1|]. split; [exact L2|]. rewrite He, app_nil_r. reflexivity.
Qed.
Print Assumptions gz_limit_restored.

(* ------------------------------------------------------------------ the statement, computed on examples *)
Import String.StringSyntax.
Open Scope string_scope.
Definition gx_cfg (app : bool) (m : N) (k : cleanup) : config :=
  {| c_spec := {| fbase := bs "app"; fdisc := None; fts := false; fsfx := Some (bs "log") |};
     c_append := app; c_cap := None; c_rot := Some (CSize m, NNumbers, k); c_utc := false;
     c_symlink := false; c_bg := false; c_async := false; c_start := None |}.
Lemma gx_numkcfg app m k : numkcfg (gx_cfg app m k) (CSize m) k /\ c_cap (gx_cfg app m k) = None /\ sfx_ok (c_spec (gx_cfg app m k)).
Proof. repeat split. Qed.

Definition gx_run (app : bool) (m : N) (k : cleanup) (fl : list bool) (recs : list bytes)
  : list (bytes * N * bytes) * list ecode * list bool * bool :=
  let r := run (fsys 0 0 fl) (OStart (gx_cfg app m k) :: List.map OWrite recs) in
  (snap_of (fst r), werrs (s_w (fst r)), wfaults (s_w (fst r)), forallb obs_normalb (snd r)).
(* the specification, as a directory sorted by name: plain files (kind 0), complete archives (kind 1) *)
Fixpoint ins_ent (x : bytes * N * bytes) (l : list (bytes * N * bytes)) : list (bytes * N * bytes) :=
  match l with [] => [x] | y :: r => if lex_le (fst (fst x)) (fst (fst y)) then x :: l else y :: ins_ent x r end.
Definition gx_sim (app : bool) (m : N) (k : cleanup) (fl : list bool) (recs : list bytes)
  : list (bytes * N * bytes) * list ecode * list bool * bool :=
  let '(ll, cl) := match klim k with Some p => p | None => (O, O) end in
  let '(pl, ar, ocur, e, rest) := simg app m ll (ll + cl) fl recs in
  (fold_right ins_ent [] (List.map (fun p => (rname (gx_cfg app m k) (fst p), 0%N, snd p)) pl
                          ++ List.map (fun p => (gname (gx_cfg app m k) (fst p), 1%N, snd p)) ar
                          ++ match ocur with Some d => [(cname (gx_cfg app m k), 0%N, d)] | None => [] end), e, rest, true).

Definition g0 := bs "app_r00000.log.gz".
Definition g1 := bs "app_r00001.log.gz".

(* size limit 3, KeepCompressedFiles 1, no append.  The first rotation compresses r00000: the fallible calls of the second
   record are  rename, create, [cleanup:] read_dir, [compress:] create .gz, open, copy, finish, remove, [then] write *)
Example gx_none : gx_run false 3 (KGz 1) [] (firstn 2 recs8) = ([(g0, 1%N, bs "abcd"); (rC, 0%N, bs "efgh")], [], [], true)
               /\ gx_sim false 3 (KGz 1) [] (firstn 2 recs8) = gx_run false 3 (KGz 1) [] (firstn 2 recs8).
Proof. split; vm_compute; reflexivity. Qed.
(* the creation of the archive fails: nothing has changed, reported (ELogFile), the record is written *)
Example gx_gz_create_fails :
  gx_run false 3 (KGz 1) [F;F;F;F;F; F;F;F; T] (firstn 2 recs8) = ([(r0, 0%N, bs "abcd"); (rC, 0%N, bs "efgh")], [ELogFile], [], true)
  /\ gx_sim false 3 (KGz 1) [F;F;F;F;F; F;F;F; T] (firstn 2 recs8) = gx_run false 3 (KGz 1) [F;F;F;F;F; F;F;F; T] (firstn 2 recs8).
Proof. split; vm_compute; reflexivity. Qed.
(* the open of the original fails: an EMPTY complete archive stays next to the original *)
Example gx_gz_open_fails :
  gx_run false 3 (KGz 1) [F;F;F;F;F; F;F;F; F;T] (firstn 2 recs8)
  = ([(r0, 0%N, bs "abcd"); (g0, 1%N, []); (rC, 0%N, bs "efgh")], [ELogFile], [], true)
  /\ gx_sim false 3 (KGz 1) [F;F;F;F;F; F;F;F; F;T] (firstn 2 recs8) = gx_run false 3 (KGz 1) [F;F;F;F;F; F;F;F; F;T] (firstn 2 recs8).
Proof. split; vm_compute; reflexivity. Qed.
(* the removal of the original fails: the full archive stays next to the original; nothing is lost ... *)
Example gx_gz_remove_fails :
  gx_run false 3 (KGz 1) [F;F;F;F;F; F;F;F; F;F;F;F;T] (firstn 2 recs8)
  = ([(r0, 0%N, bs "abcd"); (g0, 1%N, bs "abcd"); (rC, 0%N, bs "efgh")], [ELogFile], [], true)
  /\ gx_sim false 3 (KGz 1) [F;F;F;F;F; F;F;F; F;F;F;F;T] (firstn 2 recs8) = gx_run false 3 (KGz 1) [F;F;F;F;F; F;F;F; F;F;F;F;T] (firstn 2 recs8)
  /\ simg false 3 0 1 [F;F;F;F;F; F;F;F; F;F;F;F;T] (firstn 2 recs8) = ([(0%nat, bs "abcd")], [(0%nat, bs "abcd")], Some (bs "efgh"), [ELogFile], []).
Proof. split; [vm_compute; reflexivity|]. split; vm_compute; reflexivity. Qed.
(* ... and the next cleanup (oracle used up) removes the redundant archive, compresses r00001 (the newest plain file comes
   first in the listing) and removes r00000: the limit holds again *)
Example gx_gz_limit_restored :
  gx_run false 3 (KGz 1) [F;F;F;F;F; F;F;F; F;F;F;F;T] (firstn 3 recs8) = ([(g1, 1%N, bs "efgh"); (rC, 0%N, bs "ijkl")], [ELogFile], [], true)
  /\ gx_sim false 3 (KGz 1) [F;F;F;F;F; F;F;F; F;F;F;F;T] (firstn 3 recs8) = gx_run false 3 (KGz 1) [F;F;F;F;F; F;F;F; F;F;F;F;T] (firstn 3 recs8).
Proof. split; vm_compute; reflexivity. Qed.
Example gx_gz_limit_restored_hyps :
  let '(st1, e1, fl1) := simg_st false 3 0 1 (GInit [] [] false) [F;F;F;F;F; F;F;F; F;F;F;F;T] (firstn 2 recs8) in
  fl1 = [] /\ grotates 3 st1 = true /\ e1 = [ELogFile].
Proof. vm_compute. repeat split. Qed.
(* AT THE INITIALISATION a failure inside the cleanup loses the record, as with KeepLogFiles *)
Example gx_init_cleanup_fails_loses_record :
  gx_run false 3 (KGz 1) [F;F;F;T] [bs "abcd"] = ([(rC, 0%N, [])], [EWrite], [], true)
  /\ gx_sim false 3 (KGz 1) [F;F;F;T] [bs "abcd"] = gx_run false 3 (KGz 1) [F;F;F;T] [bs "abcd"].
Proof. split; vm_compute; reflexivity. Qed.

(* run and specification agree on ALL fault oracles up to length 8, and on all oracles  false^k ++ (an oracle up to
   length 8)  so that the failures reach the compressions and removals of the later cleanups *)
Definition gagree (app : bool) (m : N) (k : cleanup) (recs : list bytes) (fl : list bool) : bool :=
  let '(d1, e1, f1, ok1) := gx_run app m k fl recs in
  let '(d2, e2, f2, ok2) := gx_sim app m k fl recs in
  leqb ent_eqb d1 d2 && leqb ec_eqb e1 e2 && leqb Bool.eqb f1 f2 && Bool.eqb ok1 ok2.
Example gx_agree_all :
  forallb (gagree false 3 (KGz 1) recs8) (all_lists 8) = true
  /\ forallb (gagree true 3 (KLogGz 1 1) recs8) (all_lists 8) = true
  /\ forallb (gagree false 3 (KLog 1) recs8) (all_lists 8) = true.
Proof. split; [vm_compute; reflexivity|]. split; vm_compute; reflexivity. Qed.
Example gx_agree_shifted :
  forallb (fun s => forallb (gagree false 3 (KGz 1) recs8) (shifted s 8)) [8; 12; 16]%nat = true
  /\ forallb (fun s => forallb (gagree false 3 (KLogGz 1 1) recs8) (shifted s 8)) [12; 16; 20]%nat = true
  /\ forallb (fun s => forallb (gagree true 3 (KGz 2) recs8) (shifted s 8)) [12; 16]%nat = true.
Proof. split; [vm_compute; reflexivity|]. split; vm_compute; reflexivity. Qed.
