(* Timestamps naming: the reader order of Oracles/ReaderOrder.v (time stamp, then restart counter, rCURRENT last), applied
   to the snapshot of the directory that a stopped writer leaves, is the order in which the files were closed. *)
Require Import FL.Base.Bytes FL.Base.BytesFacts FL.Base.PathName FL.Fs.Fs FL.Fs.FsFacts FL.Time.Civil FL.Time.TsFormat
  FL.Names.FileSpec FL.Names.NamesFacts FL.Names.SortFacts FL.Names.FamilyFacts FL.Flw.Model FL.Flw.ModelFacts FL.Flw.NumFs
  FL.Flw.NumInv FL.Flw.Run FL.Flw.NumRun FL.Oracles.O_Flw FL.Oracles.ReaderOrder FL.Flw.NumTheorems FL.Flw.NumListing FL.Flw.NumRestart
  FL.Flw.TsCal FL.Flw.TsTime FL.Flw.TsMono FL.Flw.TsNames FL.Flw.TsInv FL.Flw.TsRun FL.Flw.TsTheorems.
From Coq Require Import ZifyN ZifyNat ZifyBool Sorted.
Open Scope nat_scope.

(* ------------------------------------------------------------------ insertion sort of keyed entries *)
Section Sorting.
Variable A : Type.
Variable nm_of : rkey * A -> bytes.
Definition before (a b : rkey * A) : Prop := key_lt (fst a) (fst b) = true /\ key_lt (fst b) (fst a) = false.

Lemma insert_filter L : StronglySorted before L -> NoDup (List.map nm_of L) ->
  forall x P, In x L -> P (nm_of x) = false ->
  insert_key x (filter (fun a => P (nm_of a)) L) = filter (fun a => P (nm_of a) || beq (nm_of a) (nm_of x)) L.
Proof.
  induction 1 as [|y L' HS IH HF]; intros ND x P Hin HP; [destruct Hin|].
  cbn [List.map] in ND. apply NoDup_cons_iff in ND. destruct ND as [Hy ND].
  assert (Hother : forall a, In a L' -> beq (nm_of a) (nm_of y) = false).
  { intros a Ia. apply beq_neq. intros E. apply Hy. rewrite <- E. apply in_map. exact Ia. }
  destruct Hin as [<-|Hin].
  - cbn [filter]. rewrite HP, beq_refl. cbn [orb].
    assert (E : filter (fun a => P (nm_of a) || beq (nm_of a) (nm_of y)) L' = filter (fun a => P (nm_of a)) L').
    { apply filter_ext_in. intros a Ia. rewrite (Hother a Ia), orb_false_r. reflexivity. }
    rewrite E. destruct (filter (fun a => P (nm_of a)) L') as [|h r] eqn:Ef; [reflexivity|].
    assert (Ih : In h L'). { assert (X : In h (h :: r)) by (left; reflexivity). rewrite <- Ef in X. apply filter_In in X. apply X. }
    rewrite Forall_forall in HF. destruct (HF h Ih) as [_ Hlt]. cbn [insert_key]. rewrite Hlt. reflexivity.
  - assert (Hxy : beq (nm_of y) (nm_of x) = false).
    { rewrite beq_sym. apply Hother. exact Hin. }
    rewrite Forall_forall in HF. destruct (HF x Hin) as [Hlt _].
    cbn [filter]. rewrite Hxy, orb_false_r. destruct (P (nm_of y)).
    + cbn [insert_key]. rewrite Hlt. rewrite (IH ND x P Hin HP). reflexivity.
    + apply (IH ND x P Hin HP).
Qed.

Lemma sort_keys_filter L : StronglySorted before L -> NoDup (List.map nm_of L) ->
  forall l, (forall x, In x l -> In x L) -> NoDup (List.map nm_of l) ->
  sort_keys l = filter (fun a => existsb (beq (nm_of a)) (List.map nm_of l)) L.
Proof.
  intros HS ND. induction l as [|x l IH]; intros Hsub NDl.
  - cbn [sort_keys fold_right List.map existsb]. clear. induction L as [|y L' IHL]; [reflexivity | exact IHL].
  - cbn [List.map] in NDl. apply NoDup_cons_iff in NDl. destruct NDl as [Hx NDl].
    change (sort_keys (x :: l)) with (insert_key x (sort_keys l)).
    rewrite IH by (auto; intros y Iy; apply Hsub; right; exact Iy).
    rewrite (insert_filter L HS ND x (fun n => existsb (beq n) (List.map nm_of l))).
    + apply filter_ext. intros a. cbn [List.map existsb]. apply orb_comm.
    + apply Hsub. left. reflexivity.
    + destruct (existsb (beq (nm_of x)) (List.map nm_of l)) eqn:E; [|reflexivity]. exfalso. apply Hx.
      apply existsb_exists in E. destruct E as [n [In_ En]]. apply beq_eq in En. subst n. exact In_.
Qed.

Lemma filter_true_all {B} (p : B -> bool) l : (forall x, In x l -> p x = true) -> filter p l = l.
Proof. induction l as [|x l IH]; intros H; cbn [filter]; [reflexivity|]. rewrite (H x (or_introl eq_refl)), IH; [reflexivity|].
  intros y Iy. apply H. right. exact Iy. Qed.

(* a list of distinct members of a strictly sorted list L that covers L is sorted into L *)
Lemma sort_keys_target L l : StronglySorted before L -> NoDup (List.map nm_of L) ->
  (forall x, In x l -> In x L) -> NoDup (List.map nm_of l) -> (forall a, In a L -> In (nm_of a) (List.map nm_of l)) ->
  sort_keys l = L.
Proof.
  intros HS ND Hsub NDl Hall. rewrite (sort_keys_filter L HS ND l Hsub NDl).
  apply filter_true_all. intros a Ia. apply existsb_exists. exists (nm_of a). split; [apply Hall, Ia | apply beq_refl].
Qed.
End Sorting.

(* ------------------------------------------------------------------ the reader's keys of the names *)
Definition rk (e : Z) (k : key) : rkey :=
  {| k_cur := false; k_main := tsx e (fst k); k_restart := match snd k with O => None | S m => Some (N.of_nat m) end |}.
Definition rcur : rkey := {| k_cur := true; k_main := cur_infix; k_restart := None |}.

Lemma key_of_cur : key_of (Some cur_infix) cur_infix = rcur.
Proof. vm_compute. reflexivity. Qed.

Lemma key_of_infix e k : in_years e (fst k) -> key_of (Some cur_infix) (infix_of e k) = rk e k.
Proof.
  intros H. unfold key_of, rk. rewrite (beq_neq _ _ (infix_of_not_cur e k H)).
  assert (Hc : contains restart_tag (tsx e (fst k)) = false) by (apply no_dot_no_tag; exact (tsx_no_dot e _ H)).
  unfold infix_of. destruct (snd k) as [|m].
  - unfold split_restart. apply contains_false_iff in Hc. rewrite Hc. reflexivity.
  - unfold split_restart, restart_infix. rewrite (sk_find_tag_app _ _ Hc), sk_firstn_app, sk_skipn_app, skipn_length_app.
    unfold pad_left. rewrite dec_value_zeros, dec_value_dec. reflexivity.
Qed.

Lemma shortlex_tsx e t t' : in_years e t -> in_years e t' -> shortlex_lt (tsx e t) (tsx e t') = lex_lt (tsx e t) (tsx e t').
Proof. intros H H'. unfold shortlex_lt. rewrite !tsx_length by assumption. reflexivity. Qed.

Lemma rk_lt e k k' : in_years e (fst k) -> in_years e (fst k') -> klt k k' ->
  key_lt (rk e k) (rk e k') = true /\ key_lt (rk e k') (rk e k) = false.
Proof.
  intros H H' L. unfold key_lt, rk. cbn [k_cur k_main k_restart]. rewrite !shortlex_tsx by assumption.
  destruct L as [L|[Et L]].
  - pose proof (tsx_mono e _ _ H H' L) as M. rewrite M, (lex_lt_asym _ _ M). cbn [orb]. split; [reflexivity|].
    assert (N0 : tsx e (fst k') <> tsx e (fst k)) by (intros E; rewrite E, lex_lt_irrefl in M; discriminate).
    rewrite (beq_neq _ _ N0). reflexivity.
  - rewrite Et, lex_lt_irrefl, beq_refl. cbn [orb andb]. unfold restart_lt.
    destruct (snd k) as [|a], (snd k') as [|b]; lia.
Qed.

Lemma rk_cur e k : key_lt (rk e k) rcur = true /\ key_lt rcur (rk e k) = false.
Proof. split; reflexivity. Qed.

(* ------------------------------------------------------------------ names are read back by the reader *)
(* the family's suffix does not itself end with ".gz" (the reader takes a trailing ".gz" for the mark of a compressed file) *)
Definition not_gz (c : config) : Prop :=
  match fsfx (c_spec c) with Some s => strip_suffix (dot :: gz_sfx) (dot :: s) = None | None => True end.

Lemma tsx_ends_digit e t : in_years e t -> exists X D, tsx e t = X ++ D /\ D <> [] /\ all_digits D = true.
Proof.
  intros H. destruct (tsx_text e t H) as [-> Ok]. unfold std_text.
  exists (114%N :: pad_dec 4 (cy (civil_of (t + e))) ++ 45%N :: pad_dec 2 (cmo (civil_of (t + e))) ++ 45%N :: pad_dec 2 (cd (civil_of (t + e)))
          ++ 95%N :: pad_dec 2 (ch (civil_of (t + e))) ++ 45%N :: pad_dec 2 (cmi (civil_of (t + e))) ++ [45%N]),
         (pad_dec 2 (cs (civil_of (t + e)))).
  split; [|split; [|apply pad_dec_digits]].
  - repeat (rewrite <- app_assoc || rewrite <- app_comm_cons). reflexivity.
  - unfold pad_dec, pad_left. intros E. apply app_eq_nil in E. exact (dec_nonempty _ (proj2 E)).
Qed.

Lemma infix_ends_digit e k : in_years e (fst k) -> exists X D, infix_of e k = X ++ D /\ D <> [] /\ all_digits D = true.
Proof.
  intros H. unfold infix_of. destruct (snd k) as [|m]; [apply tsx_ends_digit; exact H|].
  exists (tsx e (fst k) ++ restart_tag), (restart_digits (N.of_nat m)). unfold restart_infix. rewrite <- app_assoc.
  split; [reflexivity|]. split; [apply restart_digits_nonempty | apply restart_digits_all].
Qed.

Lemma full_infix_kname c e k : not_gz c -> in_years e (fst k) ->
  full_infix (c_spec c) (fixed0 c) (kname c e k) = Some (infix_of e k).
Proof.
  intros G H. unfold kname, nm. apply full_infix_as_name_parts; [apply infix_of_nonempty; exact H|].
  unfold not_gz in G. destruct (fsfx (c_spec c)); [exact G|].
  destruct (infix_ends_digit e k H) as [X [D [-> [Hne Hd]]]]. apply sk_gz_digits; assumption.
Qed.

Lemma full_infix_cname c : not_gz c -> full_infix (c_spec c) (fixed0 c) (cname c) = Some cur_infix.
Proof.
  intros G. unfold cname, nm. apply full_infix_as_name_parts; [apply cur_infix_nonempty|].
  unfold not_gz in G. destruct (fsfx (c_spec c)); [exact G | vm_compute; reflexivity].
Qed.

(* ------------------------------------------------------------------ sorted names *)
Lemma insert_name_in' x l y : In y (insert_name x l) <-> y = x \/ In y l.
Proof. induction l as [|z l IH]; cbn [insert_name]; [cbn; intuition|]. destruct (lex_le x z); cbn [In]; [intuition|]. rewrite IH. intuition. Qed.
Lemma sort_names_in' l y : In y (sort_names l) <-> In y l.
Proof. induction l as [|x l IH]; cbn [sort_names fold_right]; [tauto|]. fold (sort_names l). rewrite insert_name_in', IH. cbn [In]. intuition. Qed.
Lemma insert_name_nodup x l : ~ In x l -> NoDup l -> NoDup (insert_name x l).
Proof.
  induction l as [|z l IH]; intros Hx ND; cbn [insert_name]; [constructor; [intros []|constructor]|].
  destruct (lex_le x z); [constructor; assumption|].
  apply NoDup_cons_iff in ND. destruct ND as [Hz ND]. constructor.
  - rewrite insert_name_in'. intros [->|I]; [apply Hx; left; reflexivity | exact (Hz I)].
  - apply IH; [intros I; apply Hx; right; exact I | exact ND].
Qed.
Lemma sort_names_nodup l : NoDup l -> NoDup (sort_names l).
Proof.
  induction 1 as [|x l Hx ND IH]; [constructor|]. cbn [sort_names fold_right]. fold (sort_names l).
  apply insert_name_nodup; [rewrite sort_names_in'; exact Hx | exact IH].
Qed.

(* ------------------------------------------------------------------ the snapshot of the directory, in reader order *)
Definition snap_entry (f : fs) (n : bytes) : entry :=
  match file_of f n with Some fl => (n, (if fdir fl then 3 else fgz fl)%N, fdata fl) | None => (n, 0%N, []) end.
Definition snap_list (f : fs) : list entry := List.map (snap_entry f) (sort_names (dir_names f)).
Lemma snap_of_list x : snap_of x = snap_list (wfs (s_w x)).
Proof. reflexivity. Qed.

Definition ename (a : rkey * entry) : bytes := fst (fst (snd a)).

(* the closed files in the order of their closing, then the current file *)
Fixpoint target (c : config) (e : Z) (keys : list key) (closed : list bytes) (cur : bytes) : list (rkey * entry) :=
  match keys, closed with
  | k :: ks, d :: ds => (rk e k, (kname c e k, 0%N, d)) :: target c e ks ds cur
  | _, _ => [(rcur, (cname c, 0%N, cur))]
  end.

Lemma target_contents c e : forall keys closed cur, length keys = length closed ->
  contents (List.map snd (target c e keys closed cur)) = closed ++ [cur].
Proof.
  induction keys as [|k ks IH]; intros [|d ds] cur Hl; try discriminate; [reflexivity|].
  cbn [target List.map contents snd app]. unfold contents in IH. rewrite IH by (injection Hl as Hl; exact Hl). reflexivity.
Qed.

Lemma target_in c e : forall keys closed cur a, length keys = length closed ->
  (In a (target c e keys closed cur) <->
   a = (rcur, (cname c, 0%N, cur)) \/ exists i, i < length closed /\ a = (rk e (nth i keys kd), (kname c e (nth i keys kd), 0%N, nth i closed []))).
Proof.
  induction keys as [|k ks IH]; intros [|d ds] cur a Hl; try discriminate.
  - cbn [target In length]. split; [intros [<-|[]]; left; reflexivity | intros [->|[i [Hi _]]]; [left; reflexivity | lia]].
  - injection Hl as Hl. cbn [target In length]. rewrite (IH ds cur a Hl). split.
    + intros [<-|[->|[i [Hi ->]]]]; [right; exists 0; split; [lia | reflexivity] | left; reflexivity | right; exists (S i); split; [lia | reflexivity]].
    + intros [->|[i [Hi ->]]]; [right; left; reflexivity|]. destruct i as [|i]; [left; reflexivity | right; right; exists i; split; [lia | reflexivity]].
Qed.

Lemma sorted_nodup (L : list (rkey * entry)) : StronglySorted (before entry) L ->
  (forall a b, In a L -> In b L -> ename a = ename b -> fst a = fst b) -> NoDup (List.map ename L).
Proof.
  induction 1 as [|y L' HS IH HF]; intros Hinj; [constructor|]. cbn [List.map]. constructor.
  - intros I. apply in_map_iff in I. destruct I as [b [Eb Ib]]. rewrite Forall_forall in HF. destruct (HF b Ib) as [H1 H2].
    rewrite (Hinj b y (or_intror Ib) (or_introl eq_refl) Eb) in H1. rewrite (Hinj b y (or_intror Ib) (or_introl eq_refl) Eb) in H2. congruence.
  - apply IH. intros a b Ia Ib. apply Hinj; right; assumption.
Qed.

Lemma target_sorted c e cur : forall ks ds, length ks = length ds ->
  (forall i j, i < j < length ks -> klt (nth i ks kd) (nth j ks kd)) -> (forall k, In k ks -> in_years e (fst k)) ->
  StronglySorted (before entry) (target c e ks ds cur).
Proof.
  induction ks as [|k ks IH]; intros [|d ds] Hl Hs Hy; try discriminate.
  - cbn [target]. constructor; constructor.
  - injection Hl as Hl. cbn [target]. constructor.
    + apply IH; [exact Hl | | intros k' Ik; apply Hy; right; exact Ik].
      intros i j Hij. apply (Hs (S i) (S j)). cbn [length]. lia.
    + apply Forall_forall. intros a Ia. apply (target_in c e ks ds cur a Hl) in Ia. destruct Ia as [->|[i [Hi ->]]].
      * exact (rk_cur e k).
      * unfold before. cbn [fst]. apply rk_lt; [apply Hy; left; reflexivity | apply Hy; right; apply nth_In; lia |].
        apply (Hs 0 (S i)). cbn [length]. lia.
Qed.

Definition fam (sp : file_spec) (fixed n : bytes) : bytes := match full_infix sp fixed n with Some i => i | None => [] end.

Lemma family_entries_map sp fixed cur f : forall ns,
  (forall n, In n ns -> exists d i, snap_entry f n = (n, 0%N, d) /\ full_infix sp fixed n = Some i) ->
  family_entries sp fixed cur (List.map (snap_entry f) ns) = List.map (fun n => (key_of cur (fam sp fixed n), snap_entry f n)) ns.
Proof.
  induction ns as [|n ns IH]; intros H; [reflexivity|]. cbn [List.map family_entries].
  destruct (H n (or_introl eq_refl)) as [d [i [Es Ef]]]. rewrite Es. change (0 <? 2)%N with true. cbv iota. unfold fam at 1. rewrite Ef.
  rewrite IH by (intros m Im; apply H; right; exact Im). reflexivity.
Qed.

Lemma snap_entry_name f n : fst (fst (snap_entry f n)) = n.
Proof. unfold snap_entry. destruct (file_of f n); reflexivity. Qed.

Section Reader.
Variables (c : config) (crit : criterion) (e lo hi : Z) (f : fs) (keys : list key) (closed : list bytes) (cur : bytes).
Hypothesis Hcfg : tscfg c crit.
Hypothesis G : not_gz c.
Hypothesis Y : years_ok e lo hi.
Hypothesis Rg : forall k, In k keys -> (lo <= fst k <= hi)%Z.
Hypothesis K : keys_ok keys.
Hypothesis V : ts_view c e f keys closed cur.

Let Hlen : length keys = length closed. Proof. apply V. Qed.
Let Yk : forall k, In k keys -> in_years e (fst k).
Proof. intros k Ik. apply (years_in e lo hi _ Y). apply Rg, Ik. Qed.
Let Yi : forall i, i < length closed -> in_years e (fst (nth i keys kd)).
Proof. intros i Hi. apply Yk, nth_In. rewrite Hlen. exact Hi. Qed.

Let sp := c_spec c.
Let fixed := fixed0 c.
Let L := target c e keys closed cur.

Lemma plain_entry n j d : lookup f n = Some j -> plain (inode f j) -> content f j = d -> snap_entry f n = (n, 0%N, d).
Proof. intros Lj [Pg Pd] <-. unfold snap_entry, file_of. rewrite Lj, Pd, Pg. reflexivity. Qed.

(* what the snapshot says about a name of the directory *)
Lemma entry_of_name n : In n (dir_names f) ->
  (n = cname c /\ snap_entry f n = (n, 0%N, cur) /\ full_infix sp fixed n = Some cur_infix)
  \/ (exists i, i < length closed /\ n = kname c e (nth i keys kd) /\ snap_entry f n = (n, 0%N, nth i closed [])
                /\ full_infix sp fixed n = Some (infix_of e (nth i keys kd))).
Proof.
  intros I. apply dir_names_lookup in I. destruct I as [j Lj].
  destruct V as [_ [Hcl [[jc [Lc [Pc Cc]]] [Hon _]]]].
  destruct (Hon n j Lj) as [->|[i [Hi ->]]].
  - left. split; [reflexivity|]. split; [exact (plain_entry _ _ _ Lc Pc Cc) | apply full_infix_cname; exact G].
  - right. exists i. split; [exact Hi|]. split; [reflexivity|]. destruct (Hcl i Hi) as [j' [Lj' [Pj Cj]]].
    split; [exact (plain_entry _ _ _ Lj' Pj Cj) | apply full_infix_kname; [exact G | apply Yi; exact Hi]].
Qed.

Theorem ts_reader_order : family_in_order c (snap_list f) = closed ++ [cur].
Proof.
  unfold family_in_order, reader_order.
  assert (Ec : cur_infix_of c = Some cur_infix) by (unfold cur_infix_of; rewrite (proj1 Hcfg); reflexivity).
  rewrite Ec. change (fixed_name_part (c_spec c) []) with fixed. fold sp. unfold snap_list.
  set (ns := sort_names (dir_names f)).
  assert (Hns : forall n, In n ns -> In n (dir_names f)) by (intros n; apply sort_names_in').
  rewrite (family_entries_map sp fixed (Some cur_infix) f ns).
  2:{ intros n In_. destruct (entry_of_name n (Hns n In_)) as [[_ [Es Ef]]|[i [_ [_ [Es Ef]]]]]; eauto. }
  set (l := List.map (fun n => (key_of (Some cur_infix) (fam sp fixed n), snap_entry f n)) ns).
  assert (HS : StronglySorted (before entry) L).
  { apply target_sorted; [exact Hlen | exact (keys_sorted keys K) | exact Yk]. }
  assert (Enames : List.map ename l = ns).
  { unfold l. rewrite map_map. unfold ename. cbn [snd]. rewrite <- (map_id ns) at 2. apply map_ext. intros n. apply snap_entry_name. }
  assert (Etarget : sort_keys l = L).
  { apply (sort_keys_target entry ename L l HS).
    - apply sorted_nodup; [exact HS|]. intros a b Ia Ib E.
      apply (target_in c e keys closed cur a Hlen) in Ia. apply (target_in c e keys closed cur b Hlen) in Ib.
      destruct Ia as [->|[i [Hi ->]]], Ib as [->|[j [Hj ->]]]; unfold ename in E; cbn [fst snd] in E |- *.
      + reflexivity.
      + exfalso. exact (kname_not_cname c e _ (Yi j Hj) (eq_sym E)).
      + exfalso. exact (kname_not_cname c e _ (Yi i Hi) E).
      + apply kname_inj in E; [|apply Yi; assumption|apply Yi; assumption]. rewrite E. reflexivity.
    - intros x Ix. unfold l in Ix. apply in_map_iff in Ix. destruct Ix as [n [<- In_]].
      apply (target_in c e keys closed cur _ Hlen).
      destruct (entry_of_name n (Hns n In_)) as [[-> [Es Ef]]|[i [Hi [-> [Es Ef]]]]]; unfold fam; rewrite Ef, Es.
      + left. rewrite key_of_cur. reflexivity.
      + right. exists i. split; [exact Hi|]. rewrite key_of_infix by (apply Yi; exact Hi). reflexivity.
    - rewrite Enames. apply sort_names_nodup. apply V.
    - intros a Ia. rewrite Enames. apply sort_names_in', dir_names_lookup.
      apply (target_in c e keys closed cur a Hlen) in Ia.
      destruct V as [_ [Hcl [[jc [Lc _]] _]]].
      destruct Ia as [->|[i [Hi ->]]]; unfold ename; cbn [fst snd]; [eauto|]. destruct (Hcl i Hi) as [j [Lj _]]. eauto. }
  rewrite Etarget. apply target_contents. exact Hlen.
Qed.
End Reader.

Print Assumptions ts_reader_order.

(* ------------------------------------------------------------------ the C01 oracle on the snapshot of a run *)
Theorem timestamps_reader c crit t0 off ops :
  tscfg c crit -> tag_ok c -> not_gz c -> Forall basic_op ops -> Forall tick_ok ops ->
  (0 <= t0 + ts_e c off)%Z -> (t0 + elapsed ops + ts_e c off < sec_max)%Z -> (N.of_nat (length ops) <= usize_max)%N ->
  let x := fst (run (sys0 t0 off) (OStart c :: ops ++ [OStop])) in
  concat (family_in_order c (snap_of x)) = written ops
  /\ ((names (wfs (s_w x)) = [] /\ family_in_order c (snap_of x) = [])
      \/ exists keys closed cur, ts_view c (ts_e c off) (wfs (s_w x)) keys closed cur /\ keys_ok keys
                                 /\ family_in_order c (snap_of x) = closed ++ [cur]).
Proof.
  intros Hcfg T G Hb Htk Hlo Hhi Hmax x.
  pose proof (timestamps_stream c crit t0 off ops Hcfg T Hb Htk Hlo Hhi Hmax) as TS. cbv zeta in TS. fold x in TS.
  destruct TS as [[Hn Hw]|[keys [cl [cu [V [F [K Rg]]]]]]].
  - assert (E : family_in_order c (snap_of x) = []).
    { rewrite snap_of_list. unfold snap_list, dir_names. rewrite Hn. reflexivity. }
    rewrite E, Hw. split; [reflexivity | left; auto].
  - assert (Y : years_ok (ts_e c off) t0 (t0 + elapsed ops)) by (split; assumption).
    pose proof (ts_reader_order c crit _ _ _ _ keys cl cu Hcfg G Y Rg K V) as E. rewrite <- snap_of_list in E.
    split; [|right; exists keys, cl, cu; auto].
    rewrite E, concat_app. cbn [concat]. rewrite app_nil_r. exact F.
Qed.
Print Assumptions timestamps_reader.

Corollary timestamps_oracle_C01 c crit t0 off ops :
  tscfg c crit -> tag_ok c -> not_gz c -> Forall basic_op ops -> Forall tick_ok ops ->
  (0 <= t0 + ts_e c off)%Z -> (t0 + elapsed ops + ts_e c off < sec_max)%Z -> (N.of_nat (length ops) <= usize_max)%N ->
  oracle_C01 None (items false ops) (family_in_order c (snap_of (fst (run (sys0 t0 off) (OStart c :: ops ++ [OStop]))))) = true.
Proof.
  intros Hcfg T G Hb Htk Hlo Hhi Hmax. unfold oracle_C01.
  rewrite (proj1 (timestamps_reader c crit t0 off ops Hcfg T G Hb Htk Hlo Hhi Hmax)). cbn [app].
  rewrite items_written by exact Hb. apply beq_refl.
Qed.
Print Assumptions timestamps_oracle_C01.

(* ------------------------------------------------------------------ examples *)
Import String.StringSyntax.
Open Scope string_scope.

Lemma ext_c_not_gz : not_gz ext_c.
Proof. vm_compute. reflexivity. Qed.

(* the history of TsTheorems.ts_instance_dir: the reader finds the six files in the order of their closing *)
Example ts_reader_instance_computed :
  family_in_order ext_c (snap_of (fst (run (sys0 0 0) (OStart ext_c :: ext_ops ++ [OStop]))))
  = [bs "a"; bs "b"; bs "c"; bs "d"; bs "e"; bs "f"].
Proof. vm_compute. reflexivity. Qed.

Example ts_oracle_instance :
  oracle_C01 None (items false ext_ops) (family_in_order ext_c (snap_of (fst (run (sys0 0 0) (OStart ext_c :: ext_ops ++ [OStop]))))) = true.
Proof.
  apply (timestamps_oracle_C01 ext_c (CSize 100) 0 0 ext_ops ext_c_ok ext_c_tag_ok ext_c_not_gz ext_ops_basic ext_ops_ticks).
  - change (0 <= 0)%Z. lia.
  - change (1 < sec_max)%Z. unfold sec_max. lia.
  - vm_compute. discriminate.
Qed.

(* tick_ok is needed for the reader order: with the clock going backwards (TsTheorems.clock_backwards_order) the
   reader takes "c" before "b", and the stream is no longer the one written *)
Example clock_backwards_reader :
  family_in_order ext_c (snap_of (fst (run (sys0 0 0) (OStart ext_c :: back_ops ++ [OStop]))))
  = [bs "a"; bs "c"; bs "b"; bs "d"]
  /\ written back_ops = bs "abcd"
  /\ oracle_C01 None (items false back_ops)
       (family_in_order ext_c (snap_of (fst (run (sys0 0 0) (OStart ext_c :: back_ops ++ [OStop]))))) = false.
Proof. vm_compute. repeat split; reflexivity. Qed.

(* not_gz is needed: a family whose suffix is "gz" is not read back by the reader at all (it takes ".gz" for the mark of
   a compressed file and then misses the suffix) *)
Example gz_suffix_reader :
  family_in_order (ext_cfg (ex_sp "gz") false (CSize 100) None false)
    (snap_of (fst (run (sys0 0 0) (OStart (ext_cfg (ex_sp "gz") false (CSize 100) None false) :: [OWrite (bs "a"); OTrigger; OWrite (bs "b")] ++ [OStop]))))
  = []
  /\ snap_of (fst (run (sys0 0 0) (OStart (ext_cfg (ex_sp "gz") false (CSize 100) None false) :: [OWrite (bs "a"); OTrigger; OWrite (bs "b")] ++ [OStop])))
     = [ (bs "app_r1970-01-01_00-00-00.gz", 0%N, bs "a"); (bs "app_rCURRENT.gz", 0%N, bs "b") ].
Proof. vm_compute. split; reflexivity. Qed.
