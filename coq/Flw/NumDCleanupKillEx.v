(* NumbersDirect naming with a cleanup strategy, killed process (C11): examples.  All kill points of a small history are
   computed (vm_compute); the hypotheses of the theorem are met by a concrete history; the restart on every directory that
   a kill leaves is computed (no theorem yet). *)
Require Import FL.Base.Bytes FL.Base.BytesFacts FL.Base.PathName FL.Fs.Fs FL.Fs.FsFacts FL.Names.FileSpec FL.Flw.Model
  FL.Flw.ModelFacts FL.Flw.NumInv FL.Flw.Run FL.Flw.RunFacts FL.Flw.NumRun FL.Flw.NumKill FL.Flw.NumRestart FL.Flw.CleanupFacts
  FL.Flw.NumCleanupNames FL.Flw.NumCleanupStep FL.Flw.NumCleanup FL.Flw.NumCleanupKillDir FL.Flw.NumDCleanupStep
  FL.Flw.NumDCleanupRun FL.Flw.NumDCleanup FL.Flw.NumDCleanupKillStep FL.Flw.NumDCleanupKill.
Import String.StringSyntax.
Open Scope nat_scope.
Open Scope string_scope.

(* base name "a", suffix "log", rotation when the file being written holds more than 3 bytes, direct mode, no append *)
Definition kdc (k : cleanup) : config := exd_kcfg k log_sfx.
Definition drec (i : nat) : op := OWrite (bs "abc" ++ [N.of_nat (48 + i)]).
(* records of 4 bytes: every write but the first rotates (and runs the cleanup) first *)
Definition dx1 : list op := [drec 0; drec 1; drec 2].
Definition dx2 : list op := [drec 3; drec 4; OSnap].
Definition dx3 : list op := [drec 5; drec 6].
Definition darmed (k : cleanup) (kp : nat) : sys := fst (run (sys0 0 0) (OStart (kdc k) :: dx1 ++ [OSetKill kp])).
Definition ddead (k : cleanup) (kp : nat) : sys := fst (run (sys0 0 0) (OStart (kdc k) :: dx1 ++ [OSetKill kp] ++ dx2 ++ [OCrash])).
Definition dacked (k : cleanup) (kp : nat) : bytes := written dx1 ++ acked (darmed k kp) dx2.

Lemma kdc_cfg k : numdkcfg (kdc k) (CSize 3) k.
Proof. repeat split. Qed.
Lemma kdc_sfx k : sfx_ok (c_spec (kdc k)).
Proof. vm_compute. reflexivity. Qed.
Lemma dx1_basic : Forall basic_op dx1.
Proof. repeat constructor. Qed.
Lemma dx2_basic : Forall basic_op dx2.
Proof. repeat constructor. Qed.

(* ------------------------------------------------------------------ the directories a kill leaves: KLogGz 2 1 *)
(* effective limits (2, 1): the file being written and one closed file plain, one archive.  Before the kill counter is
   armed: r00000.gz, r00001, r00002 = abc2 (being written).  The write of abc3 rotates: create r00003 (effect 0), cleanup:
   create r00001.log.gz (1), copy (2), finish (3), remove r00001.log (4), remove r00000.log.gz (5); then the write (6). *)
Example dkill_points_loggz :
  (* 0: killed at the creation of the next file *)
  snap_of (ddead (KLogGz 2 1) 0)
  = [ (bs "a_r00000.log.gz", 1%N, bs "abc0"); (bs "a_r00001.log", 0%N, bs "abc1"); (bs "a_r00002.log", 0%N, bs "abc2") ]
  (* 1: killed at the creation of the archive: the new, empty file is there, nothing cleaned yet *)
  /\ snap_of (ddead (KLogGz 2 1) 1)
  = [ (bs "a_r00000.log.gz", 1%N, bs "abc0"); (bs "a_r00001.log", 0%N, bs "abc1"); (bs "a_r00002.log", 0%N, bs "abc2");
      (bs "a_r00003.log", 0%N, []) ]
  (* 2, 3: killed at the copy / at finish - an UNFINISHED, empty archive (kind 2) next to its intact original *)
  /\ snap_of (ddead (KLogGz 2 1) 2)
  = [ (bs "a_r00000.log.gz", 1%N, bs "abc0"); (bs "a_r00001.log", 0%N, bs "abc1"); (bs "a_r00001.log.gz", 2%N, []);
      (bs "a_r00002.log", 0%N, bs "abc2"); (bs "a_r00003.log", 0%N, []) ]
  /\ snap_of (ddead (KLogGz 2 1) 3) = snap_of (ddead (KLogGz 2 1) 2)
  (* 4: killed at the removal of the original - a COMPLETE archive next to its original, same content *)
  /\ snap_of (ddead (KLogGz 2 1) 4)
  = [ (bs "a_r00000.log.gz", 1%N, bs "abc0"); (bs "a_r00001.log", 0%N, bs "abc1"); (bs "a_r00001.log.gz", 1%N, bs "abc1");
      (bs "a_r00002.log", 0%N, bs "abc2"); (bs "a_r00003.log", 0%N, []) ]
  (* 5: killed at the removal of the oldest archive - one archive more than the limit *)
  /\ snap_of (ddead (KLogGz 2 1) 5)
  = [ (bs "a_r00000.log.gz", 1%N, bs "abc0"); (bs "a_r00001.log.gz", 1%N, bs "abc1");
      (bs "a_r00002.log", 0%N, bs "abc2"); (bs "a_r00003.log", 0%N, []) ]
  (* 6: killed at the write: the cleanup is complete, the record is not acknowledged *)
  /\ snap_of (ddead (KLogGz 2 1) 6)
  = [ (bs "a_r00001.log.gz", 1%N, bs "abc1"); (bs "a_r00002.log", 0%N, bs "abc2"); (bs "a_r00003.log", 0%N, []) ]
  /\ dacked (KLogGz 2 1) 6 = bs "abc0abc1abc2" /\ dacked (KLogGz 2 1) 7 = bs "abc0abc1abc2abc3".
Proof. vm_compute. repeat split; reflexivity. Qed.

(* KeepLogFiles(0) (effective limits (1, 0): the file being written only).  Surprising but as the limits say: a kill right
   after the cleanup of a rotation (kill point 2: the write that caused the rotation) leaves ONE EMPTY file - every
   acknowledged record has been removed by the cleanup, as it would have been without the kill *)
Example dkill_points_log0 :
  snap_of (ddead (KLog 0) 1) = [ (bs "a_r00002.log", 0%N, bs "abc2"); (bs "a_r00003.log", 0%N, []) ]
  /\ snap_of (ddead (KLog 0) 2) = [ (bs "a_r00003.log", 0%N, []) ]
  /\ dacked (KLog 0) 2 = bs "abc0abc1abc2".
Proof. vm_compute. repeat split; reflexivity. Qed.

(* ------------------------------------------------------------------ the theorem on this history (non-vacuity) *)
Example dkill_keeps_acked_instance :
  exists files lo,
    kill_view (kdc (KLogGz 2 1)) (wfs (s_w (ddead (KLogGz 2 1) 4))) files None lo
    /\ concat files = bs "abc0abc1abc2"
    /\ lo <= length files - 3
    /\ bs "abc0abc1abc2" = concat (firstn lo files) ++ kv_stream files None lo
    /\ (files <> [] -> exists fl, file_of (wfs (s_w (ddead (KLogGz 2 1) 4))) (rname (kdc (KLogGz 2 1)) (length files - 1)) = Some fl
                                  /\ isplain fl (last files [])).
Proof.
  destruct (numbersdirect_cleanup_kill_keeps_acked (kdc (KLogGz 2 1)) (CSize 3) (KLogGz 2 1) 2 1 0 0 dx1 4 dx2
              (kdc_cfg _) eq_refl eq_refl (kdc_sfx _) dx1_basic dx2_basic) as (fl & lo & V & F & Hlo & T & P).
  assert (E : written dx1 ++ acked (fst (run (sys0 0 0) (OStart (kdc (KLogGz 2 1)) :: dx1 ++ [OSetKill 4]))) dx2 = bs "abc0abc1abc2")
    by (vm_compute; reflexivity).
  rewrite E in F, T. exists fl, lo. auto.
Qed.

(* ------------------------------------------------------------------ the restart, computed *)
(* A new writer with the same configuration on the directory of the killed one, for EVERY kill point of the history: no
   operation fails or panics (codes 0), and what the directory holds afterwards - files by number, archives decompressed, an
   archive next to its original ignored - is a tail of acknowledged ++ own records.  (Computed evidence; the general
   restart theorem for NumbersDirect with cleanup is not proved here.) *)
Definition drestart (k : cleanup) (kp : nat) (ops3 : list op) := run (ddead k kp) (OStart (kdc k) :: ops3 ++ [OStop]).
Definition dall_ok (l : list obs) : bool :=
  forallb (fun o => match o with ObsRes 0%N _ => true | ObsSnap _ _ _ => true | _ => false end) l.
Fixpoint is_sfx (s t : bytes) : bool :=
  beq s t || match t with [] => false | _ :: t' => is_sfx s t' end.
Definition dshadowed (l : list (bytes * N * bytes)) (e : bytes * N * bytes) : bool :=
  let '(nme, kd, _) := e in
  match kd with
  | 0%N => false
  | _ => existsb (fun '(n2, k2, _) => N.eqb k2 0 && beq (gz_name n2) nme) l || N.eqb kd 2
  end.
Definition dstream (l : list (bytes * N * bytes)) : bytes :=
  concat (map (fun '(_, _, d) => d) (filter (fun e => negb (dshadowed l e)) l)).
Definition drestart_ok (k : cleanup) (kp : nat) : bool :=
  let r := drestart k kp dx3 in
  dall_ok (snd r) && is_sfx (dstream (snap_of (fst r))) (dacked k kp ++ written dx3).

Example dall_kill_points_restart :
  forallb (drestart_ok (KLogGz 2 1)) (seq 0 16) = true
  /\ forallb (drestart_ok (KLog 0)) (seq 0 8) = true
  /\ forallb (drestart_ok (KLog 2)) (seq 0 8) = true
  /\ forallb (drestart_ok (KGz 1)) (seq 0 16) = true
  /\ forallb (drestart_ok (KLogGz 1 2)) (seq 0 16) = true.
Proof. vm_compute. repeat split; reflexivity. Qed.
