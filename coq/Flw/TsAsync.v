(* Timestamps naming (r<time stamp>[.restart-NNNN] for the closed files, rCURRENT for the file being written): the write
   mode - Direct, BufWriter of any capacity, asynchronous with either - does not change WHAT is written NOR UNDER WHICH
   NAMES (C15), and after flush() / after the drop of the writer nothing accepted stays behind in a buffer (C04).

   The development of TsRun.v / TsTheorems.v proves the stream theorem: it states the existence of keys (second, position
   within the second) that name the closed files, and it does not follow the size of the current file.  To compare two
   runs both have to be KNOWN.  Part A: the invariant RelTK = RelT of TsRun.v with the keys and the time stamp of the
   current file exposed and, for a size criterion, the roll state tied to the length of the current file (generic facts
   about Model.mount_next / Model.initialize: mount_next_roll, initialize_roll); the keys as a function of the history -
   kt_step / kt_run (driven by the rotation flags), kts_run (size criterion: the greedy rule decides); NEW for this naming
   in the synchronous modes: the partition theorem (the closed files and rCURRENT hold the greedy partition) and the
   rotation flags.  Part B: any mode, through AsyncSim.v / AsyncTransfer.v.

   A closed file carries the second in which it was STARTED (the creation time stamp of rCURRENT, kept in the naming state);
   the file that is started by a rotation gets the second of that rotation.  In asynchronous mode the rotation happens when
   the writer thread handles the message; under the scheduling assumption of the model and of the test harness (every
   message is consumed before the next operation starts) that is the same instant of the model clock. *)
Require Import FL.Base.Bytes FL.Base.BytesFacts FL.Base.PathName FL.Fs.Fs FL.Fs.FsFacts FL.Time.Civil FL.Time.TsFormat
  FL.Names.FileSpec FL.Names.NamesFacts FL.Names.SortFacts FL.Flw.Model FL.Flw.ModelFacts FL.Flw.NumFs FL.Flw.NumInv FL.Flw.Run
  FL.Flw.RunFacts FL.Flw.NumRun FL.Oracles.O_Flw FL.Flw.NumTheorems FL.Flw.NumListing FL.Flw.NumRestart FL.Flw.NumKillRestart
  FL.Flw.NumDInv FL.Flw.NumDRun FL.Flw.NumDTheorems
  FL.Flw.TsCal FL.Flw.TsTime FL.Flw.TsMono FL.Flw.TsNames FL.Flw.TsInv FL.Flw.TsRun FL.Flw.TsTheorems FL.Flw.TsdInv FL.Flw.TsdRun
  FL.Flw.TsReader FL.Flw.TsdTheorems FL.Flw.NoPanic FL.Flw.NumCfg0 FL.Flw.NumAsync FL.Flw.AsyncSim FL.Flw.AsyncTransfer FL.Flw.NumDAsync
  FL.Flw.TsdAsync.
From Coq Require Import ZifyN ZifyNat ZifyBool.
Import String.StringSyntax.
Open Scope nat_scope.

(* ================================================================== generic facts about the roll state *)
(* a rotation that succeeds resets the roll state *)
Lemma mount_next_roll c w rs wr p force w' rs' wr' p' :
  mount_next c w (Active (Some rs) wr p) force = (Ok tt, w', Active (Some rs') wr' p') ->
  force || rotation_necessary w (rs_roll rs) = true ->
  exists w3, rs_roll rs' = reset_size_and_date w3 (rs_roll rs) p'.
Proof.
  unfold mount_next. intros E H. rewrite H in E.
  repeat match type of E with
         | context [match ?X with _ => _ end] => destruct X; try discriminate E
         end.
  all: injection E as _ Ers _ Ep; subst rs' p'; cbn [rs_roll]; eexists; reflexivity.
Qed.

(* the roll state of a freshly initialised writer is the one of roll_new *)
Lemma initialize_roll c w crit nam rs wr p w' :
  c_rot c = Some (crit, nam, KNever) ->
  initialize c w = (Ok (Active (Some rs) wr p), w') ->
  exists w2, roll_new w2 crit (c_append c) p = (Ok (rs_roll rs), w').
Proof.
  unfold initialize. intros Hr. rewrite Hr. unfold bind.
  destruct (init_naming c w nam) as [[[ns infix]| |] w1]; [|discriminate|discriminate].
  destruct (open_log_file c w1 (Some infix)) as [[[wr0 path]| |] w2]; [|discriminate|discriminate].
  destruct (roll_new w2 crit (c_append c) path) as [[roll| |] w3] eqn:Er; [|discriminate|discriminate].
  intros E. injection E as <- _ <- <-. exists w2. exact Er.
Qed.

Lemma tick_fs w fl w1 : tick w = (fl, w1) -> wfs w1 = wfs w.
Proof. unfold tick. destruct (wfaults w); intros E; injection E as _ <-; reflexivity. Qed.

Lemma roll_new_size w2 m app p roll w' : roll_new w2 (CSize m) app p = (Ok roll, w') ->
  exists k, roll = RSize m k
    /\ (if app then exists f, file_of (wfs w') p = Some f /\ k = N.of_nat (length (fdata f)) else k = 0%N).
Proof.
  unfold roll_new. destruct app.
  - destruct (tick w2) as [fl w1] eqn:Et. destruct fl; [discriminate|].
    destruct (file_of (wfs w1) p) as [f|] eqn:Ef; [|discriminate].
    intros E. injection E as <- <-. eexists. split; [reflexivity|]. exists f. split; [exact Ef | reflexivity].
  - intros E. injection E as <- <-. eexists. split; reflexivity.
Qed.

(* ================================================================== Part A: keys, time stamp, size *)
(* one operation: (ks, ts) are the keys of the closed files and the time stamp that the current file will get when it is
   closed; a the abstract view before the operation, rot the rotation decision of a write, now the clock *)
Definition kt_step (st : list key * Z) (a : aview) (o : op) (rot : bool) (now : Z) : list key * Z :=
  match o with
  | OWrite _ | OPlain _ =>
    let '(ks0, ts0) := match a with Some _ => st | None => ([], now) end in
    if rot then (ks0 ++ [(ts0, count ts0 ks0)], now) else (ks0, ts0)
  | OTrigger => match a with Some _ => (fst st ++ [(snd st, count (snd st) (fst st))], now) | None => st end
  | _ => st
  end.

Fixpoint kt_run (st : list key * Z) (a : aview) (now : Z) (ops : list op) (obs : list obs) : list key * Z :=
  match ops, obs with
  | o :: r, ob :: robs => kt_run (kt_step st a o (rot_of ob) now) (a_step a o (rot_of ob)) (now + dt_of o)%Z r robs
  | _, _ => st
  end.

Fixpoint kts_run (m : N) (st : list key * Z) (a : aview) (now : Z) (ops : list op) : list key * Z :=
  match ops with
  | o :: r => let rot := (m <? N.of_nat (length (cur_of a)))%N in
              kts_run m (kt_step st a o rot now) (a_step a o rot) (now + dt_of o)%Z r
  | [] => st
  end.

(* the keys of the closed files of a whole run that starts at t0 on an empty directory *)
Definition ts_keys (m : N) (t0 : Z) (ops : list op) : list key := fst (kts_run m ([], t0) None t0 ops).

(* ------------------------------------------------------------------ a write on an active writer: keys, time stamp, size *)
Lemma write_active_ts_k c crit e lo hi w wr keys closed ts roll b :
  tscfg c crit -> tag_ok c -> years_ok e lo hi -> TsInv c e lo w wr keys closed ts ->
  (wnow w <= hi)%Z -> (N.of_nat (length closed) <= usize_max)%N ->
  (forall m, crit = CSize m -> roll = RSize m (N.of_nat (length (cur_view w wr)))) ->
  let rot := rotation_necessary w roll in
  let keys' := if rot then keys ++ [(ts, count ts keys)] else keys in
  let ts' := if rot then wnow w else ts in
  exists w' wr' roll' closed',
    write_buffer (st_ts c ts roll wr) w b = (Ok tt, w', st_ts c ts' roll' wr', rot)
    /\ TsInv c e lo w' wr' keys' closed' ts' /\ same_env w w'
    /\ (closed', cur_view w' wr') = (if rot then (closed ++ [cur_view w wr], b) else (closed, cur_view w wr ++ b))
    /\ (forall m, crit = CSize m -> roll' = RSize m (N.of_nat (length (cur_view w' wr')))).
Proof.
  intros Hcfg T Y I Hhi Hmax RS rot keys' ts'.
  unfold write_buffer, st_ts. cbn [f_cfg f_inner f_poisoned mk_rs rs_roll]. fold rot.
  assert (M : exists w1 wr1 roll1 closed1,
            mount_next c w (Active (Some (mk_rs (NSTs ts (Some cur_infix) std_fmt) roll)) wr (cname c)) false
            = (Ok tt, w1, Active (Some (mk_rs (NSTs ts' (Some cur_infix) std_fmt) roll1)) wr1 (cname c))
            /\ TsInv c e lo w1 wr1 keys' closed1 ts' /\ same_env w w1
            /\ (closed1, cur_view w1 wr1) = (if rot then (closed ++ [cur_view w wr], []) else (closed, cur_view w wr))
            /\ (forall m, crit = CSize m -> roll1 = RSize m (N.of_nat (length (cur_view w1 wr1))))).
  { unfold keys', ts'. destruct rot eqn:Er.
    - destruct (mount_next_rotates_ts c crit e lo hi w wr keys closed ts roll false Hcfg T Y I Hhi Hmax) as [w1 [wr1 [roll1 [E [I1 [V1 S1]]]]]]; [exact Er|].
      exists w1, wr1, roll1, (closed ++ [cur_view w wr]). rewrite V1.
      split; [exact E|]. split; [exact I1|]. split; [exact S1|]. split; [reflexivity|].
      intros m Hm. destruct (mount_next_roll _ _ _ _ _ _ _ _ _ _ E Er) as [w3 Hr]. cbn [mk_rs rs_roll] in Hr.
      rewrite Hr, (RS m Hm). reflexivity.
    - exists w, wr, roll, closed. split.
      + unfold mount_next. cbn [mk_rs rs_roll orb]. unfold rot in Er. rewrite Er. reflexivity.
      + split; [exact I|]. split; [apply same_env_refl; apply I|]. split; [reflexivity | exact RS]. }
  destruct M as [w1 [wr1 [roll1 [closed1 [E [I1 [S1 [V1 R1]]]]]]]].
  rewrite E.
  destruct (w_write_quiet w1 wr1 b (ti_quiet _ _ _ _ _ _ _ _ I1) (ti_wr _ _ _ _ _ _ _ _ I1)) as [w2 [wr2 [fl [Ew [S2 [F2 [Ei [Ec [Ep Hok]]]]]]]]].
  rewrite Ew.
  destruct (tsinv_append c e lo w1 w2 wr1 wr2 keys' closed1 ts' fl I1 F2 S2 Ei Ec Hok) as [I2 C2].
  exists w2, wr2, (increase_size roll1 (N.of_nat (length b))), closed1.
  assert (V2 : cur_view w2 wr2 = cur_view w1 wr1 ++ b).
  { unfold cur_view. rewrite C2, <- !app_assoc, Ep. reflexivity. }
  split; [reflexivity|]. split; [exact I2|].
  split; [eapply same_env_trans; eassumption|].
  split. { rewrite V2. destruct rot; injection V1 as -> ->; reflexivity. }
  intros m Hm. rewrite (R1 m Hm), V2, app_length. cbn [increase_size]. f_equal. lia.
Qed.

(* ------------------------------------------------------------------ the invariant with keys, time stamp and size *)
Definition RelTK (c : config) (crit : criterion) (e lo : Z) (n : nat) (x : sys) (a : aview) (ks : list key) (ts : Z) : Prop :=
  s_tl x = [] /\ wacts (s_w x) = 0 /\
  match a with
  | None => ks = [] /\ s_flw x = Some (new_flw c) /\ quiet (s_w x) /\ names (wfs (s_w x)) = [] /\ inodes (wfs (s_w x)) = []
            /\ eoff c (s_w x) = e /\ (lo <= wnow (s_w x))%Z
  | Some (closed, cur) =>
    exists wr roll, s_flw x = Some (st_ts c ts roll wr) /\ TsInv c e lo (s_w x) wr ks closed ts
      /\ cur_view (s_w x) wr = cur /\ length closed <= n
      /\ (forall m, crit = CSize m -> roll = RSize m (N.of_nat (length cur)))
  end.

Lemma reltk_relt c crit e lo n x a ks ts : RelTK c crit e lo n x a ks ts -> RelT c e lo n x a.
Proof.
  intros [Ht [Ha R]]. split; [exact Ht|]. split; [exact Ha|]. destruct a as [[closed cur]|].
  - destruct R as [wr [roll [Es [I [V [Hn _]]]]]]. exists ks, wr, roll, ts. auto.
  - apply R.
Qed.

Lemma reltk_quiet c crit e lo n x a ks ts : RelTK c crit e lo n x a ks ts -> quiet (s_w x).
Proof. intros [_ [_ R]]. destruct a as [[cl cu]|]; [destruct R as [wr [roll [_ [I _]]]]; apply I | apply R]. Qed.

Lemma RelTK_mono c crit e lo n x a ks ts : RelTK c crit e lo n x a ks ts -> RelTK c crit e lo (S n) x a ks ts.
Proof.
  intros [Ht [Ha R]]. split; [exact Ht|]. split; [exact Ha|]. destruct a as [[closed cur]|]; [|exact R].
  destruct R as [wr [roll [Es [I [V [Hn ZR]]]]]]. exists wr, roll.
  split; [exact Es|]. split; [exact I|]. split; [exact V|]. split; [lia | exact ZR].
Qed.

Lemma start_rel_ts_k c crit t0 off ts : RelTK c crit (ts_e c off) t0 0 (fst (step (sys0 t0 off) (OStart c))) None [] ts.
Proof. cbn. repeat split. cbn. lia. Qed.

(* the first write: the roll state of the initialised writer *)
Lemma initialize_empty_ts_size c crit e lo w w' wr roll :
  tscfg c crit ->
  initialize c w = (Ok (Active (Some (mk_rs (NSTs (wnow w) (Some cur_infix) std_fmt) roll)) wr (cname c)), w') ->
  TsInv c e lo w' wr [] [] (wnow w) -> cur_view w' wr = [] ->
  forall m, crit = CSize m -> roll = RSize m 0%N.
Proof.
  intros [Hrot _] Ei I V m Hm. subst crit.
  destruct (initialize_roll c w _ _ _ _ _ _ Hrot Ei) as [w2 Er]. cbn [mk_rs rs_roll] in Er.
  destruct (roll_new_size _ _ _ _ _ _ Er) as [k [-> Hk]]. destruct (c_append c); [|subst k; reflexivity].
  destruct Hk as [f [Ef ->]]. unfold file_of in Ef. rewrite (ti_cur _ _ _ _ _ _ _ _ I) in Ef. injection Ef as <-.
  unfold cur_view in V. apply app_eq_nil in V. destruct V as [V _]. unfold content in V. rewrite V. reflexivity.
Qed.

(* what a write does, from either kind of state *)
Lemma write_rel_ts_k c crit e lo hi n x a ks ts b :
  tscfg c crit -> tag_ok c -> years_ok e lo hi -> RelTK c crit e lo n x a ks ts ->
  (wnow (s_w x) <= hi)%Z -> (N.of_nat n <= usize_max)%N ->
  exists s w' s' rot, s_flw x = Some s /\ f_poisoned s = false /\
    write_buffer s (s_w x) b = (Ok tt, w', s', rot)
    /\ RelTK c crit e lo (S n) {| s_flw := Some s'; s_w := w'; s_tl := []; s_dead := s_dead x |} (a_step a (OWrite b) rot)
             (fst (kt_step (ks, ts) a (OWrite b) rot (wnow (s_w x)))) (snd (kt_step (ks, ts) a (OWrite b) rot (wnow (s_w x))))
    /\ wnow w' = wnow (s_w x)
    /\ (forall m, crit = CSize m -> rot = (m <? N.of_nat (length (cur_of a)))%N).
Proof.
  intros Hcfg T Y [Ht [Ha R]] Hhi Hmax. destruct a as [[closed cur]|].
  - destruct R as [wr [roll [Es [I [V [Hn RS]]]]]].
    rewrite <- V in RS.
    destruct (write_active_ts_k c crit e lo hi (s_w x) wr ks closed ts roll b Hcfg T Y I Hhi ltac:(lia) RS)
      as [w' [wr' [roll' [closed' [E [I' [S' [V' R']]]]]]]].
    cbv zeta in E, I'.
    exists (st_ts c ts roll wr), w'. eexists. exists (rotation_necessary (s_w x) roll).
    split; [exact Es|]. split; [reflexivity|]. split; [exact E|].
    split; [|split; [exact (same_env_now _ _ S')|]].
    + split; [reflexivity|]. split; [cbn [s_w]; exact (same_env_acts _ _ S' Ha)|].
      cbn [a_step kt_step]. rewrite V in V'.
      destruct (rotation_necessary (s_w x) roll); cbn [fst snd]; injection V' as -> V''; (exists wr', roll'; cbn [s_flw s_w];
        split; [reflexivity|]; split; [exact I'|]; split; [exact V''|]; split; [rewrite ?app_length; cbn [length]; lia|];
        rewrite <- V''; exact R').
    + intros m Hm. rewrite (RS m Hm). cbn [rotation_necessary size_rotation_necessary cur_of]. rewrite V. reflexivity.
  - destruct R as [-> [Es [Q [Hn [Hi [Hoff Hlo]]]]]].
    destruct (initialize_empty_ts c crit e lo (s_w x) Hcfg Q Hn Hi Hoff Hlo) as [w1 [wr [roll [Ei [I [V S1]]]]]].
    pose proof (initialize_empty_ts_size c crit e lo _ _ _ _ Hcfg Ei I V) as RS0.
    assert (Hnow1 : wnow w1 = wnow (s_w x)) by exact (same_env_now _ _ S1).
    assert (Hhi1 : (wnow w1 <= hi)%Z) by (rewrite Hnow1; exact Hhi).
    assert (RS1 : forall m, crit = CSize m -> roll = RSize m (N.of_nat (length (cur_view w1 wr)))).
    { intros m Hm. rewrite V. exact (RS0 m Hm). }
    destruct (write_active_ts_k c crit e lo hi w1 wr [] [] (wnow (s_w x)) roll b Hcfg T Y I Hhi1 ltac:(cbn; lia) RS1)
      as [w' [wr' [roll' [closed' [E [I' [S' [V' R']]]]]]]].
    cbv zeta in E, I'. rewrite Hnow1 in E, I'.
    exists (new_flw c), w'. eexists. exists (rotation_necessary w1 roll).
    split; [exact Es|]. split; [reflexivity|].
    split. { rewrite (write_buffer_init c (s_w x) b _ _ _ w1 Ei). exact E. }
    split; [|split; [rewrite (same_env_now _ _ S'); exact Hnow1|]].
    + split; [reflexivity|]. split; [cbn [s_w]; exact (same_env_acts _ _ (same_env_trans _ _ _ S1 S') Ha)|].
      cbn [a_step kt_step]. rewrite V in V'. cbn [app] in V'.
      destruct (rotation_necessary w1 roll); cbn [fst snd]; injection V' as -> V''; (exists wr', roll'; cbn [s_flw s_w];
        split; [reflexivity|]; split; [exact I'|]; split; [exact V''|]; split; [cbn [app length]; lia|];
        rewrite <- V''; exact R').
    + intros m Hm. rewrite (RS0 m Hm). reflexivity.
Qed.

(* one basic operation *)
Lemma step_rel_ts_k c crit e lo hi n x a ks ts o :
  tscfg c crit -> tag_ok c -> years_ok e lo hi -> RelTK c crit e lo n x a ks ts -> basic_op o -> tick_ok o ->
  (wnow (s_w x) <= hi)%Z -> (N.of_nat n <= usize_max)%N ->
  let '(x', ob) := step x o in
  RelTK c crit e lo (S n) x' (a_step a o (rot_of ob))
        (fst (kt_step (ks, ts) a o (rot_of ob) (wnow (s_w x)))) (snd (kt_step (ks, ts) a o (rot_of ob) (wnow (s_w x))))
  /\ wnow (s_w x') = (wnow (s_w x) + dt_of o)%Z
  /\ (forall b m, (o = OWrite b \/ o = OPlain b) -> crit = CSize m ->
        ob = ObsRes 0 (m <? N.of_nat (length (cur_of a)))%N).
Proof.
  intros Hcfg T Y R Hb Htk Hhi Hmax.
  rewrite (step_sync_rel_ts c crit e lo n x a o Hcfg (reltk_relt _ _ _ _ _ _ _ _ _ R)).
  destruct o; try contradiction; cbn [sync_step dt_of].
  - (* OWrite *)
    destruct (write_rel_ts_k c crit e lo hi n x a ks ts b Hcfg T Y R Hhi Hmax) as [s [w' [s' [rot [Es [Hp [E [R' [Hw C]]]]]]]]].
    rewrite Es, Hp. rewrite (proj1 R). cbn [app]. rewrite E. cbn [rot_of s_w]. split; [exact R'|]. split; [lia|].
    intros b0 m _ Hm. rewrite (C m Hm). reflexivity.
  - (* OPlain *)
    destruct (write_rel_ts_k c crit e lo hi n x a ks ts b Hcfg T Y R Hhi Hmax) as [s [w' [s' [rot [Es [Hp [E [R' [Hw C]]]]]]]]].
    rewrite Es, Hp, E. cbn [rot_of code_of s_w]. rewrite (proj1 R). split; [exact R'|]. split; [lia|].
    intros b0 m _ Hm. rewrite (C m Hm). reflexivity.
  - (* OFlush *)
    destruct R as [Ht [Ha R]]. destruct a as [[closed cur]|].
    + destruct R as [wr [roll [Es [I [V [Hn ZR]]]]]]. rewrite Es. cbn [st_ts f_poisoned].
      destruct (flush_active_ts c e lo (s_w x) wr ks closed ts roll I) as [w' [wr' [E [I' [V' [P' S']]]]]].
      fold (st_ts c ts roll wr). rewrite E. cbn [rot_of a_step kt_step fst snd s_w].
      split; [|split; [rewrite (same_env_now _ _ S'); lia | intros b m [H|H]; discriminate]].
      split; [exact Ht|]. split; [exact (same_env_acts _ _ S' Ha)|]. exists wr', roll. cbn [s_flw s_w].
      split; [reflexivity|]. split; [exact I'|]. split; [congruence|]. split; [lia | exact ZR].
    + destruct R as [Ek [Es R]]. rewrite Es. cbn [new_flw f_poisoned flush_state f_inner rot_of a_step kt_step fst snd s_w].
      split; [|split; [lia | intros b m [H|H]; discriminate]].
      split; [exact Ht|]. split; [exact Ha|]. split; [exact Ek|]. split; [reflexivity | exact R].
  - (* OTrigger *)
    destruct R as [Ht [Ha R]]. destruct a as [[closed cur]|].
    + destruct R as [wr [roll [Es [I [V [Hn RS]]]]]]. rewrite Es. cbn [st_ts f_poisoned f_cfg f_inner].
      destruct (mount_next_rotates_ts c crit e lo hi (s_w x) wr ks closed ts roll true Hcfg T Y I Hhi ltac:(lia) eq_refl)
        as [w' [wr' [roll' [E [I' [V' S']]]]]].
      destruct (mount_next_roll _ _ _ _ _ _ _ _ _ _ E eq_refl) as [w3 Hr]. cbn [mk_rs rs_roll] in Hr.
      rewrite E. cbn [rot_of a_step kt_step fst snd code_of with_inner f_cfg f_poisoned s_w].
      split; [|split; [rewrite (same_env_now _ _ S'); lia | intros b m [H|H]; discriminate]].
      split; [exact Ht|]. split; [exact (same_env_acts _ _ S' Ha)|]. rewrite V in *.
      exists wr', roll'. cbn [s_flw s_w].
      split; [reflexivity|]. split; [exact I'|]. split; [exact V'|]. split; [rewrite app_length; cbn [length]; lia|].
      intros m Hm. rewrite Hr, (RS m Hm). reflexivity.
    + destruct R as [Ek [Es R]]. rewrite Es. cbn [new_flw f_poisoned f_cfg f_inner mount_next with_inner rot_of a_step kt_step fst snd code_of s_w].
      split; [|split; [lia | intros b m [H|H]; discriminate]].
      split; [exact Ht|]. split; [exact Ha|]. split; [exact Ek|]. split; [reflexivity | exact R].
  - (* OTick *)
    cbn [rot_of a_step kt_step fst snd s_w set_now wnow tick_ok] in *. split; [|split; [reflexivity | intros b m [H|H]; discriminate]].
    destruct R as [Ht [Ha R]]. split; [exact Ht|]. split; [exact Ha|]. destruct a as [[closed cur]|].
    + destruct R as [wr [roll [Es [I [V [Hn ZR]]]]]]. exists wr, roll. cbn [s_flw s_w].
      split; [exact Es|]. split; [apply tsinv_tick; assumption|]. split; [exact V|]. split; [lia | exact ZR].
    + cbn [s_flw s_w]. destruct R as [Ek [Es [Q [Hn [Hi [Hoff Hlo]]]]]]. repeat split; try assumption; try apply Q. cbn [set_now wnow]. lia.
  - (* OSnap *)
    cbn [rot_of a_step kt_step fst snd]. split; [apply RelTK_mono; exact R|]. split; [lia | intros b m [H|H]; discriminate].
Qed.

Lemma kt_step_eta st a o rot now : kt_step st a o rot now = kt_step (fst st, snd st) a o rot now.
Proof. destruct st; reflexivity. Qed.

(* a history *)
Lemma run_rel_ts_k c crit e lo hi : tscfg c crit -> tag_ok c -> years_ok e lo hi ->
  forall ops x a st n, RelTK c crit e lo n x a (fst st) (snd st) -> Forall basic_op ops -> Forall tick_ok ops ->
  (wnow (s_w x) + elapsed ops <= hi)%Z -> (N.of_nat (n + length ops) <= usize_max)%N ->
  let st' := kt_run st a (wnow (s_w x)) ops (snd (run x ops)) in
  RelTK c crit e lo (n + length ops) (fst (run x ops)) (a_run a ops (snd (run x ops))) (fst st') (snd st')
  /\ wnow (s_w (fst (run x ops))) = (wnow (s_w x) + elapsed ops)%Z
  /\ (forall m, crit = CSize m ->
        a_run a ops (snd (run x ops)) = s_run m a ops
        /\ st' = kts_run m st a (wnow (s_w x)) ops
        /\ (forall i o, nth_error ops i = Some o -> forall b, (o = OWrite b \/ o = OPlain b) ->
              nth_error (snd (run x ops)) i = Some (ObsRes 0 (m <? N.of_nat (length (cur_of (s_run m a (firstn i ops)))))%N))).
Proof.
  intros Hcfg T Y. induction ops as [|o r IH]; intros x a st n R Hb Htk Hhi Hmax.
  - cbn [run fst snd a_run kt_run length elapsed]. rewrite Nat.add_0_r. split; [exact R|]. split; [lia|].
    intros m _. split; [reflexivity|]. split; [reflexivity|]. intros i o H. destruct i; discriminate.
  - cbn [run]. inversion Hb as [|o' r' Ho Hr]; subst. inversion Htk as [|o' r' Hto Htr]; subst.
    cbn [elapsed length] in *. pose proof (elapsed_nonneg r Htr) as Er.
    assert (Hdt : (0 <= dt_of o)%Z) by (destruct o; cbn [dt_of tick_ok] in *; lia).
    pose proof (step_rel_ts_k c crit e lo hi n x a (fst st) (snd st) o Hcfg T Y R Ho Hto ltac:(lia) ltac:(lia)) as S.
    destruct (step x o) as [x1 ob]. destruct S as [R1 [W1 C1]]. rewrite <- kt_step_eta in R1.
    specialize (IH x1 _ _ (S n) R1 Hr Htr ltac:(lia) ltac:(lia)). destruct (run x1 r) as [x2 obs].
    cbn [fst snd a_run kt_run] in *. replace (n + S (length r)) with (S n + length r) by lia. cbv zeta in IH. destruct IH as [IH1 [IH2 IH3]].
    rewrite W1 in IH1, IH3.
    split; [exact IH1|]. split; [lia|].
    intros m Hm. destruct (IH3 m Hm) as [IHa [IHb IHc]].
    assert (Erot : rot_of ob = (m <? N.of_nat (length (cur_of a)))%N
                   \/ (a_step a o (rot_of ob) = a_step a o (m <? N.of_nat (length (cur_of a)))%N
                       /\ kt_step st a o (rot_of ob) (wnow (s_w x)) = kt_step st a o (m <? N.of_nat (length (cur_of a)))%N (wnow (s_w x)))).
    { destruct o; try (right; split; reflexivity).
      - left. rewrite (C1 b m (or_introl eq_refl) Hm). reflexivity.
      - left. rewrite (C1 b m (or_intror eq_refl) Hm). reflexivity. }
    assert (Ea : a_step a o (rot_of ob) = a_step a o (m <? N.of_nat (length (cur_of a)))%N
                 /\ kt_step st a o (rot_of ob) (wnow (s_w x)) = kt_step st a o (m <? N.of_nat (length (cur_of a)))%N (wnow (s_w x))).
    { destruct Erot as [->|H]; [split; reflexivity | exact H]. }
    destruct Ea as [Ea Ek]. cbn [s_run kts_run]. rewrite <- Ea, <- Ek. split; [exact IHa|]. split; [exact IHb|].
    intros i o0 Hi b Hw. destruct i as [|i].
    + cbn in Hi. injection Hi as <-. cbn [nth_error firstn s_run]. f_equal. apply (C1 b m Hw Hm).
    + cbn [nth_error firstn s_run] in *. rewrite <- Ea. apply (IHc i o0 Hi b Hw).
Qed.

(* ------------------------------------------------------------------ what the reader finds *)
(* the directory as the abstract view a under the keys ks: empty, or the closed files and rCURRENT *)
Definition ts_dir (c : config) (e : Z) (f : fs) (ks : list key) (a : aview) : Prop :=
  match a with
  | None => names f = [] /\ ks = []
  | Some (closed, cur) => ts_view c e f ks closed cur
  end.

Lemma tsinv_view c e lo w wr keys closed ts : TsInv c e lo w wr keys closed ts -> wpend wr = [] ->
  ts_view c e (wfs w) keys closed (cur_view w wr).
Proof.
  intros [Q W Hnd Hoff Hc Hcp Hlen Hcl Hon Hko Hrg Htsr Hwr Hcap] P.
  split; [exact Hlen|]. split.
  { intros i Hi. destruct (Hcl i Hi) as [j [Lj [Pj [Cj _]]]]. eauto. }
  split; [|split; [exact Hon | exact Hnd]].
  exists (wino wr). split; [exact Hc|]. split; [exact Hcp|]. unfold cur_view. rewrite P, app_nil_r. reflexivity.
Qed.

Lemma reltk_view c crit e lo n x a ks ts : RelTK c crit e lo n x a ks ts -> pending x = [] ->
  ts_dir c e (wfs (s_w x)) ks a /\ keys_ok ks /\ (forall k, In k ks -> (lo <= fst k <= wnow (s_w x))%Z).
Proof.
  intros [_ [_ R]] P. destruct a as [[closed cur]|]; cbn [ts_dir].
  - destruct R as [wr [roll [Es [I [V _]]]]]. unfold pending in P. rewrite Es in P. cbn [st_ts f_inner] in P.
    split; [rewrite <- V; apply (tsinv_view c e lo _ _ _ _ ts); assumption|].
    split; [exact (ti_keys _ _ _ _ _ _ _ _ I)|].
    intros k Ik. pose proof (ti_range _ _ _ _ _ _ _ _ I k Ik). pose proof (ti_ts _ _ _ _ _ _ _ _ I). lia.
  - destruct R as [-> [_ [_ [Hn _]]]]. split; [split; [exact Hn | reflexivity]|]. split; [constructor | intros k []].
Qed.

(* a flush: the relation is kept, nothing is pending afterwards *)
Lemma flush_rel_ts_k c crit e lo n x a ks ts : tscfg c crit -> RelTK c crit e lo n x a ks ts ->
  RelTK c crit e lo n (fst (step x OFlush)) a ks ts /\ pending (fst (step x OFlush)) = []
  /\ wnow (s_w (fst (step x OFlush))) = wnow (s_w x).
Proof.
  intros Hcfg R0. rewrite (step_sync_rel_ts c crit e lo n x a OFlush Hcfg (reltk_relt _ _ _ _ _ _ _ _ _ R0)). cbn [sync_step].
  destruct R0 as [Ht [Ha R]]. destruct a as [[closed cur]|].
  - destruct R as [wr [roll [Es [I [V [Hn ZR]]]]]]. rewrite Es. cbn [st_ts f_poisoned].
    destruct (flush_active_ts c e lo (s_w x) wr ks closed ts roll I) as [w' [wr' [E [I' [V' [P' S']]]]]].
    fold (st_ts c ts roll wr). rewrite E. cbn [fst s_w]. split; [|split].
    + split; [exact Ht|]. split; [exact (same_env_acts _ _ S' Ha)|]. exists wr', roll. cbn [s_flw s_w].
      split; [reflexivity|]. split; [exact I'|]. split; [congruence|]. split; [exact Hn | exact ZR].
    + unfold pending. cbn [s_flw st_ts f_inner]. exact P'.
    + exact (same_env_now _ _ S').
  - destruct R as [Ek [Es R]]. rewrite Es. cbn [new_flw f_poisoned flush_state f_inner fst s_w]. split; [|split].
    + split; [exact Ht|]. split; [exact Ha|]. split; [exact Ek|]. split; [reflexivity | exact R].
    + unfold pending. cbn [s_flw f_inner]. reflexivity.
    + reflexivity.
Qed.

(* the drop of the writer *)
Lemma stop_rel_ts_k c crit e lo n x a ks ts : tscfg c crit -> RelTK c crit e lo n x a ks ts ->
  let x' := fst (step x OStop) in
  ts_dir c e (wfs (s_w x')) ks a /\ keys_ok ks /\ (forall k, In k ks -> (lo <= fst k <= wnow (s_w x))%Z)
  /\ s_flw x' = None.
Proof.
  intros Hcfg R0. cbn zeta. rewrite (step_sync_rel_ts c crit e lo n x a OStop Hcfg (reltk_relt _ _ _ _ _ _ _ _ _ R0)).
  destruct R0 as [Ht [Ha R]]. cbn [sync_step]. destruct a as [[closed cur]|]; cbn [ts_dir].
  - destruct R as [wr [roll [Es [I [V _]]]]]. rewrite Es. cbn [st_ts f_poisoned]. unfold drop_state.
    destruct (shutdown_active_ts c e lo (s_w x) wr ks closed ts roll I Ha) as [w1 [wr1 [E1 [I1 [V1 [P1 A1]]]]]]. fold (st_ts c ts roll wr). rewrite E1.
    destruct (shutdown_active_ts c e lo w1 wr1 ks closed ts roll I1 A1) as [w2 [wr2 [E2 [I2 [V2 [P2 A2]]]]]]. rewrite E2.
    cbn [st_ts f_inner s_w s_flw fst]. unfold w_drop.
    destruct (w_flush_quiet w2 wr2 (ti_quiet _ _ _ _ _ _ _ _ I2)) as [w3 [E3 [F3 S3]]]. rewrite E3. cbn [fst snd].
    rewrite P2, append_ino_nil_id in F3. rewrite F3.
    split; [rewrite <- V, <- V1, <- V2; apply (tsinv_view c e lo _ _ _ _ ts); assumption|].
    split; [exact (ti_keys _ _ _ _ _ _ _ _ I)|]. split; [|reflexivity].
    intros k Ik. pose proof (ti_range _ _ _ _ _ _ _ _ I k Ik). pose proof (ti_ts _ _ _ _ _ _ _ _ I). lia.
  - destruct R as [-> [Es [Q [Hn Hi]]]]. rewrite Es. cbn [new_flw f_poisoned drop_state shutdown_state f_inner s_w s_flw fst].
    split; [split; [exact Hn | reflexivity]|]. split; [constructor|]. split; [intros k [] | reflexivity].
Qed.

(* ------------------------------------------------------------------ whole runs, synchronous modes *)
Section SyncRuns.
Variables (c : config) (crit : criterion) (t0 off : Z) (ops : list op).
Hypothesis Hcfg : tscfg c crit.
Hypothesis T : tag_ok c.
Hypothesis Hb : Forall basic_op ops.
Hypothesis Htk : Forall tick_ok ops.
Hypothesis Hlo : (0 <= t0 + ts_e c off)%Z.
Hypothesis Hhi : (t0 + elapsed ops + ts_e c off < sec_max)%Z.
Hypothesis Hmax : (N.of_nat (length ops) <= usize_max)%N.

(* the state after the history *)
Lemma ts_run_k :
  exists x0 ob0, step (sys0 t0 off) (OStart c) = (x0, ob0) /\ ob0 = ObsRes 0%N false /\
    let x1 := fst (run x0 ops) in
    let a := a_run None ops (snd (run x0 ops)) in
    let st := kt_run ([], t0) None t0 ops (snd (run x0 ops)) in
    RelTK c crit (ts_e c off) t0 (length ops) x1 a (fst st) (snd st)
    /\ wnow (s_w x1) = (t0 + elapsed ops)%Z
    /\ Forall obs_ok (snd (run x0 ops))
    /\ flat a = written ops
    /\ (forall m, crit = CSize m ->
          a = s_run m None ops /\ fst st = ts_keys m t0 ops
          /\ (forall i o, nth_error ops i = Some o -> forall b, (o = OWrite b \/ o = OPlain b) ->
                nth_error (snd (run x0 ops)) i = Some (ObsRes 0 (m <? N.of_nat (length (cur_of (s_run m None (firstn i ops)))))%N))).
Proof.
  destruct (step (sys0 t0 off) (OStart c)) as [x0 ob0] eqn:E0.
  exists x0, ob0. split; [reflexivity|]. split; [cbn in E0; injection E0 as _ <-; reflexivity|].
  pose proof (start_rel_ts_k c crit t0 off t0) as R0. rewrite E0 in R0. cbn [fst] in R0.
  pose proof (start_rel_ts c t0 off) as R0'. rewrite E0 in R0'. cbn [fst] in R0'.
  assert (W0 : wnow (s_w x0) = t0) by (cbn in E0; injection E0 as <- _; reflexivity).
  assert (Y : years_ok (ts_e c off) t0 (t0 + elapsed ops)) by (split; assumption).
  pose proof (run_rel_ts_k c crit _ _ _ Hcfg T Y ops x0 None ([], t0) 0 R0 Hb Htk ltac:(lia) ltac:(cbn [Nat.add]; exact Hmax)) as H.
  pose proof (run_ok_ts c crit _ _ _ Hcfg T Y ops x0 None 0 R0' Hb Htk ltac:(lia) ltac:(cbn [Nat.add]; exact Hmax)) as K1.
  cbv zeta in H. destruct H as [R1 [W1 Z1]]. rewrite W0 in *. cbn [Nat.add] in R1. cbn zeta.
  split; [exact R1|]. split; [exact W1|]. split; [exact K1|].
  split. { pose proof (a_run_flat ops None (snd (run x0 ops)) Hb (run_length ops x0)) as F. cbn [flat app] in F. exact F. }
  intros m Hm. destruct (Z1 m Hm) as [Ea [Ek Ef]]. split; [exact Ea|]. split; [rewrite Ek; reflexivity | exact Ef].
Qed.

(* the hypotheses of the simulation *)
Lemma ts_sync_ok :
  Forall obs_ok (snd (run (sys0 t0 off) (OStart c :: ops))) /\ quiet (s_w (fst (run (sys0 t0 off) (OStart c :: ops)))).
Proof.
  destruct ts_run_k as [x0 [ob0 [E0 [Eob [R1 [_ [K1 _]]]]]]]. cbn [run]. rewrite E0.
  destruct (run x0 ops) as [x1 obs1]. cbn [fst snd] in *. subst ob0.
  split; [constructor; [reflexivity | exact K1] | exact (reltk_quiet _ _ _ _ _ _ _ _ _ R1)].
Qed.

(* after the drop of the writer: the closed files under their keys and rCURRENT; NEW for this naming: for a size criterion
   they hold the greedy partition, under the keys ts_keys m t0 ops *)
Theorem ts_stop_sync :
  let x := fst (run (sys0 t0 off) (OStart c :: ops ++ [OStop])) in
  exists keys a,
    ts_dir c (ts_e c off) (wfs (s_w x)) keys a /\ flat a = written ops
    /\ keys_ok keys /\ (forall k, In k keys -> (t0 <= fst k <= t0 + elapsed ops)%Z)
    /\ s_flw x = None
    /\ (forall m, crit = CSize m ->
          a = s_run m None ops /\ files_of a = expected_files m None (items false ops) /\ keys = ts_keys m t0 ops).
Proof.
  destruct ts_run_k as [x0 [ob0 [E0 [_ [R1 [W1 [_ [F Z]]]]]]]]. cbn zeta in *. cbn [run]. rewrite E0, run_app.
  destruct (run x0 ops) as [x1 obs1]. cbn [fst snd] in *.
  destruct (stop_rel_ts_k c crit _ _ _ x1 _ _ _ Hcfg R1) as [V [K [Rg Fl]]]. cbn [run]. destruct (step x1 OStop) as [x2 ob2]. cbn [fst] in *.
  eexists. eexists. split; [exact V|]. split; [exact F|]. split; [exact K|].
  split; [intros k Ik; specialize (Rg k Ik); lia|]. split; [exact Fl|].
  intros m Hm. destruct (Z m Hm) as [Ea [Ek _]]. split; [exact Ea|]. split; [rewrite Ea; apply s_run_none; exact Hb | exact Ek].
Qed.

(* after a flush *)
Theorem ts_flush_sync :
  let x := fst (run (sys0 t0 off) (OStart c :: ops ++ [OFlush])) in
  exists keys a,
    ts_dir c (ts_e c off) (wfs (s_w x)) keys a /\ flat a = written ops
    /\ keys_ok keys /\ (forall k, In k keys -> (t0 <= fst k <= t0 + elapsed ops)%Z)
    /\ pending x = []
    /\ (forall m, crit = CSize m ->
          a = s_run m None ops /\ files_of a = expected_files m None (items false ops) /\ keys = ts_keys m t0 ops).
Proof.
  destruct ts_run_k as [x0 [ob0 [E0 [_ [R1 [W1 [_ [F Z]]]]]]]]. cbn zeta in *. cbn [run]. rewrite E0, run_app.
  destruct (run x0 ops) as [x1 obs1]. cbn [fst snd] in *.
  destruct (flush_rel_ts_k c crit _ _ _ x1 _ _ _ Hcfg R1) as [R2 [P W2]]. cbn [run]. destruct (step x1 OFlush) as [x2 ob2]. cbn [fst] in *.
  destruct (reltk_view c crit _ _ _ x2 _ _ _ R2 P) as [V [K Rg]].
  eexists. eexists. split; [exact V|]. split; [exact F|]. split; [exact K|].
  split; [intros k Ik; specialize (Rg k Ik); lia|]. split; [exact P|].
  intros m Hm. destruct (Z m Hm) as [Ea [Ek _]]. split; [exact Ea|]. split; [rewrite Ea; apply s_run_none; exact Hb | exact Ek].
Qed.
End SyncRuns.

(* NEW for this naming: each write reports a rotation exactly when the current file (disk + buffer) already exceeds the
   limit (synchronous modes; the asynchronous caller never sees the flag) *)
Theorem timestamps_rotates_iff c m t0 off ops i o b :
  tscfg c (CSize m) -> tag_ok c -> Forall basic_op ops -> Forall tick_ok ops ->
  (0 <= t0 + ts_e c off)%Z -> (t0 + elapsed ops + ts_e c off < sec_max)%Z -> (N.of_nat (length ops) <= usize_max)%N ->
  nth_error ops i = Some o -> (o = OWrite b \/ o = OPlain b) ->
  nth_error (snd (run (sys0 t0 off) (OStart c :: ops))) (S i)
  = Some (ObsRes 0 (m <? N.of_nat (length (cur_of (s_run m None (firstn i ops)))))%N).
Proof.
  intros Hcfg T Hb Htk Hlo Hhi Hmax Hi Ho.
  destruct (ts_run_k c (CSize m) t0 off ops Hcfg T Hb Htk Hlo Hhi Hmax) as [x0 [ob0 [E0 [_ [_ [_ [_ [_ Z]]]]]]]].
  destruct (Z m eq_refl) as [_ [_ Hr]]. cbn [run]. rewrite E0. destruct (run x0 ops) as [x1 obs1]. cbn [snd nth_error] in *.
  exact (Hr i o Hi b Ho).
Qed.

Print Assumptions ts_stop_sync.
Print Assumptions ts_flush_sync.
Print Assumptions timestamps_rotates_iff.

(* ================================================================== Part B: any mode *)
(* Timestamps naming, no cleanup, no start-time part, no symlink; ANY write mode; use_utc either way *)
Definition tsmcfg (c : config) (crit : criterion) : Prop :=
  c_rot c = Some (crit, NTimestamps, KNever) /\ fts (c_spec c) = false /\ c_symlink c = false.
Definition tsacfg (c : config) (crit : criterion) : Prop := tsmcfg c crit /\ c_async c = true.

Lemma tsmcfg_sync c crit : tsmcfg c crit -> tscfg (sync_of c) crit.
Proof. intros [H1 [H2 H3]]. repeat split; assumption. Qed.
Lemma tscfg_any c crit : tscfg c crit -> tsmcfg c crit.
Proof. intros [H1 [H2 [H3 _]]]. repeat split; assumption. Qed.
Lemma tsmcfg_mode c1 c2 crit : same_but_mode c1 c2 -> tsmcfg c1 crit -> tsmcfg c2 crit.
Proof. intros [S1 [_ [S3 [_ [S5 _]]]]] [H1 [H2 H3]]. repeat split; congruence. Qed.

Lemma same_mode_ts_dir c1 c2 e f keys a : same_but_mode c1 c2 -> ts_dir c1 e f keys a -> ts_dir c2 e f keys a.
Proof. intros Hm. unfold ts_dir, ts_view, kname, cname. rewrite (same_mode_nm c1 c2 Hm). exact (fun H => H). Qed.

Lemma elapsed_snoc_flush ops : elapsed (ops ++ [OFlush]) = elapsed ops.
Proof. induction ops as [|o r IH]; [reflexivity|]. cbn [app elapsed]. rewrite IH. reflexivity. Qed.
Lemma ticks_snoc_flush ops : Forall tick_ok ops -> Forall tick_ok (ops ++ [OFlush]).
Proof. intros H. apply Forall_app. split; [exact H | repeat constructor]. Qed.

Section AnyMode.
Variables (c : config) (crit : criterion) (t0 off : Z) (ops : list op).
Hypothesis Hcfg : tsmcfg c crit.
Hypothesis T : tag_ok c.
Hypothesis Hb : Forall basic_op ops.
Hypothesis Htk : Forall tick_ok ops.
Hypothesis Hlo : (0 <= t0 + ts_e c off)%Z.
Hypothesis Hhi : (t0 + elapsed ops + ts_e c off < sec_max)%Z.
Hypothesis Hmax : (N.of_nat (length ops) <= usize_max)%N.

Let Hs : tscfg (sync_of c) crit := tsmcfg_sync c crit Hcfg.

Lemma ts_ok_sync_of :
  Forall obs_ok (snd (run (sys0 t0 off) (OStart (sync_of c) :: ops)))
  /\ quiet (s_w (fst (run (sys0 t0 off) (OStart (sync_of c) :: ops)))).
Proof. exact (ts_sync_ok (sync_of c) crit t0 off ops Hs T Hb Htk Hlo Hhi Hmax). Qed.

Lemma ts_to_sync :
  let r := run (sys0 t0 off) (OStart c :: ops) in
  let rs := run (sys0 t0 off) (OStart (sync_of c) :: ops) in
  let r' := run (sys0 t0 off) (OStart c :: ops ++ [OStop]) in
  let rs' := run (sys0 t0 off) (OStart (sync_of c) :: ops ++ [OStop]) in
  s_w (fst r) = s_w (fst rs) /\ pending (fst r) = pending (fst rs) /\ s_w (fst r') = s_w (fst rs').
Proof. destruct ts_ok_sync_of as [K Q]. exact (to_sync c t0 off ops Hb K Q). Qed.

Lemma ts_stop_flw : s_flw (fst (run (sys0 t0 off) (OStart c :: ops ++ [OStop]))) = None.
Proof.
  destruct (c_async c) eqn:Ha.
  - destruct ts_ok_sync_of as [K Q]. destruct (async_transfer c t0 off ops Ha Hb K Q) as [_ [_ [Fa _]]]. exact Fa.
  - pose proof (ts_stop_sync (sync_of c) crit t0 off ops Hs T Hb Htk Hlo Hhi Hmax) as H. cbn zeta in H.
    rewrite (sync_of_sync c Ha) in H. destruct H as [keys [a [_ [_ [_ [_ [Fl _]]]]]]]. exact Fl.
Qed.

(* C04, drop of the writer (shutdown + drop of the last handle), any mode: the directory consists of the closed files
   under their keys and rCURRENT (ts_dir), their contents in this order are the bytes written; for a size criterion they are
   the greedy partition and the keys are ts_keys m t0 ops - functions of the history and the clock alone *)
Theorem ts_stop_durable :
  let x := fst (run (sys0 t0 off) (OStart c :: ops ++ [OStop])) in
  exists keys a,
    ts_dir c (ts_e c off) (wfs (s_w x)) keys a /\ flat a = written ops
    /\ keys_ok keys /\ (forall k, In k keys -> (t0 <= fst k <= t0 + elapsed ops)%Z)
    /\ pending x = [] /\ s_flw x = None
    /\ (forall m, crit = CSize m ->
          a = s_run m None ops /\ files_of a = expected_files m None (items false ops) /\ keys = ts_keys m t0 ops).
Proof.
  cbn zeta. destruct ts_to_sync as [_ [_ E]]. cbn zeta in E. rewrite E.
  destruct (ts_stop_sync (sync_of c) crit t0 off ops Hs T Hb Htk Hlo Hhi Hmax) as [keys [a [V [F [K [Rg [_ Z]]]]]]].
  exists keys, a. split; [exact V|]. split; [exact F|]. split; [exact K|]. split; [exact Rg|].
  split; [unfold pending; rewrite ts_stop_flw; reflexivity|]. split; [exact ts_stop_flw | exact Z].
Qed.
End AnyMode.

(* C04, flush, any mode.  Asynchronous mode: "after the flush" is after the writer thread has consumed the flush message -
   in the model and in the test harness that is before the next operation starts *)
Theorem ts_flush_durable c crit t0 off ops :
  tsmcfg c crit -> tag_ok c -> Forall basic_op ops -> Forall tick_ok ops ->
  (0 <= t0 + ts_e c off)%Z -> (t0 + elapsed ops + ts_e c off < sec_max)%Z -> (N.of_nat (S (length ops)) <= usize_max)%N ->
  let x := fst (run (sys0 t0 off) (OStart c :: ops ++ [OFlush])) in
  exists keys a,
    ts_dir c (ts_e c off) (wfs (s_w x)) keys a /\ flat a = written ops
    /\ keys_ok keys /\ (forall k, In k keys -> (t0 <= fst k <= t0 + elapsed ops)%Z)
    /\ pending x = []
    /\ (forall m, crit = CSize m ->
          a = s_run m None ops /\ files_of a = expected_files m None (items false ops) /\ keys = ts_keys m t0 ops).
Proof.
  intros Hcfg T Hb Htk Hlo Hhi Hmax. cbn zeta.
  assert (Hmax' : (N.of_nat (length (ops ++ [OFlush])) <= usize_max)%N) by (rewrite app_length; cbn [length]; lia).
  destruct (ts_to_sync c crit t0 off (ops ++ [OFlush]) Hcfg T (basic_snoc_flush ops Hb) (ticks_snoc_flush ops Htk) Hlo
              ltac:(rewrite elapsed_snoc_flush; exact Hhi) Hmax') as [E [P _]].
  cbn zeta in E, P. rewrite E, P.
  assert (Hmax0 : (N.of_nat (length ops) <= usize_max)%N) by lia.
  exact (ts_flush_sync (sync_of c) crit t0 off ops (tsmcfg_sync _ _ Hcfg) T Hb Htk Hlo Hhi Hmax0).
Qed.

(* C15: two configurations that differ in the write mode only - Direct, buffered with any capacity, asynchronous with
   either - leave, after the same operations under the same clock and the drop of the writer, the same directory: the
   same names (rCURRENT and the closed files under the keys ts_keys m t0 ops) with the same contents - the greedy partition
   s_run m None ops of the written records and chunks -, and nothing else *)
Theorem ts_modes c1 c2 m t0 off ops :
  same_but_mode c1 c2 -> tsmcfg c1 (CSize m) -> tag_ok c1 -> Forall basic_op ops -> Forall tick_ok ops ->
  (0 <= t0 + ts_e c1 off)%Z -> (t0 + elapsed ops + ts_e c1 off < sec_max)%Z -> (N.of_nat (length ops) <= usize_max)%N ->
  let f1 := wfs (s_w (fst (run (sys0 t0 off) (OStart c1 :: ops ++ [OStop])))) in
  let f2 := wfs (s_w (fst (run (sys0 t0 off) (OStart c2 :: ops ++ [OStop])))) in
  let keys := ts_keys m t0 ops in
  let a := s_run m None ops in
  ts_dir c1 (ts_e c1 off) f1 keys a /\ ts_dir c1 (ts_e c1 off) f2 keys a /\ ts_dir c2 (ts_e c2 off) f2 keys a
  /\ files_of a = expected_files m None (items false ops)
  /\ keys_ok keys /\ (forall k, In k keys -> (t0 <= fst k <= t0 + elapsed ops)%Z).
Proof.
  intros Hm H1 T1 Hb Htk Hlo Hhi Hmax. cbn zeta.
  pose proof (tsmcfg_mode c1 c2 _ Hm H1) as H2. pose proof (same_mode_tag_ok c1 c2 Hm T1) as T2.
  pose proof (same_mode_ts_e c1 c2 off Hm) as Ee.
  destruct (ts_stop_durable c1 (CSize m) t0 off ops H1 T1 Hb Htk Hlo Hhi Hmax) as [k1 [a1 [V1 [_ [K1 [R1 [_ [_ Z1]]]]]]]].
  destruct (ts_stop_durable c2 (CSize m) t0 off ops H2 T2 Hb Htk ltac:(rewrite <- Ee; exact Hlo) ltac:(rewrite <- Ee; exact Hhi) Hmax)
    as [k2 [a2 [V2 [_ [_ [_ [_ [_ Z2]]]]]]]].
  cbn zeta in *. destruct (Z1 m eq_refl) as [-> [Ef ->]]. destruct (Z2 m eq_refl) as [-> [_ ->]].
  split; [exact V1|]. split; [|split; [exact V2 | split; [exact Ef | split; assumption]]].
  rewrite Ee. apply (same_mode_ts_dir c2 c1); [apply same_but_mode_sym; exact Hm | exact V2].
Qed.

(* flushed directories agree across the modes *)
Theorem ts_modes_flushed c1 c2 m t0 off ops :
  same_but_mode c1 c2 -> tsmcfg c1 (CSize m) -> tag_ok c1 -> Forall basic_op ops -> Forall tick_ok ops ->
  (0 <= t0 + ts_e c1 off)%Z -> (t0 + elapsed ops + ts_e c1 off < sec_max)%Z -> (N.of_nat (S (length ops)) <= usize_max)%N ->
  let x1 := fst (run (sys0 t0 off) (OStart c1 :: ops ++ [OFlush])) in
  let x2 := fst (run (sys0 t0 off) (OStart c2 :: ops ++ [OFlush])) in
  let keys := ts_keys m t0 ops in
  let a := s_run m None ops in
  ts_dir c1 (ts_e c1 off) (wfs (s_w x1)) keys a /\ ts_dir c1 (ts_e c1 off) (wfs (s_w x2)) keys a
  /\ pending x1 = [] /\ pending x2 = [].
Proof.
  intros Hm H1 T1 Hb Htk Hlo Hhi Hmax. cbn zeta.
  pose proof (tsmcfg_mode c1 c2 _ Hm H1) as H2. pose proof (same_mode_tag_ok c1 c2 Hm T1) as T2.
  pose proof (same_mode_ts_e c1 c2 off Hm) as Ee.
  destruct (ts_flush_durable c1 (CSize m) t0 off ops H1 T1 Hb Htk Hlo Hhi Hmax) as [k1 [a1 [V1 [_ [_ [_ [P1 Z1]]]]]]].
  destruct (ts_flush_durable c2 (CSize m) t0 off ops H2 T2 Hb Htk ltac:(rewrite <- Ee; exact Hlo) ltac:(rewrite <- Ee; exact Hhi) Hmax)
    as [k2 [a2 [V2 [_ [_ [_ [P2 Z2]]]]]]].
  cbn zeta in *. destruct (Z1 m eq_refl) as [-> [_ ->]]. destruct (Z2 m eq_refl) as [-> [_ ->]].
  split; [exact V1|]. split; [|split; [exact P1 | exact P2]].
  rewrite Ee. apply (same_mode_ts_dir c2 c1); [apply same_but_mode_sym; exact Hm | exact V2].
Qed.

(* ------------------------------------------------------------------ the asynchronous mode, spelled out *)
(* the stream: any criterion *)
Theorem async_ts_stream c crit t0 off ops :
  tsacfg c crit -> tag_ok c -> Forall basic_op ops -> Forall tick_ok ops ->
  (0 <= t0 + ts_e c off)%Z -> (t0 + elapsed ops + ts_e c off < sec_max)%Z -> (N.of_nat (length ops) <= usize_max)%N ->
  let f := wfs (s_w (fst (run (sys0 t0 off) (OStart c :: ops ++ [OStop])))) in
  (names f = [] /\ written ops = [])
  \/ exists keys closed cur,
       ts_view c (ts_e c off) f keys closed cur
       /\ concat closed ++ cur = written ops
       /\ keys_ok keys
       /\ (forall k, In k keys -> (t0 <= fst k <= t0 + elapsed ops)%Z).
Proof.
  intros [Hcfg _] T Hb Htk Hlo Hhi Hmax. cbn zeta.
  destruct (ts_stop_durable c crit t0 off ops Hcfg T Hb Htk Hlo Hhi Hmax) as [keys [a [V [F [K [Rg _]]]]]].
  destruct a as [[closed cur]|]; cbn [ts_dir flat] in *.
  - right. exists keys, closed, cur. auto.
  - left. split; [apply V | symmetry; exact F].
Qed.

(* size criterion: the greedy partition, under the keys ts_keys *)
Theorem async_ts_partition c m t0 off ops :
  tsacfg c (CSize m) -> tag_ok c -> Forall basic_op ops -> Forall tick_ok ops ->
  (0 <= t0 + ts_e c off)%Z -> (t0 + elapsed ops + ts_e c off < sec_max)%Z -> (N.of_nat (length ops) <= usize_max)%N ->
  ts_dir c (ts_e c off) (wfs (s_w (fst (run (sys0 t0 off) (OStart c :: ops ++ [OStop]))))) (ts_keys m t0 ops) (s_run m None ops)
  /\ files_of (s_run m None ops) = expected_files m None (items false ops)
  /\ keys_ok (ts_keys m t0 ops) /\ (forall k, In k (ts_keys m t0 ops) -> (t0 <= fst k <= t0 + elapsed ops)%Z).
Proof.
  intros [Hcfg _] T Hb Htk Hlo Hhi Hmax.
  destruct (ts_stop_durable c (CSize m) t0 off ops Hcfg T Hb Htk Hlo Hhi Hmax) as [keys [a [V [F [K [Rg [_ [_ Z]]]]]]]].
  destruct (Z m eq_refl) as [-> [Ef ->]]. auto.
Qed.

(* what the caller of an asynchronous writer observes: every operation except a snapshot returns "ok, no rotation" - also
   the writes at which the writer thread rotates; after the drop there is no writer, the thread is gone, nothing is pending *)
Theorem async_ts_observations c crit t0 off ops :
  tsacfg c crit -> tag_ok c -> Forall basic_op ops -> Forall tick_ok ops ->
  (0 <= t0 + ts_e c off)%Z -> (t0 + elapsed ops + ts_e c off < sec_max)%Z -> (N.of_nat (length ops) <= usize_max)%N ->
  let r := run (sys0 t0 off) (OStart c :: ops ++ [OStop]) in
  Forall2 aobs (OStart c :: ops ++ [OStop]) (snd r)
  /\ s_flw (fst r) = None /\ s_dead (fst r) = true /\ pending (fst r) = [].
Proof.
  intros [Hcfg Ha] T Hb Htk Hlo Hhi Hmax. cbn zeta.
  destruct (ts_ok_sync_of c crit t0 off ops Hcfg T Hb Htk Hlo Hhi Hmax) as [K Q].
  destruct (async_transfer c t0 off ops Ha Hb K Q) as [_ [_ [Fa [Da O]]]].
  split; [exact O|]. split; [exact Fa|]. split; [exact Da|]. unfold pending. rewrite Fa. reflexivity.
Qed.

(* flush: as ts_flush_durable, and the writer thread is still running *)
Theorem async_ts_flush_durable c crit t0 off ops :
  tsacfg c crit -> tag_ok c -> Forall basic_op ops -> Forall tick_ok ops ->
  (0 <= t0 + ts_e c off)%Z -> (t0 + elapsed ops + ts_e c off < sec_max)%Z -> (N.of_nat (S (length ops)) <= usize_max)%N ->
  let x := fst (run (sys0 t0 off) (OStart c :: ops ++ [OFlush])) in
  exists keys a,
    ts_dir c (ts_e c off) (wfs (s_w x)) keys a /\ flat a = written ops
    /\ keys_ok keys /\ (forall k, In k keys -> (t0 <= fst k <= t0 + elapsed ops)%Z)
    /\ pending x = [] /\ s_dead x = false
    /\ (forall m, crit = CSize m ->
          a = s_run m None ops /\ files_of a = expected_files m None (items false ops) /\ keys = ts_keys m t0 ops).
Proof.
  intros [Hcfg Ha] T Hb Htk Hlo Hhi Hmax. cbn zeta.
  destruct (ts_flush_durable c crit t0 off ops Hcfg T Hb Htk Hlo Hhi Hmax) as [keys [a [V [F [K [Rg [P Z]]]]]]]. cbn zeta in *.
  exists keys, a. split; [exact V|]. split; [exact F|]. split; [exact K|]. split; [exact Rg|]. split; [exact P|]. split; [|exact Z].
  assert (Hmax' : (N.of_nat (length (ops ++ [OFlush])) <= usize_max)%N) by (rewrite app_length; cbn [length]; lia).
  destruct (ts_ok_sync_of c crit t0 off (ops ++ [OFlush]) Hcfg T (basic_snoc_flush ops Hb) (ticks_snoc_flush ops Htk) Hlo
              ltac:(rewrite elapsed_snoc_flush; exact Hhi) Hmax') as [K' Q'].
  destruct (async_transfer c t0 off (ops ++ [OFlush]) Ha (basic_snoc_flush ops Hb) K' Q') as [S _]. apply S.
Qed.

(* drop: as ts_stop_durable, and the writer thread has ended *)
Theorem async_ts_stop_durable c crit t0 off ops :
  tsacfg c crit -> tag_ok c -> Forall basic_op ops -> Forall tick_ok ops ->
  (0 <= t0 + ts_e c off)%Z -> (t0 + elapsed ops + ts_e c off < sec_max)%Z -> (N.of_nat (length ops) <= usize_max)%N ->
  let x := fst (run (sys0 t0 off) (OStart c :: ops ++ [OStop])) in
  exists keys a,
    ts_dir c (ts_e c off) (wfs (s_w x)) keys a /\ flat a = written ops
    /\ keys_ok keys /\ (forall k, In k keys -> (t0 <= fst k <= t0 + elapsed ops)%Z)
    /\ pending x = [] /\ s_flw x = None /\ s_dead x = true
    /\ (forall m, crit = CSize m ->
          a = s_run m None ops /\ files_of a = expected_files m None (items false ops) /\ keys = ts_keys m t0 ops).
Proof.
  intros [Hcfg Ha] T Hb Htk Hlo Hhi Hmax. cbn zeta.
  destruct (ts_stop_durable c crit t0 off ops Hcfg T Hb Htk Hlo Hhi Hmax) as [keys [a [V [F [K [Rg [P [Fl Z]]]]]]]]. cbn zeta in *.
  exists keys, a. split; [exact V|]. split; [exact F|]. split; [exact K|]. split; [exact Rg|]. split; [exact P|]. split; [exact Fl|].
  split; [|exact Z]. apply (async_ts_observations c crit t0 off ops (conj Hcfg Ha) T Hb Htk Hlo Hhi Hmax).
Qed.

(* the asynchronous writer and the synchronous writer of the same capacity go through the very same worlds (file system,
   clock, error channel), with and without the final drop - ANY criterion; the caller's observations differ in the rotation
   flag only, which the asynchronous caller never sees *)
Theorem async_ts_worlds c crit t0 off ops :
  tsacfg c crit -> tag_ok c -> Forall basic_op ops -> Forall tick_ok ops ->
  (0 <= t0 + ts_e c off)%Z -> (t0 + elapsed ops + ts_e c off < sec_max)%Z -> (N.of_nat (length ops) <= usize_max)%N ->
  let ra := run (sys0 t0 off) (OStart c :: ops) in
  let rs := run (sys0 t0 off) (OStart (sync_of c) :: ops) in
  let ra' := run (sys0 t0 off) (OStart c :: ops ++ [OStop]) in
  let rs' := run (sys0 t0 off) (OStart (sync_of c) :: ops ++ [OStop]) in
  s_w (fst ra) = s_w (fst rs) /\ snd ra = List.map no_rot (snd rs)
  /\ s_w (fst ra') = s_w (fst rs') /\ snd ra' = List.map no_rot (snd rs').
Proof.
  intros [Hcfg Ha] T Hb Htk Hlo Hhi Hmax. cbn zeta.
  destruct (ts_ok_sync_of c crit t0 off ops Hcfg T Hb Htk Hlo Hhi Hmax) as [K Q].
  destruct (async_sim_whole c t0 off ops Ha Hb K) as [[E1 [E2 _]] St]. destruct (St Q) as [E3 [E4 _]].
  repeat split; assumption.
Qed.

Print Assumptions ts_stop_durable.
Print Assumptions ts_flush_durable.
Print Assumptions ts_modes.
Print Assumptions ts_modes_flushed.
Print Assumptions async_ts_stream.
Print Assumptions async_ts_partition.
Print Assumptions async_ts_observations.
Print Assumptions async_ts_flush_durable.
Print Assumptions async_ts_stop_durable.
Print Assumptions async_ts_worlds.

(* ------------------------------------------------------------------ "the same directory", literally *)
Lemma ts_dir_same_dir c e f1 f2 keys a : ts_dir c e f1 keys a -> ts_dir c e f2 keys a ->
  same_dir f1 f2 /\ snap_list f1 = snap_list f2.
Proof.
  destruct a as [[closed cur]|]; cbn [ts_dir].
  - intros [_ [A1 [[jc1 [Lc1 [Pc1 Cc1]]] [B1 N1]]]] [_ [A2 [[jc2 [Lc2 [Pc2 Cc2]]] [B2 N2]]]].
    assert (S : same_dir f1 f2).
    { apply (same_dir_of_entries f1 f2 (fun i => if i <? length closed then kname c e (nth i keys kd) else cname c)
               (fun i => if i <? length closed then nth i closed [] else cur) (S (length closed))).
      - intros i Hi. destruct (Nat.ltb_spec i (length closed)) as [Hl|Hl]; [apply A1; exact Hl | eauto].
      - intros n j L. destruct (B1 n j L) as [->|[i [Hi ->]]].
        + exists (length closed). rewrite Nat.ltb_irrefl. split; [lia | reflexivity].
        + exists i. rewrite (proj2 (Nat.ltb_lt _ _) Hi). split; [lia | reflexivity].
      - intros i Hi. destruct (Nat.ltb_spec i (length closed)) as [Hl|Hl]; [apply A2; exact Hl | eauto].
      - intros n j L. destruct (B2 n j L) as [->|[i [Hi ->]]].
        + exists (length closed). rewrite Nat.ltb_irrefl. split; [lia | reflexivity].
        + exists i. rewrite (proj2 (Nat.ltb_lt _ _) Hi). split; [lia | reflexivity]. }
    split; [exact S | apply same_dir_snap; assumption].
  - intros [Hn1 _] [Hn2 _]. split.
    + intros n. unfold dview. rewrite !lookup_empty by assumption. reflexivity.
    + unfold snap_list, dir_names. rewrite Hn1, Hn2. reflexivity.
Qed.

(* C15 once more: the two final directories are the same map from names to files (kind, content), and the snapshots -
   names in sorted order with kind and content - are equal *)
Theorem ts_modes_same_dir c1 c2 m t0 off ops :
  same_but_mode c1 c2 -> tsmcfg c1 (CSize m) -> tag_ok c1 -> Forall basic_op ops -> Forall tick_ok ops ->
  (0 <= t0 + ts_e c1 off)%Z -> (t0 + elapsed ops + ts_e c1 off < sec_max)%Z -> (N.of_nat (length ops) <= usize_max)%N ->
  let x1 := fst (run (sys0 t0 off) (OStart c1 :: ops ++ [OStop])) in
  let x2 := fst (run (sys0 t0 off) (OStart c2 :: ops ++ [OStop])) in
  same_dir (wfs (s_w x1)) (wfs (s_w x2)) /\ snap_of x1 = snap_of x2.
Proof.
  intros Hm H1 T1 Hb Htk Hlo Hhi Hmax. cbn zeta.
  destruct (ts_modes c1 c2 m t0 off ops Hm H1 T1 Hb Htk Hlo Hhi Hmax) as [V1 [V2 _]]. cbn zeta in *.
  rewrite !snap_of_list. exact (ts_dir_same_dir c1 _ _ _ _ _ V1 V2).
Qed.
Print Assumptions ts_modes_same_dir.

(* ------------------------------------------------------------------ examples *)
Section Examples.
Open Scope string_scope.
(* app_rCURRENT.log / app_r<time stamp>[.restart-NNNN].log, rotation when the current file holds more than 3 bytes *)
Definition exsm (cap : option nat) (async : bool) : config := with_mode (ext_cfg (ex_sp "log") false (CSize 3) None false) cap async.
Definition exsm_direct := exsm None false.
Definition exsm_buffered := exsm (Some 4%nat) false.
Definition exsm_async := exsm (Some 4%nat) true.        (* the writer thread writes through a BufWriter of 4 bytes *)
Definition exsm_async_unbuffered := exsm None true.

Lemma exsm_tag_ok cap async : tag_ok (exsm cap async).
Proof. apply tag_free_ok. split; vm_compute; reflexivity. Qed.

(* the history of TsdAsync.extm_hist: a trigger before the first record, a rotation by size in second 3, a trigger in the
   same second, a rotation by size in second 5.  The hypotheses are satisfiable *)
Example exsm_hyps :
  tscfg exsm_direct (CSize 3) /\ tscfg exsm_buffered (CSize 3) /\ tsacfg exsm_async (CSize 3)
  /\ tsacfg exsm_async_unbuffered (CSize 3)
  /\ same_but_mode exsm_direct exsm_buffered /\ same_but_mode exsm_direct exsm_async /\ same_but_mode exsm_buffered exsm_async_unbuffered
  /\ (0 <= 0 + ts_e exsm_direct 0)%Z /\ (0 + elapsed extm_hist + ts_e exsm_direct 0 < sec_max)%Z
  /\ (N.of_nat (S (length extm_hist)) <= usize_max)%N.
Proof. repeat split; try discriminate. Qed.

(* each closed file carries the second in which it was started; the file started by the last rotation is rCURRENT *)
Definition exsm_dir : list (bytes * N * bytes) :=
  [ (bs "app_r1970-01-01_00-00-00.log", 0%N, bs "abcd"); (bs "app_r1970-01-01_00-00-03.log", 0%N, bs "ef");
    (bs "app_r1970-01-01_00-00-03.restart-0000.log", 0%N, bs "ghijkl"); (bs "app_rCURRENT.log", 0%N, bs "m") ].

(* the directory after the history and the drop of the writer: the same in the four modes *)
Example exsm_dir_direct : snap_of (fst (run (sys0 0 0) (OStart exsm_direct :: extm_hist ++ [OStop]))) = exsm_dir.
Proof. vm_compute. reflexivity. Qed.
Example exsm_dir_buffered : snap_of (fst (run (sys0 0 0) (OStart exsm_buffered :: extm_hist ++ [OStop]))) = exsm_dir.
Proof. vm_compute. reflexivity. Qed.
Example exsm_dir_async : snap_of (fst (run (sys0 0 0) (OStart exsm_async :: extm_hist ++ [OStop]))) = exsm_dir.
Proof. vm_compute. reflexivity. Qed.
Example exsm_dir_async_unbuffered : snap_of (fst (run (sys0 0 0) (OStart exsm_async_unbuffered :: extm_hist ++ [OStop]))) = exsm_dir.
Proof. vm_compute. reflexivity. Qed.

(* the keys and the contents as the theorems have them: functions of the history and the clock *)
Example exsm_keys : ts_keys 3 0 extm_hist = [(0%Z, 0); (3%Z, 0); (3%Z, 1)]
  /\ s_run 3 None extm_hist = Some ([bs "abcd"; bs "ef"; bs "ghijkl"], bs "m")
  /\ List.map (kname exsm_direct 0) (ts_keys 3 0 extm_hist) ++ [cname exsm_direct]
     = List.map (fun x : bytes * N * bytes => fst (fst x)) exsm_dir.
Proof. vm_compute. repeat split; reflexivity. Qed.

(* instance of ts_modes: Direct against asynchronous-buffered *)
Example exsm_modes_instance :
  let f1 := wfs (s_w (fst (run (sys0 0 0) (OStart exsm_direct :: extm_hist ++ [OStop])))) in
  let f2 := wfs (s_w (fst (run (sys0 0 0) (OStart exsm_async :: extm_hist ++ [OStop])))) in
  ts_view exsm_direct 0 f1 [(0%Z, 0); (3%Z, 0); (3%Z, 1)] [bs "abcd"; bs "ef"; bs "ghijkl"] (bs "m")
  /\ ts_view exsm_direct 0 f2 [(0%Z, 0); (3%Z, 0); (3%Z, 1)] [bs "abcd"; bs "ef"; bs "ghijkl"] (bs "m").
Proof.
  destruct (ts_modes exsm_direct exsm_async 3 0 0 extm_hist) as [V1 [V2 _]];
    [repeat split | repeat split | apply exsm_tag_ok | exact extm_hist_basic | exact extm_hist_ticks
     | change (0 <= 0)%Z; lia | change (5 < sec_max)%Z; unfold sec_max; lia | vm_compute; discriminate |].
  cbn zeta in *. destruct exsm_keys as [Ek [Ea _]]. rewrite Ek, Ea in V1, V2. split; [exact V1 | exact V2].
Qed.

(* the snapshots before and after the flush: with a BufWriter of 4 bytes the record "ef" is still pending at the first
   one - in buffered and in asynchronous mode alike - and on the disk at the second, in every mode *)
Definition exsm_snap (cur : bytes) : obs :=
  ObsSnap [(bs "app_r1970-01-01_00-00-00.log", 0%N, bs "abcd"); (bs "app_rCURRENT.log", 0%N, cur)] None [].
Example exsm_snaps_direct : snaps exsm_direct extm_hist = [exsm_snap (bs "ef"); exsm_snap (bs "ef")].
Proof. vm_compute. reflexivity. Qed.
Example exsm_snaps_buffered : snaps exsm_buffered extm_hist = [exsm_snap (bs ""); exsm_snap (bs "ef")].
Proof. vm_compute. reflexivity. Qed.
Example exsm_snaps_async : snaps exsm_async extm_hist = [exsm_snap (bs ""); exsm_snap (bs "ef")].
Proof. vm_compute. reflexivity. Qed.
Example exsm_snaps_async_unbuffered : snaps exsm_async_unbuffered extm_hist = [exsm_snap (bs "ef"); exsm_snap (bs "ef")].
Proof. vm_compute. reflexivity. Qed.

(* the rotation flags: the synchronous caller sees the rotations at the writes of "ef" and of "m" (timestamps_rotates_iff),
   the asynchronous never *)
Example exsm_flags_buffered : rots_seen exsm_buffered extm_hist
  = [false; false; false; false; true; false; false; false; false; false; false; false; true; false]%bool.
Proof. vm_compute. reflexivity. Qed.
Example exsm_flags_async : rots_seen exsm_async extm_hist
  = [false; false; false; false; false; false; false; false; false; false; false; false; false; false]%bool.
Proof. vm_compute. reflexivity. Qed.
Example exsm_rotates_instance :
  nth_error (snd (run (sys0 0 0) (OStart exsm_buffered :: extm_hist))) 4 = Some (ObsRes 0 true).
Proof.
  rewrite (timestamps_rotates_iff exsm_buffered 3 0 0 extm_hist 3 (OWrite (bs "ef")) (bs "ef"));
    [vm_compute; reflexivity | repeat split | apply exsm_tag_ok | exact extm_hist_basic | exact extm_hist_ticks
     | change (0 <= 0)%Z; lia | change (5 < sec_max)%Z; unfold sec_max; lia | vm_compute; discriminate | reflexivity | left; reflexivity].
Qed.

(* instance of async_ts_flush_durable: the prefix of the history up to the record "ef", then a flush *)
Example exsm_flush_instance :
  let x := fst (run (sys0 0 0) (OStart exsm_async :: [OTrigger; OWrite (bs "abcd"); OTick 3; OWrite (bs "ef")] ++ [OFlush])) in
  ts_view exsm_async 0 (wfs (s_w x)) [(0%Z, 0)] [bs "abcd"] (bs "ef") /\ pending x = [] /\ s_dead x = false.
Proof.
  destruct (async_ts_flush_durable exsm_async (CSize 3) 0 0 [OTrigger; OWrite (bs "abcd"); OTick 3; OWrite (bs "ef")])
    as [keys [a [V [_ [_ [_ [P [D Z]]]]]]]];
    [repeat split | apply exsm_tag_ok | repeat constructor
     | repeat (apply Forall_cons; [cbn [tick_ok]; first [exact Logic.I | lia]|]); apply Forall_nil
     | change (0 <= 0)%Z; lia | change (3 < sec_max)%Z; unfold sec_max; lia | vm_compute; discriminate |].
  cbn zeta in *. destruct (Z 3%N eq_refl) as [-> [_ ->]]. split; [exact V | split; [exact P | exact D]].
Qed.

(* NOT covered by ts_modes (size criterion only): an age criterion, a zone offset of two hours.  The rotation decision depends
   on the clock and on the creation time of the current file, not on the buffer; the four modes agree on this history (computed) *)
Definition exsm_age (cap : option nat) (async : bool) : config := with_mode (ext_c2 false) cap async.
Example exsm_age_modes_agree :
  let dir c := snap_of (fst (run (sys0 1700000000 7200) (OStart c :: ext_ops2 ++ [OStop]))) in
  dir (exsm_age None false) = [ (bs "srv_a1_r2023-11-15_00-13-20", 0%N, bs "x"); (bs "srv_a1_rCURRENT", 0%N, bs "yz") ]
  /\ dir (exsm_age (Some 100%nat) false) = dir (exsm_age None false)
  /\ dir (exsm_age (Some 100%nat) true) = dir (exsm_age None false)
  /\ dir (exsm_age None true) = dir (exsm_age None false).
Proof. vm_compute. repeat split; reflexivity. Qed.
End Examples.
