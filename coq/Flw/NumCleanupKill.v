(* Numbers naming WITH a cleanup strategy (KeepLogFiles n, KeepCompressedFiles m, or both), direct mode, a process
   that is killed at an arbitrary effect - rename, create, write, and inside the cleanup: remove_file, and the four
   effects of compress_file (create archive, copy, finish, remove original).
   Theorem numbers_cleanup_kill_keeps_acked: the directory left behind, read as the reader does (kill_view in
   NumCleanupKillDir.v), holds a tail of the acknowledged records that is at least as long as the limits allow. *)
Require Import FL.Base.Bytes FL.Base.BytesFacts FL.Base.PathName FL.Fs.Fs FL.Fs.FsFacts FL.Time.Civil FL.Time.TsFormat
  FL.Names.FileSpec FL.Names.NamesFacts FL.Names.SortFacts FL.Names.FamilyFacts FL.Flw.Model FL.Flw.ModelFacts FL.Flw.NumFs
  FL.Flw.NumInv FL.Flw.Run FL.Flw.RunFacts FL.Flw.NumRun FL.Flw.NumListing FL.Oracles.O_Flw FL.Flw.NumTheorems FL.Flw.CleanupFacts
  FL.Flw.NumCleanupNames FL.Flw.NumCleanupStep FL.Flw.NumCleanupRun FL.Flw.NumRestart FL.Flw.KillFacts FL.Flw.NumKill
  FL.Flw.NumCleanupKillDir FL.Flw.NumCleanupKillStep.
From Coq Require Import ZifyN ZifyNat ZifyBool.
Open Scope nat_scope.

(* ------------------------------------------------------------------ the directory of a killed process *)
Definition ocb (o : option bytes) : bytes := match o with Some cu => cu | None => [] end.

(* a well-formed file system that holds closed files in one of the shapes of xdir, not cleaned beyond the limits *)
Definition XD (c : config) (k : cleanup) (f : fs) (closed : list bytes) (ocur : option bytes) : Prop :=
  exists lo mid red, fs_wf f /\ nodup_names f /\ xdir c (file_of f) closed ocur lo mid red /\ uncl k (length closed) lo mid.

Definition DeadK (c : config) (k : cleanup) (w : world) (closed : list bytes) (ocur : option bytes) : Prop :=
  dead w /\ XD c k (wfs w) closed ocur.

Lemma kst_xd c k f0 f closed ocur lo mid red : kst c f0 f closed ocur lo mid red -> uncl k (length closed) lo mid ->
  XD c k f closed ocur.
Proof. intros [W Nd X _] U. exists lo, mid, red. auto. Qed.

Lemma numkinv_kst c q wr closed lo mid : NumKInv c q wr closed lo mid -> wpend wr = [] ->
  kst c (wfs q) (wfs q) closed (Some (cur_view q wr)) lo mid None.
Proof.
  intros [Q W Hc Hcp KD Hwr Hcap] P. constructor.
  - exact W.
  - exact (kd_nodup _ _ _ _ _ KD).
  - apply kdir_xdir; [exact KD|]. exists (wino wr). split; [exact Hc|]. split; [exact Hcp|].
    unfold cur_view. rewrite P, app_nil_r. reflexivity.
  - apply same_at_refl.
Qed.

Lemma numkinv_xd c k q wr closed : NumKInv c q wr closed (k_lo k (length closed)) (k_mid k (length closed)) -> wpend wr = [] ->
  XD c k (wfs q) closed (Some (cur_view q wr)).
Proof. intros I P. eapply kst_xd; [apply (numkinv_kst c q wr closed _ _ I P) | apply uncl_exact]. Qed.

Lemma kst_numkinv c q f0 f' wr closed lo mid cu :
  quiet q -> kst c f0 f' closed (Some cu) lo mid None -> lookup f0 (cname c) = Some (wino wr) -> wr_ok wr -> wcap wr = c_cap c ->
  wpend wr = [] ->
  NumKInv c (set_fs q f') wr closed lo mid /\ cur_view (set_fs q f') wr = cu.
Proof.
  intros Q [W Nd X Sc] Lc Hok Hcap P.
  destruct (same_at_content _ _ _ _ Sc Lc) as [Lc' Ic'].
  destruct (xdir_cur_lookup c f' closed cu lo mid None X) as (j & Lj & Pj & Cj).
  rewrite Lc' in Lj. injection Lj as <-.
  split.
  - constructor.
    + apply quiet_set_fs2. exact Q.
    + exact W.
    + exact Lc'.
    + exact Pj.
    + eapply xdir_kdir; eassumption.
    + exact Hok.
    + exact Hcap.
  - unfold cur_view. rewrite wfs_set_fs, P, app_nil_r. exact Cj.
Qed.

Section Direct.
Variables (c : config) (crit : criterion) (k : cleanup) (n m : nat).
Hypothesis Hcfg : numkcfg c crit k.
Hypothesis Hk : klim k = Some (n, m).
Hypothesis Hcap : c_cap c = None.
Hypothesis Hsfx : sfx_ok (c_spec c).

Lemma direct_wr_k q wr cl lo mid : NumKInv c q wr cl lo mid -> wpend wr = [] /\ wcap wr = None.
Proof.
  intros I. pose proof (nk_wr _ _ _ _ _ _ I) as Hw. pose proof (nk_cap _ _ _ _ _ _ I) as Hc. rewrite Hcap in Hc.
  unfold wr_ok in Hw. rewrite Hc in Hw. split; assumption.
Qed.

Lemma kside_of L : kside c k L.
Proof. unfold kside. rewrite Hk. exact Hsfx. Qed.

(* ---- one rotation with a budget: rename, create, cleanup ---- *)
Lemma mount_next_kk q wr closed roll force j :
  NumKInv c q wr closed (k_lo k (length closed)) (k_mid k (length closed)) ->
  force || rotation_necessary q roll = true ->
  exists r w' st',
    mount_next c (kw q (S j)) (Active (Some (mk_rsk k (NSNumR (N.of_nat (length closed))) roll)) wr (cname c)) force = (r, w', st') /\
    ( (exists q' j' wr' roll', w' = kw q' (S j') /\ r = Ok tt
         /\ st' = Active (Some (mk_rsk k (NSNumR (N.of_nat (S (length closed)))) roll')) wr' (cname c)
         /\ NumKInv c q' wr' (closed ++ [cur_view q wr]) (k_lo k (S (length closed))) (k_mid k (S (length closed)))
         /\ cur_view q' wr' = [] /\ roll_size_ok roll' 0 /\ same_env q q'
         /\ (forall m0 cur, roll = RSize m0 cur -> exists cur', roll' = RSize m0 cur'))
      \/ (exists qd cl oc, w' = kw qd 0 /\ quiet qd /\ XD c k (wfs qd) cl oc
            /\ concat cl ++ ocb oc = concat closed ++ cur_view q wr /\ length cl <= S (length closed)) ).
Proof.
  intros I Hnec. pose proof Hcfg as (Hrot & Hts & Hlink & Has & Hbg).
  pose proof I as [Q W Hc Hcp KD Hwr Hcapw]. destruct (direct_wr_k q wr closed _ _ I) as [Hp Hc0].
  set (L := length closed) in *.
  destruct (kdir_rotate c (wfs q) closed _ _ (wino wr) (wpend wr) (wnow q) W KD Hc Hcp) as (Ht & f1 & Er & L1c & R).
  cbn zeta in R. destruct R as (W3 & L3c & Inew & KD3). rewrite Hp, append_ino_nil_id in W3, L3c, Inew, KD3. fold L in Ht, Er, KD3.
  rewrite app_nil_r in KD3.
  set (f2 := fst (create_file f1 (cname c) 0%N (wnow q))) in *. set (new := snd (create_file f1 (cname c) 0%N (wnow q))) in *.
  assert (Ecv : cur_view q wr = content (wfs q) (wino wr)) by (unfold cur_view; rewrite Hp, app_nil_r; reflexivity).
  assert (Hcur : match file_of (wfs q) (cname c) with Some fl => fdir fl | None => false end = false).
  { unfold file_of. rewrite Hc. apply Hcp. }
  pose proof (numkinv_kst c q wr closed _ _ I Hp) as K0.
  unfold mount_next. cbn [mk_rsk rs_roll rs_naming rs_cleanup rs_bg]. rewrite rot_nec_kw, Hnec.
  unfold index_for_rcurrent. rewrite !(name_of_fixed c (kw q (S j))) by assumption.
  fold (nm c cur_infix) (nm c (number_infix (N.of_nat L))). fold (cname c) (rname c L).
  rewrite p_rename_kw by exact Q. rewrite Er.
  destruct j as [|[|j']]; cbn [eff].
  - (* killed at the rename *)
    pose proof (dead_kw q Q) as Hd.
    destruct (open_log_file_dead c (kw q 0) (Some cur_infix) Hd) as [r2 E2]. rewrite E2.
    assert (D : exists qd cl oc, kw q 0 = kw qd 0 /\ quiet qd /\ XD c k (wfs qd) cl oc
            /\ concat cl ++ ocb oc = concat closed ++ cur_view q wr /\ length cl <= S L).
    { exists q, closed, (Some (cur_view q wr)). split; [reflexivity|]. split; [exact Q|].
      split; [apply (numkinv_xd c k q wr closed I Hp)|]. split; [reflexivity | fold L; lia]. }
    destruct r2 as [[wr' path']| |]; [|eexists _, _, _; split; [reflexivity | right; exact D]..].
    destruct (w_flush_dead (kw q 0) wr Hd) as [wra Ef]. rewrite Ef. cbv beta iota zeta. rewrite w_drop_dead by assumption.
    unfold cleanup_or_queue. destruct (cleanup_impl_dead c (kw q 0) k IFNum None Hd) as [rc Ec].
    cbn [ns_filter ns_writes_direct]. rewrite Ec. eexists _, _, _. split; [reflexivity | right; exact D].
  - (* killed at the creation of the new current file *)
    rewrite Er. cbv beta iota zeta.
    unfold open_log_file. rewrite (name_of_fixed c (kw (set_fs q f1) 1)) by assumption. fold (nm c cur_infix) (cname c).
    unfold do_symlink. rewrite Hlink.
    rewrite p_open_kw by (apply quiet_set_fs; exact Q). rewrite wfs_set_fs. unfold file_of at 1. rewrite L1c. cbn [eff].
    pose proof (dead_kw (set_fs q f1) (quiet_set_fs q f1 Q)) as Hd.
    destruct (w_flush_dead (kw (set_fs q f1) 0) wr Hd) as [wra Ef]. rewrite Ef. cbv beta iota zeta. rewrite w_drop_dead by assumption.
    unfold cleanup_or_queue. destruct (cleanup_impl_dead c (kw (set_fs q f1) 0) k IFNum None Hd) as [rc Ec].
    cbn [ns_filter ns_writes_direct]. rewrite Ec. eexists _, _, _. split; [reflexivity|]. right.
    exists (set_fs q f1), (closed ++ [cur_view q wr]), None. split; [reflexivity|]. split; [apply quiet_set_fs; exact Q|].
    split.
    { exists (k_lo k L), (k_mid k L), None. rewrite wfs_set_fs.
      split; [exact (wf_rename _ _ _ _ W Er)|]. split; [exact (nd_rename _ _ _ _ Er (kd_nodup _ _ _ _ _ KD))|].
      split.
      - eapply xdir_ext; [intros y; apply (file_of_rename (wfs q) (cname c) (rname c L) (wino wr)); [intros E; exact (rname_not_cname c L (eq_sym E)) | exact Hc | exact Er]|].
        apply xdir_rename_cur. exact (ks_x _ _ _ _ _ _ _ _ K0).
      - rewrite app_length. cbn [length]. fold L. replace (L + 1) with (S L) by lia. apply uncl_grow, uncl_exact. }
    split; [cbn [ocb]; rewrite concat_app; cbn [concat]; rewrite !app_nil_r; reflexivity|].
    rewrite app_length. cbn [length]. lia.
  - (* rename and creation are done: the cleanup *)
    rewrite Er. cbv beta iota zeta.
    unfold open_log_file. rewrite (name_of_fixed c (kw (set_fs q f1) (S (S j')))) by assumption. fold (nm c cur_infix) (cname c).
    unfold do_symlink. rewrite Hlink.
    rewrite p_open_kw by (apply quiet_set_fs; exact Q). rewrite wfs_set_fs. unfold file_of at 1. rewrite L1c. cbn [eff].
    rewrite !wfs_set_fs.
    assert (Eopen : (if c_append c then open_append f1 (cname c) (wnow (set_fs q f1)) else open_trunc f1 (cname c) 0%N (wnow (set_fs q f1)))
                    = create_file f1 (cname c) 0%N (wnow q)).
    { destruct (c_append c); [apply open_append_fresh | apply open_trunc_fresh]; exact L1c. }
    rewrite Eopen. fold f2 new. rewrite set_fs_set_fs. cbv beta iota zeta.
    rewrite w_flush_nop by exact Hp. cbv beta iota zeta. rewrite w_drop_nop by reflexivity.
    unfold cleanup_or_queue. cbn [ns_filter ns_writes_direct].
    set (q2 := set_fs q f2).
    assert (Q2 : quiet q2) by (apply quiet_set_fs; exact Q).
    set (wr' := {| wino := new; wpend := []; wcap := c_cap c |}).
    set (closed' := closed ++ [content (wfs q) (wino wr)]) in *.
    assert (EL : length closed' = S L) by (unfold closed'; rewrite app_length; cbn [length]; fold L; lia).
    assert (K2 : kst c (wfs q2) (wfs q2) closed' (Some []) (k_lo k (length closed' - 1)) (k_mid k (length closed' - 1)) None).
    { rewrite EL. replace (S L - 1) with L by lia. unfold q2. rewrite wfs_set_fs. constructor.
      - exact W3.
      - exact (kd_nodup _ _ _ _ _ KD3).
      - apply kdir_xdir; [exact KD3|]. exists new. split; [exact L3c|]. rewrite Inew. split; [split; reflexivity|].
        unfold content. rewrite Inew. reflexivity.
      - apply same_at_refl. }
    destruct (cleanup_budget c crit k n m q2 closed' (Some []) j' Hcfg Hk Hsfx Q2 K2)
      as (rc & w4 & Ec & [(f' & j2 & -> & -> & K4) | (f' & lo & mid & red & -> & K4 & U4)]).
    + rewrite Ec. eexists _, _, _. split; [reflexivity|]. left.
      exists (set_fs q2 f'), j2, wr', (reset_size_and_date (kw q2 (S j')) roll (cname c)).
      split; [reflexivity|]. split; [reflexivity|].
      split. { replace (N.of_nat L + 1)%N with (N.of_nat (S L)) by lia. reflexivity. }
      assert (Lc2 : lookup (wfs q2) (cname c) = Some (wino wr')) by (unfold q2; rewrite wfs_set_fs; exact L3c).
      destruct (kst_numkinv c q2 (wfs q2) f' wr' closed' _ _ [] Q2 K4 Lc2) as [I4 V4].
      { unfold wr_ok, wr'. cbn. rewrite Hcap. reflexivity. } { reflexivity. } { reflexivity. }
      rewrite EL in I4. rewrite Ecv. fold closed'.
      split; [exact I4|]. split; [exact V4|].
      split. { rewrite reset_kw. destruct roll; cbn; auto. }
      split. { unfold q2. rewrite set_fs_set_fs. apply same_env_set_fs. exact Q. }
      intros m0 cur ->. cbn. eauto.
    + rewrite Ec. eexists _, _, _. split; [reflexivity|]. right.
      exists (set_fs q2 f'), closed', (Some []). split; [reflexivity|]. split; [apply quiet_set_fs; exact Q2|].
      split; [rewrite wfs_set_fs; exact (kst_xd c k _ _ _ _ _ _ _ K4 U4)|].
      split. { unfold closed'. cbn [ocb]. rewrite concat_app, Ecv. cbn [concat]. rewrite !app_nil_r. reflexivity. }
      rewrite EL. lia.
Qed.


(* ---- one write(2) of the unbuffered writer with a budget ---- *)
Lemma w_write_kk q wr cl lo mid b j :
  NumKInv c q wr cl lo mid ->
  exists w', w_write (kw q (S j)) wr b = (true, w', wr) /\
   ( (exists q' j', w' = kw q' (S j') /\ NumKInv c q' wr cl lo mid /\ cur_view q' wr = cur_view q wr ++ b /\ same_env q q')
     \/ w' = kw q 0 ).
Proof.
  intros I. destruct (direct_wr_k q wr cl lo mid I) as [Hp Hc0]. pose proof (nk_quiet _ _ _ _ _ _ I) as Q.
  unfold w_write. rewrite Hc0. rewrite p_write_kw by exact Q.
  destruct b as [|x b].
  - eexists. split; [reflexivity|]. left. exists q, j. split; [reflexivity|]. split; [exact I|].
    split; [rewrite app_nil_r; reflexivity | apply same_env_refl; exact Q].
  - destruct j as [|j']; cbn [eff].
    + eexists. split; [reflexivity|]. right. reflexivity.
    + eexists. split; [reflexivity|]. left. exists (set_fs q (append_ino (wfs q) (wino wr) (x :: b))), j'.
      split; [reflexivity|].
      destruct (numkinv_append c q (set_fs q (append_ino (wfs q) (wino wr) (x :: b))) wr wr cl lo mid (x :: b) I eq_refl
                  (same_env_set_fs q _ Q) eq_refl eq_refl (nk_wr _ _ _ _ _ _ I)) as [I2 C2].
      split; [exact I2|]. split; [|apply same_env_set_fs; exact Q].
      unfold cur_view. rewrite C2, Hp, !app_nil_r. reflexivity.
Qed.

(* ---- a write on an active writer with a budget: every kill point ---- *)
Lemma write_active_kk q wr cl roll b j :
  NumKInv c q wr cl (k_lo k (length cl)) (k_mid k (length cl)) -> roll_size_ok roll (length (cur_view q wr)) ->
  exists r w' s' rot', write_buffer (st_ofk c k (length cl) roll wr) (kw q (S j)) b = (r, w', s', rot') /\
  ( (exists q' j' wr' roll' cl', w' = kw q' (S j') /\ r = Ok tt /\ s' = st_ofk c k (length cl') roll' wr'
       /\ rot' = rotation_necessary q roll
       /\ NumKInv c q' wr' cl' (k_lo k (length cl')) (k_mid k (length cl')) /\ roll_size_ok roll' (length (cur_view q' wr')) /\ same_env q q'
       /\ (cl', cur_view q' wr') = (if rotation_necessary q roll then (cl ++ [cur_view q wr], b) else (cl, cur_view q wr ++ b))
       /\ (forall m0 cur, roll = RSize m0 cur -> exists cur', roll' = RSize m0 cur'))
    \/ (exists qd cld oc, w' = kw qd 0 /\ quiet qd /\ XD c k (wfs qd) cld oc
          /\ concat cld ++ ocb oc = concat cl ++ cur_view q wr /\ length cld <= S (length cl)) ).
Proof.
  intros I Hsz. destruct (direct_wr_k q wr cl _ _ I) as [Hp Hc0]. pose proof (nk_quiet _ _ _ _ _ _ I) as Q.
  unfold write_buffer, st_ofk. cbn [f_cfg f_inner f_poisoned mk_rsk rs_roll]. rewrite rot_nec_kw.
  destruct (rotation_necessary q roll) eqn:Er.
  - (* the write rotates first *)
    destruct (mount_next_kk q wr cl roll false j I) as (r1 & w1 & st1 & E1 & M); [cbn [orb]; exact Er|].
    rewrite E1.
    destruct M as [(q1 & j1 & wr1 & roll1 & -> & -> & -> & I1 & V1 & Z1 & S1 & R1) | (qd & cld & oc & -> & Qd & Xd & Fl & Len)].
    + cbv beta iota zeta.
      assert (EL : length (cl ++ [cur_view q wr]) = S (length cl)) by (rewrite app_length; cbn [length]; lia).
      rewrite <- EL in I1.
      destruct (w_write_kk q1 wr1 (cl ++ [cur_view q wr]) _ _ b j1 I1) as [w2 [Ew Out]]. rewrite Ew.
      eexists _, w2, _, true. split; [reflexivity|].
      destruct Out as [[q2 [j2 [-> [I2 [V2 S2]]]]] | ->].
      * left. exists q2, j2, wr1, (increase_size roll1 (N.of_nat (length b))), (cl ++ [cur_view q wr]).
        split; [reflexivity|]. split; [reflexivity|]. split; [unfold st_ofk; rewrite EL; reflexivity|]. split; [reflexivity|].
        split; [exact I2|]. rewrite V1 in V2. cbn [app] in V2.
        split. { rewrite V2. apply (roll_size_increase roll1 0 (length b)). exact Z1. }
        split; [eapply same_env_trans; eassumption|].
        split; [rewrite V2; reflexivity|].
        intros m0 cur Hr. destruct (R1 m0 cur Hr) as [cur' ->]. cbn. eauto.
      * right. destruct (direct_wr_k q1 wr1 _ _ _ I1) as [Hp1 _].
        exists q1, (cl ++ [cur_view q wr]), (Some (cur_view q1 wr1)).
        split; [reflexivity|]. split; [apply I1|]. split; [exact (numkinv_xd c k q1 wr1 _ I1 Hp1)|].
        split.
        -- cbn [ocb]. rewrite V1, concat_app. cbn [concat]. rewrite !app_nil_r. reflexivity.
        -- rewrite EL. lia.
    + destruct (wb_tail_dead {| f_cfg := c; f_inner := Active (Some (mk_rsk k (NSNumR (N.of_nat (length cl))) roll)) wr (cname c); f_poisoned := false |}
                  b r1 (kw qd 0) st1 true (dead_kw qd Qd)) as [r [s' ET]].
      exists r, (kw qd 0), s', true. split; [exact ET|]. right. exists qd, cld, oc. auto.
  - (* no rotation *)
    unfold mount_next. cbn [mk_rsk rs_roll orb]. rewrite rot_nec_kw, Er.
    destruct (w_write_kk q wr cl _ _ b j I) as [w2 [Ew Out]]. rewrite Ew.
    eexists _, w2, _, false. split; [reflexivity|].
    destruct Out as [[q2 [j2 [-> [I2 [V2 S2]]]]] | ->].
    + left. exists q2, j2, wr, (increase_size roll (N.of_nat (length b))), cl.
      split; [reflexivity|]. split; [reflexivity|]. split; [reflexivity|]. split; [reflexivity|].
      split; [exact I2|].
      split. { rewrite V2, app_length. apply roll_size_increase. exact Hsz. }
      split; [exact S2|]. split; [rewrite V2; reflexivity|].
      intros m0 cur ->. cbn. eauto.
    + right. exists q, cl, (Some (cur_view q wr)). split; [reflexivity|]. split; [exact Q|].
      split; [exact (numkinv_xd c k q wr cl I Hp)|]. split; [reflexivity | lia].
Qed.


(* ---- the first write: initialisation in the empty directory with a budget ---- *)
Lemma initialize_empty_kk q j :
  quiet q -> names (wfs q) = [] -> inodes (wfs q) = [] ->
  match j with
  | 0 => exists r, initialize c (kw q 1) = (r, kw q 0)
  | S j' => exists q' wr roll,
      initialize c (kw q (S (S j'))) = (Ok (Active (Some (mk_rsk k (NSNumR 0) roll)) wr (cname c)), kw q' (S j'))
      /\ NumKInv c q' wr [] 0 0 /\ cur_view q' wr = [] /\ roll_size_ok roll 0 /\ same_env q q'
      /\ (forall m0, crit = CSize m0 -> roll = RSize m0 0)
  end.
Proof.
  intros Q Hn Hi. pose proof Hcfg as (Hrot & Hts & Hlink & Has & Hbg).
  assert (E0 : forall b, (if negb (c_append c)
                then let '(r, w1) := p_rename (kw q b) (name_of c (kw q b) (Some cur_infix)) (name_of c (kw q b) (Some (number_infix 0))) in
                     match r with ROk => (Ok (0 + 1)%N, w1) | RNotFound => (Ok 0%N, w1) | RErr => (Err, w1) end
                else (Ok 0%N, kw q b)) = (Ok 0%N, kw q b)).
  { intros b. destruct (negb (c_append c)); [|reflexivity]. rewrite p_rename_kw by exact Q.
    rewrite rename_none by (apply lookup_empty; assumption). reflexivity. }
  assert (Hnd : match file_of (wfs q) (cname c) with Some fl => fdir fl | None => false end = false).
  { unfold file_of. rewrite lookup_empty by assumption. reflexivity. }
  assert (Eopen : (if c_append c then open_append (wfs q) (cname c) (wnow q) else open_trunc (wfs q) (cname c) 0%N (wnow q))
                  = create_file (wfs q) (cname c) 0%N (wnow q)).
  { destruct (c_append c); [apply open_append_fresh | apply open_trunc_fresh]; apply lookup_empty; assumption. }
  assert (Ecl : forall w ns nam, match k with KNever => (Ok tt, w) | _ => cleanup_impl c w k ns nam end = cleanup_impl c w k ns nam)
    by (intros; destruct k; reflexivity).
  assert (Ebg : match k with KNever => false | _ => c_bg c end = false) by (destruct k; auto).
  destruct j as [|j'].
  - unfold initialize. rewrite Hrot. unfold init_naming, index_for_rcurrent, with_listing.
    rewrite tick_kw by assumption.
    unfold get_highest_index, list_log_gz. rewrite existing_rot_empty by exact Hn. cbn [filter_map_opt max_opt bind].
    rewrite E0. cbn [bind].
    unfold open_log_file. rewrite (name_of_fixed c (kw q 1)) by assumption. fold (nm c cur_infix) (cname c).
    unfold do_symlink. rewrite Hlink. rewrite p_open_kw by exact Q. rewrite Hnd. cbn [eff bind fst snd].
    destruct (roll_new_dead (kw q 0) crit (c_append c) (cname c) (dead_kw q Q)) as [r3 E3]. rewrite E3.
    destruct r3; cbn [bind]; eauto.
    rewrite Ecl. destruct (cleanup_impl_dead c (kw q 0) k (ns_filter (NSNumR 0)) (if naming_writes_direct NNumbers then Some (cname c) else None) (dead_kw q Q)) as [r4 E4].
    rewrite E4. destruct r4; cbn [bind]; eauto. rewrite Ebg. eauto.
  - unfold initialize. rewrite Hrot. unfold init_naming, index_for_rcurrent, with_listing.
    rewrite tick_kw by assumption.
    unfold get_highest_index, list_log_gz. rewrite existing_rot_empty by exact Hn. cbn [filter_map_opt max_opt bind].
    rewrite E0. cbn [bind].
    unfold open_log_file. rewrite (name_of_fixed c (kw q (S (S j')))) by assumption. fold (nm c cur_infix) (cname c).
    unfold do_symlink. rewrite Hlink. rewrite p_open_kw by exact Q. rewrite Hnd. cbn [eff bind fst snd].
    rewrite !Eopen.
    set (q2 := set_fs q (fst (create_file (wfs q) (cname c) 0%N (wnow q)))).
    assert (Q2 : quiet q2) by (apply quiet_set_fs; exact Q).
    assert (F2 : wfs q2 = {| names := [(cname c, 0)]; inodes := [fresh_file (wnow q)] |}).
    { unfold q2. cbn [set_fs wfs]. unfold create_file. cbn [fst]. rewrite Hn, Hi. reflexivity. }
    assert (Eino : snd (create_file (wfs q) (cname c) 0%N (wnow q)) = 0) by (unfold create_file; cbn [snd]; rewrite Hi; reflexivity).
    rewrite Eino.
    set (wr := {| wino := 0; wpend := []; wcap := c_cap c |}).
    assert (Lc : lookup (wfs q2) (cname c) = Some 0) by (rewrite F2; unfold lookup; cbn; rewrite beq_refl; reflexivity).
    assert (Fo : file_of (wfs q2) (cname c) = Some (fresh_file (wnow q))) by (unfold file_of; rewrite Lc, F2; reflexivity).
    assert (RN : exists roll, roll_new (kw q2 (S j')) crit (c_append c) (cname c) = (Ok roll, kw q2 (S j')) /\ roll_size_ok roll 0
                 /\ (forall m0, crit = CSize m0 -> roll = RSize m0 0)).
    { unfold roll_new. destruct (c_append c).
      - rewrite tick_kw by exact Q2. cbn [kw set_kill wfs]. rewrite Fo. cbn [fresh_file fdata length].
        eexists. split; [reflexivity|]. split; [destruct crit; reflexivity|]. intros m0 ->. reflexivity.
      - eexists. split; [reflexivity|]. split; [destruct crit; reflexivity|]. intros m0 ->. reflexivity. }
    destruct RN as [roll [Ern [Z R]]]. rewrite Ern. cbn [bind].
    assert (I2 : NumKInv c q2 wr [] 0 0).
    { constructor.
      - exact Q2.
      - rewrite F2. split.
        + intros a j. unfold lookup; cbn. destruct (beq (cname c) a); [|discriminate]. intros E; injection E as <-. lia.
        + intros a b j. unfold lookup; cbn. destruct (beq_spec (cname c) a), (beq_spec (cname c) b); try discriminate. congruence.
      - exact Lc.
      - rewrite F2. split; reflexivity.
      - constructor.
        + cbn [length]. lia.
        + rewrite F2. unfold nodup_names, dir_names. cbn [names map fst]. constructor; [intros [] | constructor].
        + cbn [length]. intros i Hi'. lia.
        + intros i Hi'. lia.
        + intros x j. rewrite F2. unfold lookup; cbn. destruct (beq_spec (cname c) x); [auto | discriminate].
      - unfold wr_ok, wr. cbn. destruct (c_cap c); [lia | reflexivity].
      - reflexivity. }
    rewrite Ecl. change (ns_filter (NSNumR 0)) with IFNum. change (naming_writes_direct NNumbers) with false. cbv iota.
    rewrite (cleanup_budget_noop c crit k n m q2 [] 0 0 (S j') Hcfg Hk Hsfx Q2 (nk_dir _ _ _ _ _ _ I2) ltac:(cbn; lia)).
    cbn [bind]. rewrite Ebg.
    exists q2, wr, roll. split; [reflexivity|]. split; [exact I2|].
    split. { unfold cur_view, content, inode. rewrite F2. reflexivity. }
    split; [exact Z|]. split; [apply same_env_set_fs; exact Q | exact R].
Qed.


(* ------------------------------------------------------------------ the relation for a process with a budget *)
Definition KRelK (x : sys) (a : aview) : Prop :=
  exists q j, s_w x = kw q (S j) /\ RelK c crit k (with_w x q) a.

Lemma empty_xd f : names f = [] -> XD c k f [] None.
Proof.
  intros Hn. destruct (empty_view c f Hn) as [W _]. exists 0, 0, None. split; [exact W|].
  split; [unfold nodup_names, dir_names; rewrite Hn; constructor|].
  split; [|split; lia].
  assert (E : forall y, file_of f y = None) by (intros y; apply file_of_none; apply lookup_empty; exact Hn).
  constructor.
  - cbn [length]. lia.
  - cbn [length]. intros i Hi. lia.
  - intros i Hi. lia.
  - apply E.
  - exact I.
  - intros x fl Hx. rewrite E in Hx. discriminate.
Qed.

(* ---- a write, from either kind of state ---- *)
Lemma write_rel_kk x a b q j :
  s_w x = kw q (S j) -> RelK c crit k (with_w x q) a ->
  exists s r w' s' rot, s_flw x = Some s /\ f_poisoned s = false /\
    write_buffer s (s_w x) b = (r, w', s', rot) /\
    ( (r = Ok tt /\ KRelK {| s_flw := Some s'; s_w := w'; s_tl := []; s_dead := s_dead x |} (a_step a (OWrite b) rot))
      \/ (exists cl oc, DeadK c k w' cl oc /\ concat cl ++ ocb oc = flat a /\ length cl <= S (apot a)) ).
Proof.
  intros Ew [Ht [Ha R]]. cbn [with_w s_tl s_w s_flw] in Ht, Ha, R. rewrite Ew. destruct a as [[cl cu]|].
  - destruct R as [wr [roll [Es [I [V [Z RS]]]]]]. rewrite <- V in Z.
    destruct (write_active_kk q wr cl roll b j I Z) as [r [w' [s' [rot' [E Out]]]]].
    exists (st_ofk c k (length cl) roll wr), r, w', s', rot'. split; [exact Es|]. split; [reflexivity|]. split; [exact E|].
    destruct Out as [[q' [j' [wr' [roll' [cl' [-> [-> [-> [-> [I' [Z' [S' [V' R']]]]]]]]]]]]] | [qd [cld [oc [-> [Qd [Xd [Fl Len]]]]]]]].
    + left. split; [reflexivity|]. exists q', j'. split; [reflexivity|].
      split; [reflexivity|]. split; [cbn [with_w s_w]; exact (same_env_acts _ _ S' Ha)|].
      cbn [a_step]. rewrite V in V'.
      destruct (rotation_necessary q roll); injection V' as <- V''; (exists wr', roll'; cbn [with_w s_flw s_w];
        split; [reflexivity|]; split; [exact I'|]; split; [exact V''|]; split; [rewrite <- V''; exact Z'|];
        intros m0 Hm; destruct (RS m0 Hm) as [z ->]; destruct (R' m0 z eq_refl) as [z' ->]; eauto).
    + right. exists cld, oc. split; [split; [apply dead_kw; exact Qd | exact Xd]|].
      split; [rewrite Fl, V; reflexivity | exact Len].
  - destruct R as [Es [Q [Hn Hi]]].
    pose proof (initialize_empty_kk q j Q Hn Hi) as IE. destruct j as [|j'].
    + destruct IE as [r0 Ei].
      destruct (wb_initial_dead (new_flw c) (kw q 1) b r0 (kw q 0) eq_refl Ei (dead_kw q Q)) as [r [w' [s' [rot [E F]]]]].
      exists (new_flw c), r, w', s', rot. split; [exact Es|]. split; [reflexivity|]. split; [exact E|].
      right. exists [], None. destruct F as [D F]. cbn [kw set_kill wfs] in F.
      split; [split; [exact D | apply empty_xd; rewrite F; exact Hn]|]. split; [reflexivity | cbn; lia].
    + destruct IE as [q1 [wr [roll [Ei [I [V [Z [S1 RS]]]]]]]].
      assert (Z0 : roll_size_ok roll (length (cur_view q1 wr))) by (rewrite V; exact Z).
      assert (I0 : NumKInv c q1 wr [] (k_lo k (length (@nil bytes))) (k_mid k (length (@nil bytes))))
        by (cbn [length]; rewrite k_lo_0, k_mid_0; exact I).
      destruct (write_active_kk q1 wr [] roll b j' I0 Z0) as [r [w' [s' [rot' [E Out]]]]].
      exists (new_flw c), r, w', s', rot'. split; [exact Es|]. split; [reflexivity|].
      split. { rewrite (write_buffer_init c (kw q (S (S j'))) b _ _ _ (kw q1 (S j')) Ei). exact E. }
      destruct Out as [[q' [j2 [wr' [roll' [cl' [-> [-> [-> [-> [I' [Z' [S' [V' R']]]]]]]]]]]]] | [qd [cld [oc [-> [Qd [Xd [Fl Len]]]]]]]].
      * left. split; [reflexivity|]. exists q', j2. split; [reflexivity|].
        split; [reflexivity|]. split; [cbn [with_w s_w]; exact (same_env_acts _ _ (same_env_trans _ _ _ S1 S') Ha)|].
        cbn [a_step]. rewrite V in V'. cbn [app] in V'.
        destruct (rotation_necessary q1 roll); injection V' as <- V''; (exists wr', roll'; cbn [with_w s_flw s_w];
          split; [reflexivity|]; split; [exact I'|]; split; [exact V''|]; split; [rewrite <- V''; exact Z'|]).
        -- intros m0 Hm. rewrite (RS m0 Hm) in R'. destruct (R' m0 0%N eq_refl) as [z' ->]; eauto.
        -- intros m0 Hm. rewrite (RS m0 Hm) in R'. destruct (R' m0 0%N eq_refl) as [z' ->]; eauto.
      * right. exists cld, oc. split; [split; [apply dead_kw; exact Qd | exact Xd]|].
        split; [rewrite Fl, V; reflexivity | exact Len].
Qed.

Lemma krelk_flw x a : KRelK x a -> exists s, s_flw x = Some s /\ f_cfg s = c.
Proof.
  intros [q [j [_ [_ [_ R]]]]]. cbn [with_w s_flw] in R.
  destruct a as [[cl cu]|]; [destruct R as [wr [roll [Es _]]] | destruct R as [Es _]]; rewrite Es; eexists; split; reflexivity.
Qed.

Lemma step_sync_kk x a o : KRelK x a -> step x o = sync_step x o.
Proof.
  intros K. destruct (krelk_flw x a K) as [s [Es Ec]]. destruct Hcfg as (_ & Hts & _ & Ha & _).
  apply (step_sync_cfg x o s Es); rewrite Ec; assumption.
Qed.

(* ---- one basic operation of a process with a budget: it either completes (and is acknowledged), or the process dies
        in it, and then the directory holds a tail of what was acknowledged before ---- *)
Lemma kstep_k x a o : KRelK x a -> basic_op o ->
  let '(x', ob) := step x o in
  (alive (s_w x') = true /\ KRelK x' (a_step a o (rot_of ob)))
  \/ (alive (s_w x') = false /\ exists cl oc, DeadK c k (s_w x') cl oc /\ concat cl ++ ocb oc = flat a /\ length cl <= S (apot a)).
Proof.
  intros K Hb. rewrite (step_sync_kk x a o K). destruct K as [q [j [Ew R]]].
  destruct o; try contradiction; cbn [sync_step].
  - (* OWrite *)
    destruct (write_rel_kk x a b q j Ew R) as [s [r [w' [s' [rot [Es [Hp [E Out]]]]]]]].
    rewrite Es, Hp. pose proof (proj1 R) as Ht. cbn [with_w s_tl] in Ht. rewrite Ht. cbn [app]. rewrite E. cbn [rot_of].
    destruct Out as [[-> K'] | [cl [oc [D [Fl Len]]]]].
    + left. split; [|exact K']. destruct K' as [q' [j' [E' _]]]. cbn [s_w] in E' |- *. rewrite E'. reflexivity.
    + right. cbn [s_w].
      assert (Ew' : match r with Err => report EWrite w' | _ => w' end = w') by (destruct r; try reflexivity; apply report_dead; apply D).
      rewrite Ew'. split; [apply dead_not_alive; apply D|]. exists cl, oc. auto.
  - (* OPlain *)
    destruct (write_rel_kk x a b q j Ew R) as [s [r [w' [s' [rot [Es [Hp [E Out]]]]]]]].
    rewrite Es, Hp, E. cbn [rot_of]. pose proof (proj1 R) as Ht. cbn [with_w s_tl] in Ht. rewrite Ht.
    destruct Out as [[-> K'] | [cl [oc [D [Fl Len]]]]].
    + left. split; [|exact K']. destruct K' as [q' [j' [E' _]]]. cbn [s_w] in E' |- *. rewrite E'. reflexivity.
    + right. cbn [s_w]. split; [apply dead_not_alive; apply D|]. exists cl, oc. auto.
  - (* OFlush *)
    destruct R as [Ht [Ha R]]. cbn [with_w s_tl s_w s_flw] in Ht, Ha, R. destruct a as [[cl cu]|].
    + destruct R as [wr [roll [Es [I [V [Z RS]]]]]]. rewrite Es. cbn [st_ofk f_poisoned].
      destruct (direct_wr_k q wr cl _ _ I) as [Pw _].
      unfold flush_state, st_ofk. cbn [f_inner]. rewrite w_flush_nop by exact Pw. rewrite (writer_eta wr Pw).
      cbn [rot_of a_step s_w]. left. split; [rewrite Ew; reflexivity|].
      exists q, j. split; [exact Ew|]. split; [exact Ht|]. split; [exact Ha|].
      exists wr, roll. cbn [with_w s_flw s_w]. split; [reflexivity|]. split; [exact I|]. split; [exact V|]. split; assumption.
    + destruct R as [Es R]. rewrite Es. cbn [new_flw f_poisoned flush_state f_inner rot_of a_step s_w].
      left. split; [rewrite Ew; reflexivity|]. exists q, j. split; [exact Ew|]. split; [exact Ht|]. split; [exact Ha|].
      split; [reflexivity | exact R].
  - (* OTrigger *)
    destruct R as [Ht [Ha R]]. cbn [with_w s_tl s_w s_flw] in Ht, Ha, R. destruct a as [[cl cu]|].
    + destruct R as [wr [roll [Es [I [V [Z RS]]]]]]. rewrite Es. cbn [st_ofk f_poisoned f_cfg f_inner]. rewrite Ew.
      destruct (mount_next_kk q wr cl roll true j I eq_refl) as (r1 & w1 & st1 & E1 & M). rewrite E1.
      destruct M as [(q1 & j1 & wr1 & roll1 & -> & -> & -> & I1 & V1 & Z1 & S1 & R1) | (qd & cld & oc & -> & Qd & Xd & Fl & Len)].
      * left. cbn [rot_of a_step code_of with_inner f_cfg f_poisoned s_w]. split; [reflexivity|].
        exists q1, j1. split; [reflexivity|]. split; [exact Ht|]. split; [cbn [with_w s_w]; exact (same_env_acts _ _ S1 Ha)|].
        rewrite V in *. exists wr1, roll1. cbn [with_w s_flw s_w].
        assert (EL : length (cl ++ [cu]) = S (length cl)) by (rewrite app_length; cbn [length]; lia).
        split; [unfold st_ofk; rewrite EL; reflexivity|]. split; [rewrite EL; exact I1|]. split; [exact V1|]. split; [exact Z1|].
        intros m0 Hm. destruct (RS m0 Hm) as [z ->]. destruct (R1 m0 z eq_refl) as [z' ->]. eauto.
      * right. cbn [s_w fst]. destruct r1; cbn [s_w]; (split; [reflexivity|]); exists cld, oc;
          (split; [split; [apply dead_kw; exact Qd | exact Xd]|]; split; [rewrite Fl, V; reflexivity | exact Len]).
    + destruct R as [Es R]. rewrite Es. cbn [new_flw f_poisoned f_cfg f_inner mount_next with_inner rot_of a_step code_of s_w].
      left. split; [rewrite Ew; reflexivity|]. exists q, j. split; [exact Ew|]. split; [exact Ht|]. split; [exact Ha|].
      split; [reflexivity | exact R].
  - (* OTick *)
    cbn [rot_of a_step s_w]. left. rewrite Ew. split; [reflexivity|].
    exists (set_now q (wnow q + dt)%Z), j. split; [reflexivity|].
    destruct R as [Ht [Ha R]]. cbn [with_w s_tl s_w s_flw] in Ht, Ha, R.
    split; [exact Ht|]. split; [exact Ha|]. destruct a as [[cl cu]|].
    + destruct R as [wr [roll [Es [I [V [Z RS]]]]]]. exists wr, roll. cbn [with_w s_flw s_w].
      split; [exact Es|]. split; [apply (numkinv_env c q); [exact I | reflexivity | apply quiet_set_now; apply I]|].
      split; [exact V|]. split; assumption.
    + cbn [with_w s_flw s_w]. destruct R as [Es [Q [Hn Hi]]]. split; [exact Es|]. split; [apply quiet_set_now; exact Q|]. split; assumption.
  - (* OSnap *)
    cbn [rot_of a_step]. left. split; [rewrite Ew; reflexivity|]. exists q, j. split; [exact Ew | exact R].
Qed.


(* ---- the operations after the counter has been armed ---- *)
Lemma krun_k : forall ops x a, KRelK x a -> Forall basic_op ops ->
  (exists a', KRelK (fst (run x ops)) a' /\ flat a' = flat a ++ acked x ops /\ apot a' <= apot a + length ops)
  \/ (exists cl oc, DeadK c k (s_w (fst (run x ops))) cl oc /\ concat cl ++ ocb oc = flat a ++ acked x ops
                /\ length cl <= S (apot a + length ops)).
Proof.
  induction ops as [|o r IH]; intros x a K Hb.
  - left. exists a. cbn [run fst acked length]. rewrite app_nil_r. split; [exact K|]. split; [reflexivity | lia].
  - inversion Hb as [|o' r' Ho Hr]; subst. rewrite fst_run_cons. cbn [acked length] in *.
    pose proof (kstep_k x a o K Ho) as S. destruct (step x o) as [x1 ob] eqn:Est. cbn [fst].
    pose proof (a_step_apot a o (rot_of ob)) as Hpot.
    destruct S as [[Al K1] | [Al [cl [oc [D [Fl Len]]]]]]; rewrite Al.
    + destruct (IH x1 _ K1 Hr) as [[a' [K' [F' P']]] | [cl [oc [D [F' P']]]]].
      * left. exists a'. split; [exact K'|]. split.
        -- rewrite F', a_step_flat by exact Ho. rewrite app_assoc. reflexivity.
        -- lia.
      * right. exists cl, oc. split; [exact D|]. split.
        -- rewrite F', a_step_flat by exact Ho. rewrite app_assoc. reflexivity.
        -- lia.
    + cbn [app]. destruct D as [D X].
      pose proof (dead_run r x1 D Hr) as [D2 F2]. rewrite (acked_dead r x1 D Hr), app_nil_r.
      right. exists cl, oc. split; [split; [exact D2 | rewrite F2; exact X]|]. split; [exact Fl | lia].
Qed.

(* the directory when no writer is there *)
Definition IdleK (x : sys) (cl : list bytes) (oc : option bytes) : Prop :=
  s_tl x = [] /\ wacts (s_w x) = 0 /\ s_flw x = None /\ quiet (s_w x) /\ XD c k (wfs (s_w x)) cl oc.

Lemma crash_alive_k x a : KRelK x a ->
  exists cl oc, IdleK (fst (step x OCrash)) cl oc /\ concat cl ++ ocb oc = flat a /\ length cl = apot a.
Proof.
  intros [q [j [Ew [Ht [Ha R]]]]]. rewrite step_crash. cbn [sync_step fst]. cbn [with_w s_tl s_w s_flw] in Ht, Ha, R.
  unfold IdleK. cbn [s_tl s_w s_flw]. rewrite Ew. cbn [kw set_kill set_acts wfs wacts].
  destruct a as [[cl cu]|].
  - destruct R as [wr [roll [Es [I [V [Z RS]]]]]]. destruct (direct_wr_k q wr cl _ _ I) as [Pw _].
    pose proof (numkinv_xd c k q wr cl I Pw) as X. rewrite V in X. pose proof (nk_quiet _ _ _ _ _ _ I) as [Qf _].
    exists cl, (Some cu). split; [|split; reflexivity].
    split; [reflexivity|]. split; [reflexivity|]. split; [reflexivity|]. split; [split; [exact Qf | reflexivity] | exact X].
  - destruct R as [Es [[Qf _] [Hn Hi]]].
    exists [], None. split; [|split; reflexivity].
    split; [reflexivity|]. split; [reflexivity|]. split; [reflexivity|]. split; [split; [exact Qf | reflexivity] | apply empty_xd; exact Hn].
Qed.

Lemma crash_dead_k x cl oc : DeadK c k (s_w x) cl oc -> IdleK (fst (step x OCrash)) cl oc.
Proof.
  intros [[_ Df] X]. rewrite step_crash. cbn [sync_step fst]. unfold IdleK. cbn [s_tl s_w s_flw set_kill set_acts wfs wacts].
  split; [reflexivity|]. split; [reflexivity|]. split; [reflexivity|]. split; [split; [exact Df | reflexivity] | exact X].
Qed.

Lemma arm_krelk x a j : RelK c crit k x a -> KRelK (fst (step x (OSetKill j))) a.
Proof.
  intros R. rewrite (step_sync_rel_k c crit k x a _ Hcfg R). cbn [sync_step fst].
  exists (s_w x), j. split; [reflexivity|]. unfold with_w. cbn [s_flw s_tl s_dead]. destruct x; exact R.
Qed.

(* ---- the whole history of the killed process ---- *)
Lemma kill_history_k t0 off ops1 kp ops2 : Forall basic_op ops1 -> Forall basic_op ops2 ->
  exists cl oc, IdleK (fst (run (sys0 t0 off) (OStart c :: ops1 ++ [OSetKill kp] ++ ops2 ++ [OCrash]))) cl oc
    /\ concat cl ++ ocb oc = written ops1 ++ acked (fst (run (sys0 t0 off) (OStart c :: ops1 ++ [OSetKill kp]))) ops2
    /\ length cl <= S (length ops1 + length ops2).
Proof.
  intros Hb1 Hb2. rewrite !fst_run_cons, !fst_run_app, !fst_run_cons. cbn [run fst].
  pose proof (start_rel_k c crit k t0 off) as R0. set (x0 := fst (step (sys0 t0 off) (OStart c))) in *.
  pose proof (a_run_apot ops1 None (snd (run x0 ops1))) as P1. cbn [apot] in P1.
  assert (Hs1 : kside c k (nclosed (a_run None ops1 (snd (run x0 ops1))))).
  { apply kside_of. }
  pose proof (run_rel_k c crit k Hcfg ops1 x0 None R0 Hb1 Hs1) as R1. pose proof (run_length ops1 x0) as L1.
  pose proof (a_run_flat ops1 None (snd (run x0 ops1)) Hb1 L1) as F1. cbn [flat app] in F1.
  set (x1 := fst (run x0 ops1)) in *. set (a1 := a_run None ops1 (snd (run x0 ops1))) in *.
  pose proof (arm_krelk x1 a1 kp R1) as K2. set (x2 := fst (step x1 (OSetKill kp))) in *.
  destruct (krun_k ops2 x2 a1 K2 Hb2) as [[a' [K' [F' P']]] | [cl [oc [D [F' P']]]]].
  - destruct (crash_alive_k _ a' K') as [cl [oc [Id [Fv Lv]]]]. exists cl, oc. split; [exact Id|].
    split; [rewrite Fv, F', F1; reflexivity | lia].
  - exists cl, oc. split; [apply crash_dead_k; exact D|]. split; [rewrite F', F1; reflexivity | lia].
Qed.

End Direct.

(* ------------------------------------------------------------------ Theorem 1 *)
(* After any history  OStart c :: ops1 ++ [OSetKill kp] ++ ops2 ++ [OCrash]  from the empty directory (Numbers naming with
   KeepLogFiles n / KeepCompressedFiles m / both, cleanup in the logging thread, direct mode; ops1, ops2 any basic
   operations; ANY kill point kp, those inside the cleanup included), there are `closed` (the contents of all files that
   were ever closed, in order) and `ocur` (rCURRENT, if it exists) with  concat closed ++ ocur = acknowledged records, and
   the directory, read as the reader does (kill_view), holds the closed files from number lo on and rCURRENT:
   the stream the reader obtains, kv_stream closed ocur lo, is a TAIL of the acknowledged records, and
   lo <= length closed - (n + m): every record that a completed cleanup would have kept is there, none twice.
   An unfinished archive (gzip state 2) occurs only next to its intact original and is ignored by the reader; a complete
   archive next to its original holds the same content (the reader takes one of the two).
   Side condition as for C07: the suffix does not end with .gz (no bound on the number of operations). *)
Theorem numbers_cleanup_kill_keeps_acked c crit k n m t0 off ops1 kp ops2 :
  numkcfg c crit k -> klim k = Some (n, m) -> c_cap c = None -> sfx_ok (c_spec c) ->
  Forall basic_op ops1 -> Forall basic_op ops2 ->
  let x1 := fst (run (sys0 t0 off) (OStart c :: ops1 ++ [OSetKill kp])) in
  let xe := fst (run (sys0 t0 off) (OStart c :: ops1 ++ [OSetKill kp] ++ ops2 ++ [OCrash])) in
  exists closed ocur lo,
    kill_view c (wfs (s_w xe)) closed ocur lo
    /\ concat closed ++ ocb ocur = written ops1 ++ acked x1 ops2
    /\ lo <= length closed - (n + m)
    /\ written ops1 ++ acked x1 ops2 = concat (firstn lo closed) ++ kv_stream closed ocur lo.
Proof.
  intros Hcfg Hk Hcap Hsfx Hb1 Hb2 x1 xe.
  destruct (kill_history_k c crit k n m Hcfg Hk Hcap Hsfx t0 off ops1 kp ops2 Hb1 Hb2) as (cl & oc & Id & F & _).
  destruct Id as (_ & _ & _ & _ & (lo & mid & red & W & Nd & X & U)). fold xe in X. fold x1 in F.
  exists cl, oc, lo. split; [exact (xdir_kill_view c _ cl oc lo mid red X)|]. split; [exact F|].
  split. { destruct U as [U _]. unfold k_lo in U. rewrite Hk in U. exact U. }
  rewrite <- F. apply kv_stream_tail.
Qed.
Print Assumptions numbers_cleanup_kill_keeps_acked.
