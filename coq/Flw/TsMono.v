(* The time-stamp text is monotone: a later instant (of the years 1970..9999) has the greater text in byte order. *)
Require Import FL.Base.Bytes FL.Base.BytesFacts FL.Time.Civil FL.Time.TsFormat FL.Names.NamesFacts FL.Names.SortFacts
  FL.Flw.TsCal FL.Flw.TsTime.
From Coq Require Import ZifyN ZifyNat ZifyBool.
Open Scope Z_scope.

(* ------------------------------------------------------------------ the calendar date grows with the day *)
Definition lex3 (a b : Z * Z * Z) : Prop :=
  let '(y, m, d) := a in let '(y', m', d') := b in y < y' \/ (y = y' /\ (m < m' \/ (m = m' /\ d < d'))).
Definition lex3b (a b : Z * Z * Z) : bool :=
  let '(y, m, d) := a in let '(y', m', d') := b in (y <? y') || ((y =? y') && ((m <? m') || ((m =? m') && (d <? d')))).
Lemma lex3b_spec a b : lex3b a b = true -> lex3 a b.
Proof. destruct a as [[y m] d], b as [[y' m'] d']. unfold lex3b, lex3. lia. Qed.
Lemma lex3_trans a b c : lex3 a b -> lex3 b c -> lex3 a c.
Proof. destruct a as [[y m] d], b as [[y' m'] d'], c as [[y'' m''] d'']. unfold lex3. lia. Qed.

(* the date within the era, the year counted from the era's first March *)
Definition era_date (doe : Z) : Z * Z * Z :=
  let '(yoe, m, d) := cfd_core doe in (yoe + (if m <=? 2 then 1 else 0), m, d).
Definition succ_ok (doe : Z) : bool := (146096 <=? doe) || lex3b (era_date doe) (era_date (doe + 1)).
Lemma succ_ok_all : all_range 18 0 succ_ok = true.
Proof. vm_cast_no_check (eq_refl true). Qed.

Lemma cfd_era_date z era doe : z + 719468 = era * 146097 + doe -> 0 <= doe < 146097 ->
  civil_from_days z = (let '(y, m, d) := era_date doe in (y + era * 400, m, d)).
Proof.
  intros E H. rewrite cfd_era. cbv zeta.
  assert (Eq : (z + 719468) / 146097 = era) by (symmetry; apply (Z.div_unique_pos _ _ era doe); lia).
  rewrite Eq. replace (z + 719468 - era * 146097) with doe by lia.
  unfold era_date. destruct (cfd_core doe) as [[yoe m] d]. destruct (m <=? 2); f_equal; f_equal; lia.
Qed.

Lemma cfd_succ z : lex3 (civil_from_days z) (civil_from_days (z + 1)).
Proof.
  pose proof (Z.div_mod (z + 719468) 146097 ltac:(lia)) as D. pose proof (Z.mod_pos_bound (z + 719468) 146097 ltac:(lia)) as M.
  set (era := (z + 719468) / 146097) in *. set (doe := (z + 719468) mod 146097) in *.
  rewrite (cfd_era_date z era doe) by lia.
  destruct (Z_lt_ge_dec doe 146096) as [Hlt|Hge].
  - rewrite (cfd_era_date (z + 1) era (doe + 1)) by lia.
    pose proof (all_range_sound 18 0 succ_ok succ_ok_all doe) as X.
    assert (Hr : 0 <= doe < 0 + p2 18) by (change (p2 18) with 262144; lia). specialize (X Hr).
    unfold succ_ok in X. destruct (Z.leb_spec 146096 doe); [lia|]. cbn [orb] in X. apply lex3b_spec in X.
    destruct (era_date doe) as [[y m] d], (era_date (doe + 1)) as [[y' m'] d']. unfold lex3 in *. lia.
  - assert (doe = 146096) by lia. rewrite (cfd_era_date (z + 1) (era + 1) 0) by lia.
    replace doe with 146096 by lia. vm_compute era_date. unfold lex3. lia.
Qed.

Lemma cfd_mono z z' : z < z' -> lex3 (civil_from_days z) (civil_from_days z').
Proof.
  intros H. replace z' with (z + 1 + Z.of_nat (Z.to_nat (z' - z - 1))) by lia.
  induction (Z.to_nat (z' - z - 1)) as [|n IH].
  - rewrite Z.add_0_r. apply cfd_succ.
  - eapply lex3_trans; [exact IH|]. replace (z + 1 + Z.of_nat (S n)) with (z + 1 + Z.of_nat n + 1) by lia. apply cfd_succ.
Qed.

(* ------------------------------------------------------------------ the broken-down time grows with the instant *)
Definition clt (a b : civil) : Prop :=
  cy a < cy b \/ (cy a = cy b /\ (cmo a < cmo b \/ (cmo a = cmo b /\ (cd a < cd b \/ (cd a = cd b /\
  (ch a < ch b \/ (ch a = ch b /\ (cmi a < cmi b \/ (cmi a = cmi b /\ cs a < cs b))))))))).

Lemma civil_of_mono t t' : t < t' -> clt (civil_of t) (civil_of t').
Proof.
  intros H. unfold civil_of.
  pose proof (Z.div_mod t 86400 ltac:(lia)) as D. pose proof (Z.mod_pos_bound t 86400 ltac:(lia)) as M.
  pose proof (Z.div_mod t' 86400 ltac:(lia)) as D'. pose proof (Z.mod_pos_bound t' 86400 ltac:(lia)) as M'.
  set (days := t / 86400) in *. set (sod := t mod 86400) in *. set (days' := t' / 86400) in *. set (sod' := t' mod 86400) in *.
  destruct (Z_lt_ge_dec days days') as [Hd|Hd].
  - pose proof (cfd_mono days days' Hd) as L.
    destruct (civil_from_days days) as [[y m] d], (civil_from_days days') as [[y' m'] d']. unfold lex3 in L. unfold clt. cbn [cy cmo cd ch cmi cs]. lia.
  - assert (days = days') by lia. assert (Hs : sod < sod') by lia. replace days' with days by lia.
    destruct (civil_from_days days) as [[y m] d]. unfold clt. cbn [cy cmo cd ch cmi cs].
    pose proof (Z.div_mod sod 3600 ltac:(lia)) as D1. pose proof (Z.mod_pos_bound sod 3600 ltac:(lia)) as M1.
    pose proof (Z.div_mod sod' 3600 ltac:(lia)) as D1'. pose proof (Z.mod_pos_bound sod' 3600 ltac:(lia)) as M1'.
    pose proof (Z.div_mod (sod mod 3600) 60 ltac:(lia)) as D2. pose proof (Z.mod_pos_bound (sod mod 3600) 60 ltac:(lia)) as M2.
    pose proof (Z.div_mod (sod' mod 3600) 60 ltac:(lia)) as D2'. pose proof (Z.mod_pos_bound (sod' mod 3600) 60 ltac:(lia)) as M2'.
    set (h := sod / 3600) in *. set (r1 := sod mod 3600) in *. set (mi := r1 / 60) in *.
    set (h' := sod' / 3600) in *. set (r1' := sod' mod 3600) in *. set (mi' := r1' / 60) in *.
    assert (E60 : sod mod 60 = r1 mod 60) by (symmetry; apply (Z.mod_unique sod 60 (60 * h + mi) (r1 mod 60)); [left; lia | lia]).
    assert (E60' : sod' mod 60 = r1' mod 60) by (symmetry; apply (Z.mod_unique sod' 60 (60 * h' + mi') (r1' mod 60)); [left; lia | lia]).
    rewrite E60, E60'. right. split; [reflexivity|]. right. split; [reflexivity|]. right. split; [reflexivity|]. lia.
Qed.

(* ------------------------------------------------------------------ byte order of the texts *)
Open Scope nat_scope.
Lemma lex_lt_app a : forall b x y, length a = length b ->
  lex_lt (a ++ x) (b ++ y) = lex_lt a b || (beq a b && lex_lt x y).
Proof.
  induction a as [|p a IH]; intros [|q b] x y Hl; try discriminate.
  - cbn [app lex_lt beq]. destruct x, y; reflexivity.
  - injection Hl as Hl. cbn [app lex_lt beq]. rewrite (IH b x y Hl).
    destruct (N.ltb_spec p q), (N.eqb_spec p q); cbn [orb andb]; try reflexivity; lia.
Qed.

Lemma lex_lt_cons_same p x y : lex_lt (p :: x) (p :: y) = lex_lt x y.
Proof. cbn [lex_lt]. rewrite N.ltb_irrefl, N.eqb_refl. reflexivity. Qed.

Lemma pad_dec_lt w z z' : (0 <= z)%Z -> (0 <= z')%Z -> length (pad_dec w z) = length (pad_dec w z') ->
  lex_lt (pad_dec w z) (pad_dec w z') = (z <? z')%Z /\ beq (pad_dec w z) (pad_dec w z') = (z =? z')%Z.
Proof.
  intros H H' Hl. split.
  - rewrite (lex_lt_value _ _ (pad_dec_digits w z) (pad_dec_digits w z') Hl), !pad_dec_value. lia.
  - destruct (beq_spec (pad_dec w z) (pad_dec w z')) as [E|N].
    + apply pad_dec_inj in E; lia.
    + destruct (Z.eqb_spec z z') as [->|]; [congruence | reflexivity].
Qed.

Lemma lex_field w z z' x y : (0 <= z)%Z -> (0 <= z')%Z -> length (pad_dec w z) = length (pad_dec w z') ->
  lex_lt (pad_dec w z ++ x) (pad_dec w z' ++ y) = (z <? z')%Z || ((z =? z')%Z && lex_lt x y).
Proof. intros H H' Hl. rewrite (lex_lt_app _ _ x y Hl). destruct (pad_dec_lt w z z' H H' Hl) as [-> ->]. reflexivity. Qed.

Lemma std_text_mono c c' : civil_ok c -> civil_ok c' -> clt c c' -> lex_lt (std_text c) (std_text c') = true.
Proof.
  intros [Y Mo D Hh Mi S] [Y' Mo' D' Hh' Mi' S'] L.
  assert (P4 : forall z, (0 <= z <= 9999)%Z -> length (pad_dec 4 z) = 4) by (intros z Hz; apply (pad_dec_length 4 _ 9999); [exact Hz | vm_compute; lia]).
  assert (P2 : forall z, (0 <= z <= 99)%Z -> length (pad_dec 2 z) = 2) by (intros z Hz; apply (pad_dec_length 2 _ 99); [exact Hz | vm_compute; lia]).
  unfold std_text. rewrite lex_lt_cons_same.
  rewrite lex_field by (try lia; rewrite !P4 by lia; reflexivity). rewrite lex_lt_cons_same.
  rewrite lex_field by (try lia; rewrite !P2 by lia; reflexivity). rewrite lex_lt_cons_same.
  rewrite lex_field by (try lia; rewrite !P2 by lia; reflexivity). rewrite lex_lt_cons_same.
  rewrite lex_field by (try lia; rewrite !P2 by lia; reflexivity). rewrite lex_lt_cons_same.
  rewrite lex_field by (try lia; rewrite !P2 by lia; reflexivity). rewrite lex_lt_cons_same.
  rewrite <- (app_nil_r (pad_dec 2 (cs c))), <- (app_nil_r (pad_dec 2 (cs c'))).
  rewrite lex_field by (try lia; rewrite !P2 by lia; reflexivity). cbn [lex_lt]. rewrite andb_false_r, orb_false_r.
  unfold clt in L. lia.
Qed.

Lemma tsx_mono e t t' : in_years e t -> in_years e t' -> (t < t')%Z -> lex_lt (tsx e t) (tsx e t') = true.
Proof.
  intros H H' L. destruct (tsx_text e t H) as [-> Ok], (tsx_text e t' H') as [-> Ok'].
  apply std_text_mono; [exact Ok | exact Ok' | apply civil_of_mono; lia].
Qed.
