(* Numbers naming: the one-step lemmas of NumInv.v / NumRun.v do not use the write mode.  They are stated there for
   numcfg (which fixes c_async = false); here they are proved again for numcfg0, which leaves c_async open, so that
   the asynchronous writer thread (Run.async_consume calls the very same write_buffer / flush_state /
   shutdown_state) can use them.  The proofs are those of NumInv.v / NumRun.v. *)
Require Import FL.Base.Bytes FL.Base.BytesFacts FL.Base.PathName FL.Fs.Fs FL.Fs.FsFacts FL.Time.Civil FL.Time.TsFormat
  FL.Names.FileSpec FL.Names.NamesFacts FL.Flw.Model FL.Flw.ModelFacts FL.Flw.NumFs FL.Flw.NumInv FL.Flw.Run FL.Flw.RunFacts
  FL.Flw.NumRun.
From Coq Require Import ZifyN ZifyNat ZifyBool.
Open Scope nat_scope.

(* Numbers naming, no cleanup, no start-time part, no symlink; any write mode *)
Definition numcfg0 (c : config) (crit : criterion) : Prop :=
  c_rot c = Some (crit, NNumbers, KNever) /\ fts (c_spec c) = false /\ c_symlink c = false.

Lemma numcfg_numcfg0 c crit : numcfg c crit -> numcfg0 c crit.
Proof. intros [H1 [H2 [H3 _]]]. repeat split; assumption. Qed.

Lemma mount_next_rotates0 c crit w wr closed roll force :
  numcfg0 c crit -> NumInv c w wr closed ->
  force || rotation_necessary w roll = true ->
  exists w' wr' roll',
    mount_next c w (Active (Some (mk_rs (NSNumR (N.of_nat (length closed))) roll)) wr (cname c)) force
      = (Ok tt, w', Active (Some (mk_rs (NSNumR (N.of_nat (length (closed ++ [cur_view w wr])))) roll')) wr' (cname c))
    /\ NumInv c w' wr' (closed ++ [cur_view w wr])
    /\ cur_view w' wr' = [] /\ roll_size_ok roll' 0 /\ same_env w w'
    /\ (forall m cur, roll = RSize m cur -> exists cur', roll' = RSize m cur').
Proof.
  intros [Hrot [Hts Hlink]] I Hnec.
  pose proof I as [Q W Hc Hcp Hcl Hon Hwr Hcap].
  unfold mount_next. cbn [mk_rs rs_roll rs_naming rs_cleanup rs_bg]. rewrite Hnec.
  unfold index_for_rcurrent. rewrite !(name_of_fixed c w) by assumption. fold (nm c cur_infix) (nm c (number_infix (N.of_nat (length closed)))).
  fold (cname c) (rname c (length closed)).
  (* the target name is free *)
  assert (Ht : lookup (wfs w) (rname c (length closed)) = None).
  { destruct (lookup (wfs w) (rname c (length closed))) as [j|] eqn:E; [|reflexivity].
    destruct (Hon _ _ E) as [E1|[i [Hi E1]]]; [exfalso; exact (rname_not_cname _ _ E1)|]. apply rname_inj in E1. lia. }
  destruct (rotate_fs_spec (wfs w) (cname c) (rname c (length closed)) (wino wr) (wpend wr) (wnow w) W
              (fun E => rname_not_cname c _ (eq_sym E)) Hc Ht) as [f1 [Er R]].
  cbn zeta in R. destruct R as [L1c [Hino1 [W3 [Hnew [L3c [L3t [L3o [Hlen [Inew [Iold Ioth]]]]]]]]]].
  pose proof (p_rename_quiet w (cname c) (rname c (length closed)) Q) as PR. rewrite Er in PR.
  destruct PR as [w1 [Epr [F1 S1]]]. rewrite Epr.
  (* open the new current file *)
  unfold open_log_file. rewrite (name_of_fixed c w1) by assumption. fold (nm c cur_infix) (cname c).
  unfold do_symlink. rewrite Hlink.
  assert (D1 : match file_of (wfs w1) (cname c) with Some fl => fdir fl = false | None => True end).
  { unfold file_of. rewrite F1, L1c. exact Logic.I. }
  destruct (p_open_quiet w1 (cname c) (c_append c) (proj1 S1) D1) as [w2 [Eop [F2 S2]]]. rewrite Eop.
  assert (Eopen : (if c_append c then open_append (wfs w1) (cname c) (wnow w1) else open_trunc (wfs w1) (cname c) 0%N (wnow w1))
                  = create_file f1 (cname c) 0%N (wnow w)).
  { rewrite F1. destruct S1 as [_ [-> _]]. destruct (c_append c); [apply open_append_fresh | apply open_trunc_fresh]; exact L1c. }
  rewrite Eopen in *. clear Eopen.
  (* the old writer is dropped *)
  unfold w_drop. destruct (w_flush_quiet w2 wr (proj1 S2)) as [w3 [Efl [F3 S3]]]. rewrite Efl. cbn [fst snd].
  unfold cleanup_or_queue. cbn [mk_rs rs_roll rs_naming rs_cleanup rs_bg cleanup_impl].
  set (new := snd (create_file f1 (cname c) 0%N (wnow w))) in *.
  set (f3 := append_ino (fst (create_file f1 (cname c) 0%N (wnow w))) (wino wr) (wpend wr)) in *.
  assert (F3' : wfs w3 = f3) by (rewrite F3, F2; reflexivity).
  set (wr' := {| wino := new; wpend := []; wcap := c_cap c |}).
  exists w3, wr', (reset_size_and_date w3 roll (cname c)).
  assert (Elen : N.of_nat (length (closed ++ [cur_view w wr])) = (N.of_nat (length closed) + 1)%N).
  { rewrite app_length. cbn [length]. lia. }
  split. { rewrite Elen. reflexivity. }
  assert (SE : same_env w w3) by (eapply same_env_trans; [eapply same_env_trans|]; eassumption).
  pose proof (wf_bound _ W _ _ Hc) as Hold.
  split.
  { constructor.
    - exact (proj1 S3).
    - rewrite F3'. exact W3.
    - rewrite F3'. exact L3c.
    - rewrite F3'. cbn [wr' wino]. rewrite Inew. split; reflexivity.
    - intros i Hi. rewrite app_length in Hi. cbn [length] in Hi. rewrite F3'.
      destruct (Nat.eq_dec i (length closed)) as [->|Hne].
      + exists (wino wr). split; [exact L3t|]. split.
        * rewrite Iold. exact Hcp.
        * unfold content at 1. rewrite Iold. cbn [with_data fdata]. rewrite app_nth2, Nat.sub_diag by lia. reflexivity.
      + assert (Hi' : i < length closed) by lia. destruct (Hcl i Hi') as [j [Lj [Pj Cj]]].
        exists j. rewrite L3o; [|apply rname_not_cname | intros E; apply rname_inj in E; lia].
        split; [exact Lj|].
        assert (Hj1 : j <> new). { pose proof (wf_bound _ W _ _ Lj). rewrite Hnew. lia. }
        assert (Hj2 : j <> wino wr). { intros ->. pose proof (wf_inj _ W _ _ _ Lj Hc) as E. exact (rname_not_cname _ _ E). }
        unfold content. rewrite Ioth by assumption. split; [exact Pj|]. rewrite app_nth1 by assumption. exact Cj.
    - intros n j Hn. rewrite F3' in Hn.
      destruct (beq_spec n (cname c)) as [->|Hn1]; [left; reflexivity|].
      destruct (beq_spec n (rname c (length closed))) as [->|Hn2].
      + right. exists (length closed). rewrite app_length. cbn [length]. split; [lia | reflexivity].
      + rewrite L3o in Hn by assumption. destruct (Hon _ _ Hn) as [E|[i [Hi E]]]; [contradiction|].
        right. exists i. rewrite app_length. cbn [length]. split; [lia | exact E].
    - unfold wr_ok, wr'. cbn. destruct (c_cap c); [lia | reflexivity].
    - reflexivity. }
  split. { unfold cur_view. rewrite F3'. cbn [wr' wino wpend]. unfold content. rewrite Inew. reflexivity. }
  split. { destruct roll; cbn; auto. }
  split; [exact SE|].
  intros m cur ->. cbn. eauto.
Qed.

Lemma write_active0 c crit w wr closed roll b :
  numcfg0 c crit -> NumInv c w wr closed -> roll_size_ok roll (length (cur_view w wr)) ->
  let rot := rotation_necessary w roll in
  exists w' wr' roll' closed',
    write_buffer (st_of c (length closed) roll wr) w b = (Ok tt, w', st_of c (length closed') roll' wr', rot)
    /\ NumInv c w' wr' closed' /\ roll_size_ok roll' (length (cur_view w' wr')) /\ same_env w w'
    /\ (closed', cur_view w' wr') = (if rot then (closed ++ [cur_view w wr], b) else (closed, cur_view w wr ++ b))
    /\ (forall m cur, roll = RSize m cur -> exists cur', roll' = RSize m cur').
Proof.
  intros Hcfg I Hsz rot.
  unfold write_buffer, st_of. cbn [f_cfg f_inner f_poisoned mk_rs rs_roll]. fold rot.
  (* the state after the rotation check *)
  assert (M : exists w1 wr1 roll1 closed1,
            mount_next c w (Active (Some (mk_rs (NSNumR (N.of_nat (length closed))) roll)) wr (cname c)) false
            = (Ok tt, w1, Active (Some (mk_rs (NSNumR (N.of_nat (length closed1))) roll1)) wr1 (cname c))
            /\ NumInv c w1 wr1 closed1 /\ roll_size_ok roll1 (length (cur_view w1 wr1)) /\ same_env w w1
            /\ (closed1, cur_view w1 wr1) = (if rot then (closed ++ [cur_view w wr], []) else (closed, cur_view w wr))
            /\ (forall m cur, roll = RSize m cur -> exists cur', roll1 = RSize m cur')).
  { destruct rot eqn:Er.
    - destruct (mount_next_rotates0 c crit w wr closed roll false Hcfg I) as [w1 [wr1 [roll1 [E [I1 [V1 [Z1 [S1 R1]]]]]]]]; [exact Er|].
      exists w1, wr1, roll1, (closed ++ [cur_view w wr]). rewrite V1.
      split; [exact E|]. split; [exact I1|]. split; [exact Z1|]. split; [exact S1|]. split; [reflexivity | exact R1].
    - exists w, wr, roll, closed. split.
      + unfold mount_next. cbn [mk_rs rs_roll orb]. unfold rot in Er. rewrite Er. reflexivity.
      + split; [exact I|]. split; [exact Hsz|]. split; [apply same_env_refl; apply I|]. split; [reflexivity | eauto]. }
  destruct M as [w1 [wr1 [roll1 [closed1 [E [I1 [Z1 [S1 [V1 R1]]]]]]]]].
  rewrite E.
  destruct (w_write_quiet w1 wr1 b (ni_quiet _ _ _ _ I1) (ni_wr _ _ _ _ I1)) as [w2 [wr2 [fl [Ew [S2 [F2 [Ei [Ec [Ep Hok]]]]]]]]].
  rewrite Ew.
  destruct (numinv_append c w1 w2 wr1 wr2 closed1 fl I1 F2 S2 Ei Ec Hok) as [I2 C2].
  exists w2, wr2, (increase_size roll1 (N.of_nat (length b))), closed1.
  assert (V2 : cur_view w2 wr2 = cur_view w1 wr1 ++ b).
  { unfold cur_view. rewrite C2, <- !app_assoc, Ep. reflexivity. }
  split; [reflexivity|]. split; [exact I2|].
  split. { rewrite V2, app_length. apply roll_size_increase. exact Z1. }
  split; [eapply same_env_trans; eassumption|].
  split. { rewrite V2. destruct rot; injection V1 as -> ->; reflexivity. }
  intros m cur Hr. destruct (R1 m cur Hr) as [cur' ->]. cbn. eauto.
Qed.

Lemma initialize_empty0 c crit w :
  numcfg0 c crit -> quiet w -> names (wfs w) = [] -> inodes (wfs w) = [] ->
  exists w' wr roll,
    initialize c w = (Ok (Active (Some (mk_rs (NSNumR 0) roll)) wr (cname c)), w')
    /\ NumInv c w' wr [] /\ cur_view w' wr = [] /\ roll_size_ok roll 0 /\ same_env w w'
    /\ (forall m, crit = CSize m -> roll = RSize m 0).
Proof.
  intros [Hrot [Hts Hlink]] Q Hn Hi.
  unfold initialize. rewrite Hrot. unfold init_naming, index_for_rcurrent, with_listing.
  rewrite tick_quiet by assumption.
  unfold get_highest_index, list_log_gz. rewrite existing_rot_empty by assumption. cbn [filter_map_opt max_opt bind].
  (* the rename of a current file that does not exist *)
  assert (E0 : (if negb (c_append c)
                then let '(r, w1) := p_rename w (name_of c w (Some cur_infix)) (name_of c w (Some (number_infix 0))) in
                     match r with ROk => (Ok (0 + 1)%N, w1) | RNotFound => (Ok 0%N, w1) | RErr => (Err, w1) end
                else (Ok 0%N, w)) = (Ok 0%N, w)).
  { destruct (negb (c_append c)); [|reflexivity].
    pose proof (p_rename_quiet w (name_of c w (Some cur_infix)) (name_of c w (Some (number_infix 0))) Q) as PR.
    rewrite rename_none in PR by (apply lookup_empty; assumption). rewrite PR. reflexivity. }
  rewrite E0. cbn [bind].
  unfold open_log_file. rewrite (name_of_fixed c w) by assumption. fold (nm c cur_infix) (cname c).
  unfold do_symlink. rewrite Hlink.
  assert (D1 : match file_of (wfs w) (cname c) with Some fl => fdir fl = false | None => True end).
  { unfold file_of. rewrite lookup_empty by assumption. exact Logic.I. }
  destruct (p_open_quiet w (cname c) (c_append c) Q D1) as [w2 [Eop [F2 S2]]]. rewrite Eop.
  assert (Eopen : (if c_append c then open_append (wfs w) (cname c) (wnow w) else open_trunc (wfs w) (cname c) 0%N (wnow w))
                  = create_file (wfs w) (cname c) 0%N (wnow w)).
  { destruct (c_append c); [apply open_append_fresh | apply open_trunc_fresh]; apply lookup_empty; assumption. }
  rewrite Eopen in *. clear Eopen. cbn [bind fst snd].
  unfold create_file in F2. cbn [fst snd] in F2. rewrite Hn, Hi in F2. cbn [length app] in F2.
  unfold create_file. cbn [snd]. rewrite Hi. cbn [length].
  set (wr := {| wino := 0; wpend := []; wcap := c_cap c |}).
  assert (Lc : lookup (wfs w2) (cname c) = Some 0) by (rewrite F2; unfold lookup; cbn; rewrite beq_refl; reflexivity).
  assert (Fo : file_of (wfs w2) (cname c) = Some (fresh_file (wnow w))) by (unfold file_of; rewrite Lc, F2; reflexivity).
  (* roll_new *)
  assert (RN : exists roll, roll_new w2 crit (c_append c) (cname c) = (Ok roll, w2) /\ roll_size_ok roll 0
               /\ (forall m, crit = CSize m -> roll = RSize m 0)).
  { unfold roll_new. destruct (c_append c).
    - rewrite tick_quiet by apply S2. rewrite Fo. cbn [fresh_file fdata length].
      eexists. split; [reflexivity|]. split; [destruct crit; reflexivity|]. intros m ->. reflexivity.
    - eexists. split; [reflexivity|]. split; [destruct crit; reflexivity|]. intros m ->. reflexivity. }
  destruct RN as [roll [Ern [Z R]]]. rewrite Ern. cbn [bind].
  exists w2, wr, roll. split; [reflexivity|].
  split.
  { constructor.
    - apply S2.
    - rewrite F2. split.
      + intros a j. unfold lookup; cbn. destruct (beq (cname c) a); [|discriminate]. intros E; injection E as <-. lia.
      + intros a b j. unfold lookup; cbn. destruct (beq_spec (cname c) a), (beq_spec (cname c) b); try discriminate. congruence.
    - exact Lc.
    - rewrite F2. split; reflexivity.
    - cbn [length]. intros i Hi'. lia.
    - intros n j. rewrite F2. unfold lookup; cbn. destruct (beq_spec (cname c) n); [auto | discriminate].
    - unfold wr_ok, wr. cbn. destruct (c_cap c); [lia | reflexivity].
    - reflexivity. }
  split. { unfold cur_view, content, inode. rewrite F2. reflexivity. }
  split; [exact Z|]. split; [exact S2 | exact R].
Qed.

(* what a write does, from either kind of state *)
Lemma write_rel0 c crit x a b :
  numcfg0 c crit -> Rel c crit x a ->
  exists s w' s' rot, s_flw x = Some s /\ f_poisoned s = false /\
    write_buffer s (s_w x) b = (Ok tt, w', s', rot)
    /\ Rel c crit {| s_flw := Some s'; s_w := w'; s_tl := []; s_dead := s_dead x |} (a_step a (OWrite b) rot)
    /\ (forall m, crit = CSize m ->
          rot = (m <? N.of_nat (length (match a with Some (_, cu) => cu | None => [] end)))%N).
Proof.
  intros Hcfg [Ht [Ha R]]. destruct a as [[closed cur]|].
  - destruct R as [wr [roll [Es [I [V [Z RS]]]]]].
    rewrite <- V in Z.
    destruct (write_active0 c crit (s_w x) wr closed roll b Hcfg I Z) as [w' [wr' [roll' [closed' [E [I' [Z' [S' [V' R']]]]]]]]].
    exists (st_of c (length closed) roll wr), w', (st_of c (length closed') roll' wr'), (rotation_necessary (s_w x) roll).
    split; [exact Es|]. split; [reflexivity|]. split; [exact E|].
    split.
    + split; [reflexivity|]. split; [cbn [s_w]; exact (same_env_acts _ _ S' Ha)|].
      cbn [a_step]. rewrite V in V'.
      destruct (rotation_necessary (s_w x) roll); injection V' as <- V''; (exists wr', roll'; cbn [s_flw s_w];
        split; [reflexivity|]; split; [exact I'|]; split; [exact V''|]; split; [rewrite <- V''; exact Z'|];
        intros m Hm; destruct (RS m Hm) as [k ->]; destruct (R' m k eq_refl) as [k' ->]; eauto).
    + intros m Hm. destruct (RS m Hm) as [k ->]. cbn in Z. subst k. rewrite V. reflexivity.
  - destruct R as [Es [Q [Hn Hi]]].
    destruct (initialize_empty0 c crit (s_w x) Hcfg Q Hn Hi) as [w1 [wr [roll [Ei [I [V [Z [S1 RS]]]]]]]].
    assert (Z0 : roll_size_ok roll (length (cur_view w1 wr))) by (rewrite V; exact Z).
    destruct (write_active0 c crit w1 wr [] roll b Hcfg I Z0) as [w' [wr' [roll' [closed' [E [I' [Z' [S' [V' R']]]]]]]]].
    exists (new_flw c), w', (st_of c (length closed') roll' wr'), (rotation_necessary w1 roll).
    split; [exact Es|]. split; [reflexivity|].
    split. { rewrite (write_buffer_init c (s_w x) b _ _ _ w1 Ei). exact E. }
    split.
    + split; [reflexivity|]. split; [cbn [s_w]; exact (same_env_acts _ _ (same_env_trans _ _ _ S1 S') Ha)|].
      cbn [a_step]. rewrite V in V'. cbn [app] in V'.
      destruct (rotation_necessary w1 roll); injection V' as <- V''; (exists wr', roll'; cbn [s_flw s_w];
        split; [reflexivity|]; split; [exact I'|]; split; [exact V''|]; split; [rewrite <- V''; exact Z'|]).
      * intros m Hm. rewrite (RS m Hm) in R'. destruct (R' m 0%N eq_refl) as [k' ->]; eauto.
      * intros m Hm. rewrite (RS m Hm) in R'. destruct (R' m 0%N eq_refl) as [k' ->]; eauto.
    + intros m Hm. rewrite (RS m Hm). reflexivity.
Qed.
