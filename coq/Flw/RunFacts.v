(* Small facts about Run.step shared by the invariant proofs. *)
Require Import FL.Base.Bytes FL.Names.FileSpec FL.Flw.Model FL.Flw.Run.

(* without a start-time part in the file name there is nothing to fix at the first operation *)
Lemma ensure_start_plain s w : fts (c_spec (f_cfg s)) = false -> ensure_start s w = s.
Proof. intros H. unfold ensure_start. rewrite H. reflexivity. Qed.

Lemma apply_start_plain x o :
  (forall s, s_flw x = Some s -> fts (c_spec (f_cfg s)) = false) -> apply_start x o = x.
Proof.
  intros H. unfold apply_start. destruct (s_flw x) as [s|] eqn:E; [|reflexivity].
  rewrite (ensure_start_plain s (s_w x) (H s eq_refl)).
  destruct (names_computed o && negb (f_poisoned s)); [|reflexivity]. destruct x; cbn in *; congruence.
Qed.

Lemma step_plain x o :
  (forall s, s_flw x = Some s -> fts (c_spec (f_cfg s)) = false) -> step x o = step_core x o.
Proof. intros H. unfold step. rewrite apply_start_plain by exact H. reflexivity. Qed.
