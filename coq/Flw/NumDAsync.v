(* NumbersDirect naming (r00000, r00001, ...; no rCURRENT): the write mode - Direct, BufWriter of any capacity,
   asynchronous with either - does not change WHAT is written (C15), and after flush() / after the drop of the writer
   nothing accepted stays behind in a buffer (C04).

   How the statements are obtained:
   - synchronous modes (c_async = false; any c_cap): the invariant RelD of NumDRun.v does not mention the capacity; new
     here is the flush step (flush_rel_d: afterwards nothing is pending, and the directory reads as the abstract view:
     reld_view);
   - asynchronous mode: AsyncSim.v / AsyncTransfer.v - the asynchronous run goes through the same worlds as the
     synchronous run with the same capacity (every message is consumed before the next operation starts: the scheduling
     assumption of the model and of the test harness), so every statement about the world carries over (to_sync).
   The configurations: numdmcfg c crit - NumbersDirect naming, no cleanup, no start-time part, no symlink, ANY mode;
   numdacfg: the asynchronous ones among them; numdcfg (NumDInv.v): the synchronous ones. *)
Require Import FL.Base.Bytes FL.Base.BytesFacts FL.Base.PathName FL.Fs.Fs FL.Fs.FsFacts FL.Time.Civil FL.Time.TsFormat
  FL.Names.FileSpec FL.Names.NamesFacts FL.Flw.Model FL.Flw.ModelFacts FL.Flw.NumFs FL.Flw.NumInv FL.Flw.Run FL.Flw.RunFacts
  FL.Flw.NumRun FL.Oracles.O_Flw FL.Flw.NumTheorems FL.Flw.NumRestart FL.Flw.NumKillRestart FL.Flw.NumDInv FL.Flw.NumDRun FL.Flw.NumDTheorems
  FL.Flw.NumDRestart FL.Flw.NoPanic FL.Flw.NumCfg0 FL.Flw.NumAsync FL.Flw.AsyncSim FL.Flw.AsyncTransfer.
From Coq Require Import ZifyN ZifyNat ZifyBool.
Import String.StringSyntax.
Open Scope nat_scope.

(* ------------------------------------------------------------------ configurations *)
Definition numdmcfg (c : config) (crit : criterion) : Prop :=
  c_rot c = Some (crit, NNumbersDirect, KNever) /\ fts (c_spec c) = false /\ c_symlink c = false.
Definition numdacfg (c : config) (crit : criterion) : Prop := numdmcfg c crit /\ c_async c = true.

Lemma numdmcfg_sync c crit : numdmcfg c crit -> numdcfg (sync_of c) crit.
Proof. intros [H1 [H2 H3]]. repeat split; assumption. Qed.
Lemma numdcfg_any c crit : numdcfg c crit -> numdmcfg c crit.
Proof. intros [H1 [H2 [H3 _]]]. repeat split; assumption. Qed.
Lemma numdmcfg_mode c1 c2 crit : same_but_mode c1 c2 -> numdmcfg c1 crit -> numdmcfg c2 crit.
Proof. intros [S1 [_ [S3 [_ [S5 _]]]]] [H1 [H2 H3]]. repeat split; congruence. Qed.

(* ------------------------------------------------------------------ synchronous modes: what was missing *)
Lemma reld_quiet c crit x a : RelD c crit x a -> quiet (s_w x).
Proof. intros [_ [_ R]]. destruct a as [[cl cu]|]; [destruct R as [wr [roll [_ [I _]]]]; apply I | apply R]. Qed.

(* the hypotheses of the simulation hold *)
Lemma numd_sync_ok c crit t0 off ops : numdcfg c crit -> Forall basic_op ops ->
  Forall obs_ok (snd (run (sys0 t0 off) (OStart c :: ops))) /\ quiet (s_w (fst (run (sys0 t0 off) (OStart c :: ops)))).
Proof.
  intros Hs Hb. cbn [run]. pose proof (start_rel_d c crit t0 off) as R0.
  assert (O0 : snd (step (sys0 t0 off) (OStart c)) = ObsRes 0%N false) by reflexivity.
  destruct (step (sys0 t0 off) (OStart c)) as [x0 ob0]. cbn [fst snd] in R0, O0. subst ob0.
  pose proof (run_rel_d _ crit Hs ops x0 None R0 Hb) as R1. pose proof (run_ok_d _ crit Hs ops x0 None R0 Hb) as K1.
  destruct (run x0 ops) as [x1 obs1]. cbn [fst snd] in *. split; [constructor; [reflexivity | exact K1]|].
  exact (reld_quiet _ _ _ _ R1).
Qed.

(* a flush: the relation is kept, nothing is pending afterwards *)
Lemma flush_rel_d c crit x a : numdcfg c crit -> RelD c crit x a ->
  RelD c crit (fst (step x OFlush)) a /\ pending (fst (step x OFlush)) = [].
Proof.
  intros Hcfg R0. rewrite (step_sync_rel_d c crit x a OFlush Hcfg R0). cbn [sync_step].
  destruct R0 as [Ht [Ha R]]. destruct a as [[closed cur]|].
  - destruct R as [wr [roll [Es [I [V [Z RS]]]]]]. rewrite Es. cbn [st_of_d f_poisoned].
    destruct (flush_active_d c (s_w x) wr closed roll I) as [w' [wr' [E [I' [V' [P' S']]]]]].
    fold (st_of_d c (length closed) roll wr). rewrite E. cbn [fst]. split.
    + split; [exact Ht|]. split; [exact (same_env_acts _ _ S' Ha)|]. exists wr', roll. cbn [s_flw s_w].
      split; [reflexivity|]. split; [exact I'|]. split; [congruence|]. split; assumption.
    + unfold pending. cbn [s_flw st_of_d f_inner]. exact P'.
  - destruct R as [Es R]. rewrite Es. cbn [new_flw f_poisoned flush_state f_inner fst]. split.
    + split; [exact Ht|]. split; [exact Ha|]. split; [reflexivity | exact R].
    + unfold pending. cbn [s_flw f_inner]. reflexivity.
Qed.

(* with nothing pending the directory reads as the abstract view *)
Lemma reld_view c crit x a : RelD c crit x a -> pending x = [] -> direct_view c (wfs (s_w x)) (files_of a).
Proof.
  intros [_ [_ R]] P. destruct a as [[closed cur]|]; cbn [files_of].
  - destruct R as [wr [roll [Es [I [V _]]]]]. unfold pending in P. rewrite Es in P. cbn [st_of_d f_inner] in P.
    rewrite <- V. apply numdinv_direct_view; assumption.
  - apply direct_view_nil. apply R.
Qed.

Lemma files_concat a : concat (files_of a) = flat a.
Proof. destruct a as [[cl cu]|]; cbn [files_of flat concat]; [|reflexivity]. rewrite concat_app. cbn [concat]. rewrite app_nil_r. reflexivity. Qed.

(* C04, flush, synchronous modes: after  ops ++ [OFlush]  the directory holds everything written so far, as the files
   r00000 .. r(n) and nothing else; nothing is pending; for a size criterion the files are the greedy partition *)
Theorem numd_flush_durable_sync c crit t0 off ops :
  numdcfg c crit -> Forall basic_op ops ->
  let x := fst (run (sys0 t0 off) (OStart c :: ops ++ [OFlush])) in
  exists files, direct_view c (wfs (s_w x)) files /\ concat files = written ops
    /\ pending x = []
    /\ (forall m, crit = CSize m -> files = expected_files m None (items false ops)).
Proof.
  intros Hcfg Hb. cbn zeta. cbn [run]. destruct (step (sys0 t0 off) (OStart c)) as [x0 ob0] eqn:E0.
  pose proof (start_rel_d c crit t0 off) as R0. rewrite E0 in R0. cbn [fst] in R0.
  rewrite run_app. pose proof (run_rel_d c crit Hcfg ops x0 None R0 Hb) as R1. pose proof (run_length ops x0) as L.
  assert (HS : forall m, crit = CSize m -> a_run None ops (snd (run x0 ops)) = s_run m None ops).
  { intros m Hm. subst crit. apply (run_size_d c m Hcfg ops x0 None R0 Hb). }
  destruct (run x0 ops) as [x1 obs1]. cbn [fst snd] in *.
  destruct (flush_rel_d c crit x1 _ Hcfg R1) as [R2 P]. cbn [run]. destruct (step x1 OFlush) as [x2 ob2]. cbn [fst] in *.
  exists (files_of (a_run None ops obs1)). split; [exact (reld_view c crit x2 _ R2 P)|].
  split; [rewrite files_concat, a_run_flat; [reflexivity | exact Hb | exact L]|].
  split; [exact P|]. intros m Hm. rewrite (HS m Hm). apply s_run_none. exact Hb.
Qed.

(* the drop of the writer, synchronous modes: no writer is left *)
Lemma stop_flw_d c crit x a : numdcfg c crit -> RelD c crit x a -> s_flw (fst (step x OStop)) = None.
Proof.
  intros Hcfg R. rewrite (step_sync_rel_d c crit x a OStop Hcfg R). cbn [sync_step]. destruct R as [_ [_ R]].
  destruct a as [[cl cu]|]; [destruct R as [wr [roll [Es _]]] | destruct R as [Es _]]; rewrite Es; reflexivity.
Qed.

Lemma numd_stop_flw_sync c crit t0 off ops : numdcfg c crit -> Forall basic_op ops ->
  s_flw (fst (run (sys0 t0 off) (OStart c :: ops ++ [OStop]))) = None.
Proof.
  intros Hcfg Hb. cbn [run]. destruct (step (sys0 t0 off) (OStart c)) as [x0 ob0] eqn:E0.
  pose proof (start_rel_d c crit t0 off) as R0. rewrite E0 in R0. cbn [fst] in R0.
  rewrite run_app. pose proof (run_rel_d c crit Hcfg ops x0 None R0 Hb) as R1.
  destruct (run x0 ops) as [x1 obs1]. cbn [fst snd] in *.
  pose proof (stop_flw_d c crit x1 _ Hcfg R1) as F. cbn [run]. destruct (step x1 OStop) as [x2 ob2]. exact F.
Qed.

(* ------------------------------------------------------------------ any mode: reduction to the synchronous run *)
Lemma numd_to_sync c crit t0 off ops :
  numdmcfg c crit -> Forall basic_op ops ->
  let r := run (sys0 t0 off) (OStart c :: ops) in
  let rs := run (sys0 t0 off) (OStart (sync_of c) :: ops) in
  let r' := run (sys0 t0 off) (OStart c :: ops ++ [OStop]) in
  let rs' := run (sys0 t0 off) (OStart (sync_of c) :: ops ++ [OStop]) in
  s_w (fst r) = s_w (fst rs) /\ pending (fst r) = pending (fst rs) /\ s_w (fst r') = s_w (fst rs').
Proof.
  intros Hcfg Hb. destruct (numd_sync_ok (sync_of c) crit t0 off ops (numdmcfg_sync _ _ Hcfg) Hb) as [K Q].
  exact (to_sync c t0 off ops Hb K Q).
Qed.

Lemma basic_snoc_flush ops : Forall basic_op ops -> Forall basic_op (ops ++ [OFlush]).
Proof. intros Hb. apply Forall_app. split; [exact Hb | repeat constructor]. Qed.

(* ------------------------------------------------------------------ the theorems, any mode *)
(* the stream: any criterion, any mode *)
Theorem numd_stream c crit t0 off ops :
  numdmcfg c crit -> Forall basic_op ops ->
  exists files, direct_view c (wfs (s_w (fst (run (sys0 t0 off) (OStart c :: ops ++ [OStop]))))) files
    /\ concat files = written ops.
Proof.
  intros Hcfg Hb. destruct (numd_to_sync c crit t0 off ops Hcfg Hb) as [_ [_ E]]. cbn zeta in E. rewrite E.
  change (direct_view c) with (direct_view (sync_of c)).
  apply (numbersdirect_stream (sync_of c) crit); [apply numdmcfg_sync; exact Hcfg | exact Hb].
Qed.

(* size criterion: the greedy partition, any mode *)
Theorem numd_partition c m t0 off ops :
  numdmcfg c (CSize m) -> Forall basic_op ops ->
  direct_view c (wfs (s_w (fst (run (sys0 t0 off) (OStart c :: ops ++ [OStop]))))) (expected_files m None (items false ops)).
Proof.
  intros Hcfg Hb. destruct (numd_to_sync c (CSize m) t0 off ops Hcfg Hb) as [_ [_ E]]. cbn zeta in E. rewrite E.
  change (direct_view c) with (direct_view (sync_of c)).
  apply (numbersdirect_partition (sync_of c) m); [apply numdmcfg_sync; exact Hcfg | exact Hb].
Qed.

(* C15: two configurations that differ in the write mode only - Direct, buffered with any capacity, asynchronous with
   either - leave, after the same operations and the drop of the writer, the same directory: the same file names
   r00000 .. r(n) (nm c1 = nm c2) with the same contents, the greedy partition of the written records and chunks, and
   nothing else *)
Theorem numd_modes c1 c2 m t0 off ops :
  same_but_mode c1 c2 -> numdmcfg c1 (CSize m) -> Forall basic_op ops ->
  let f1 := wfs (s_w (fst (run (sys0 t0 off) (OStart c1 :: ops ++ [OStop])))) in
  let f2 := wfs (s_w (fst (run (sys0 t0 off) (OStart c2 :: ops ++ [OStop])))) in
  exists files, direct_view c1 f1 files /\ direct_view c1 f2 files /\ direct_view c2 f2 files
    /\ files = expected_files m None (items false ops).
Proof.
  intros Hm H1 Hb. cbn zeta. pose proof (numdmcfg_mode c1 c2 _ Hm H1) as H2.
  exists (expected_files m None (items false ops)).
  pose proof (numd_partition c2 m t0 off ops H2 Hb) as V2.
  split; [apply numd_partition; assumption|]. split; [|split; [exact V2 | reflexivity]].
  apply (direct_view_spec c2 c1); [symmetry; apply Hm | exact V2].
Qed.

(* C04, flush, any mode.  Asynchronous mode: "after the flush" is after the writer thread has consumed the flush
   message - in the model and in the test harness that is before the next operation starts *)
Theorem numd_flush_durable c crit t0 off ops :
  numdmcfg c crit -> Forall basic_op ops ->
  let x := fst (run (sys0 t0 off) (OStart c :: ops ++ [OFlush])) in
  exists files, direct_view c (wfs (s_w x)) files /\ concat files = written ops
    /\ pending x = []
    /\ (forall m, crit = CSize m -> files = expected_files m None (items false ops)).
Proof.
  intros Hcfg Hb. cbn zeta.
  destruct (numd_to_sync c crit t0 off (ops ++ [OFlush]) Hcfg (basic_snoc_flush ops Hb)) as [E [P _]]. cbn zeta in E, P.
  rewrite E, P. change (direct_view c) with (direct_view (sync_of c)).
  apply (numd_flush_durable_sync (sync_of c) crit); [apply numdmcfg_sync; exact Hcfg | exact Hb].
Qed.

(* C04, drop of the writer (shutdown + drop of the last handle), any mode *)
Theorem numd_stop_durable c crit t0 off ops :
  numdmcfg c crit -> Forall basic_op ops ->
  let x := fst (run (sys0 t0 off) (OStart c :: ops ++ [OStop])) in
  exists files, direct_view c (wfs (s_w x)) files /\ concat files = written ops
    /\ pending x = [] /\ s_flw x = None
    /\ (forall m, crit = CSize m -> files = expected_files m None (items false ops)).
Proof.
  intros Hcfg Hb. cbn zeta. destruct (numd_stream c crit t0 off ops Hcfg Hb) as [files [V F]].
  assert (Fl : s_flw (fst (run (sys0 t0 off) (OStart c :: ops ++ [OStop]))) = None).
  { destruct (c_async c) eqn:Ha.
    - destruct (numd_sync_ok (sync_of c) crit t0 off ops (numdmcfg_sync _ _ Hcfg) Hb) as [K Q].
      destruct (async_transfer c t0 off ops Ha Hb K Q) as [_ [_ [Fa _]]]. exact Fa.
    - apply (numd_stop_flw_sync c crit); [|exact Hb]. rewrite <- (sync_of_sync c Ha). apply numdmcfg_sync. exact Hcfg. }
  exists files. split; [exact V|]. split; [exact F|]. split; [unfold pending; rewrite Fl; reflexivity|]. split; [exact Fl|].
  intros m Hm. subst crit. apply (direct_view_unique c _ _ _ V). apply numd_partition; assumption.
Qed.

(* flushed directories agree across the modes *)
Theorem numd_modes_flushed c1 c2 m t0 off ops :
  same_but_mode c1 c2 -> numdmcfg c1 (CSize m) -> Forall basic_op ops ->
  let x1 := fst (run (sys0 t0 off) (OStart c1 :: ops ++ [OFlush])) in
  let x2 := fst (run (sys0 t0 off) (OStart c2 :: ops ++ [OFlush])) in
  exists files, direct_view c1 (wfs (s_w x1)) files /\ direct_view c1 (wfs (s_w x2)) files
    /\ pending x1 = [] /\ pending x2 = [] /\ files = expected_files m None (items false ops).
Proof.
  intros Hm H1 Hb. cbn zeta. pose proof (numdmcfg_mode c1 c2 _ Hm H1) as H2.
  destruct (numd_flush_durable c1 (CSize m) t0 off ops H1 Hb) as [f1 [V1 [_ [P1 C1]]]].
  destruct (numd_flush_durable c2 (CSize m) t0 off ops H2 Hb) as [f2 [V2 [_ [P2 C2]]]]. cbn zeta in *.
  pose proof (C1 m eq_refl) as E1. pose proof (C2 m eq_refl) as E2. subst f1 f2.
  exists (expected_files m None (items false ops)).
  split; [exact V1|]. split; [apply (direct_view_spec c2 c1); [symmetry; apply Hm | exact V2]|].
  split; [exact P1|]. split; [exact P2 | reflexivity].
Qed.

(* ------------------------------------------------------------------ the asynchronous mode, spelled out *)
Theorem async_numd_stream c crit t0 off ops :
  numdacfg c crit -> Forall basic_op ops ->
  exists files, direct_view c (wfs (s_w (fst (run (sys0 t0 off) (OStart c :: ops ++ [OStop]))))) files
    /\ concat files = written ops.
Proof. intros [Hcfg _]. apply (numd_stream c crit). exact Hcfg. Qed.

Theorem async_numd_partition c m t0 off ops :
  numdacfg c (CSize m) -> Forall basic_op ops ->
  direct_view c (wfs (s_w (fst (run (sys0 t0 off) (OStart c :: ops ++ [OStop]))))) (expected_files m None (items false ops)).
Proof. intros [Hcfg _]. apply numd_partition. exact Hcfg. Qed.

(* an asynchronous and a synchronous (Direct or buffered) writer *)
Theorem async_sync_numd_same_files ca cs m t0 off ops :
  numdacfg ca (CSize m) -> numdcfg cs (CSize m) -> c_spec ca = c_spec cs -> Forall basic_op ops ->
  exists files,
    direct_view ca (wfs (s_w (fst (run (sys0 t0 off) (OStart ca :: ops ++ [OStop]))))) files
    /\ direct_view ca (wfs (s_w (fst (run (sys0 t0 off) (OStart cs :: ops ++ [OStop]))))) files.
Proof.
  intros Ha Hs Hsp Hb. exists (expected_files m None (items false ops)).
  split; [apply async_numd_partition; assumption|].
  apply (direct_view_spec cs ca); [symmetry; exact Hsp | apply numbersdirect_partition; assumption].
Qed.

(* what the caller of an asynchronous writer observes: every operation except a snapshot returns "ok, no rotation" - also
   the writes at which the writer thread rotates; after the drop there is no writer, the thread is gone, nothing is pending *)
Theorem async_numd_observations c crit t0 off ops :
  numdacfg c crit -> Forall basic_op ops ->
  let r := run (sys0 t0 off) (OStart c :: ops ++ [OStop]) in
  Forall2 aobs (OStart c :: ops ++ [OStop]) (snd r)
  /\ s_flw (fst r) = None /\ s_dead (fst r) = true /\ pending (fst r) = [].
Proof.
  intros [Hcfg Ha] Hb. cbn zeta.
  destruct (numd_sync_ok (sync_of c) crit t0 off ops (numdmcfg_sync _ _ Hcfg) Hb) as [K Q].
  destruct (async_transfer c t0 off ops Ha Hb K Q) as [_ [_ [Fa [Da O]]]].
  split; [exact O|]. split; [exact Fa|]. split; [exact Da|]. unfold pending. rewrite Fa. reflexivity.
Qed.

(* flush: as numd_flush_durable, and the writer thread is still running *)
Theorem async_numd_flush_durable c crit t0 off ops :
  numdacfg c crit -> Forall basic_op ops ->
  let x := fst (run (sys0 t0 off) (OStart c :: ops ++ [OFlush])) in
  exists files, direct_view c (wfs (s_w x)) files /\ concat files = written ops
    /\ pending x = [] /\ s_dead x = false
    /\ (forall m, crit = CSize m -> files = expected_files m None (items false ops)).
Proof.
  intros [Hcfg Ha] Hb. cbn zeta.
  destruct (numd_flush_durable c crit t0 off ops Hcfg Hb) as [files [V [F [P C]]]]. cbn zeta in *.
  exists files. split; [exact V|]. split; [exact F|]. split; [exact P|]. split; [|exact C].
  destruct (numd_sync_ok (sync_of c) crit t0 off (ops ++ [OFlush]) (numdmcfg_sync _ _ Hcfg) (basic_snoc_flush ops Hb)) as [K Q].
  destruct (async_transfer c t0 off (ops ++ [OFlush]) Ha (basic_snoc_flush ops Hb) K Q) as [S _].
  apply S.
Qed.

(* drop: as numd_stop_durable, and the writer thread has ended *)
Theorem async_numd_stop_durable c crit t0 off ops :
  numdacfg c crit -> Forall basic_op ops ->
  let x := fst (run (sys0 t0 off) (OStart c :: ops ++ [OStop])) in
  exists files, direct_view c (wfs (s_w x)) files /\ concat files = written ops
    /\ pending x = [] /\ s_flw x = None /\ s_dead x = true
    /\ (forall m, crit = CSize m -> files = expected_files m None (items false ops)).
Proof.
  intros [Hcfg Ha] Hb. cbn zeta.
  destruct (numd_stop_durable c crit t0 off ops Hcfg Hb) as [files [V [F [P [Fl C]]]]]. cbn zeta in *.
  exists files. split; [exact V|]. split; [exact F|]. split; [exact P|]. split; [exact Fl|]. split; [|exact C].
  apply (async_numd_observations c crit t0 off ops (conj Hcfg Ha) Hb).
Qed.

(* the asynchronous writer and the synchronous writer of the same capacity go through the very same worlds (file system,
   clock, error channel), with and without the final drop - ANY criterion; the caller's observations differ in the rotation
   flag only, which the asynchronous caller never sees *)
Theorem async_numd_worlds c crit t0 off ops :
  numdacfg c crit -> Forall basic_op ops ->
  let ra := run (sys0 t0 off) (OStart c :: ops) in
  let rs := run (sys0 t0 off) (OStart (sync_of c) :: ops) in
  let ra' := run (sys0 t0 off) (OStart c :: ops ++ [OStop]) in
  let rs' := run (sys0 t0 off) (OStart (sync_of c) :: ops ++ [OStop]) in
  s_w (fst ra) = s_w (fst rs) /\ snd ra = List.map no_rot (snd rs)
  /\ s_w (fst ra') = s_w (fst rs') /\ snd ra' = List.map no_rot (snd rs').
Proof.
  intros [Hcfg Ha] Hb. cbn zeta.
  destruct (numd_sync_ok (sync_of c) crit t0 off ops (numdmcfg_sync _ _ Hcfg) Hb) as [K Q].
  destruct (async_sim_whole c t0 off ops Ha Hb K) as [[E1 [E2 _]] St]. destruct (St Q) as [E3 [E4 _]].
  repeat split; assumption.
Qed.

Print Assumptions numd_flush_durable_sync.
Print Assumptions numd_stream.
Print Assumptions numd_partition.
Print Assumptions numd_modes.
Print Assumptions numd_flush_durable.
Print Assumptions numd_stop_durable.
Print Assumptions numd_modes_flushed.
Print Assumptions async_numd_stream.
Print Assumptions async_numd_partition.
Print Assumptions async_sync_numd_same_files.
Print Assumptions async_numd_observations.
Print Assumptions async_numd_flush_durable.
Print Assumptions async_numd_stop_durable.
Print Assumptions async_numd_worlds.

(* ------------------------------------------------------------------ "the same directory", literally *)
Lemma direct_view_same_dir c f1 f2 files : direct_view c f1 files -> direct_view c f2 files -> same_dir f1 f2.
Proof.
  intros [A1 B1] [A2 B2]. apply (same_dir_of_entries f1 f2 (rname c) (fun i => nth i files []) (length files)); assumption.
Qed.

(* C15 once more: the two final directories are the same map from names to files (kind, content) *)
Theorem numd_modes_same_dir c1 c2 m t0 off ops :
  same_but_mode c1 c2 -> numdmcfg c1 (CSize m) -> Forall basic_op ops ->
  same_dir (wfs (s_w (fst (run (sys0 t0 off) (OStart c1 :: ops ++ [OStop])))))
           (wfs (s_w (fst (run (sys0 t0 off) (OStart c2 :: ops ++ [OStop]))))).
Proof.
  intros Hm H1 Hb. destruct (numd_modes c1 c2 m t0 off ops Hm H1 Hb) as [files [V1 [V2 _]]]. cbn zeta in *.
  exact (direct_view_same_dir c1 _ _ files V1 V2).
Qed.
Print Assumptions numd_modes_same_dir.

(* ------------------------------------------------------------------ examples *)
Section Examples.
Open Scope string_scope.
(* app_r0000i.log, rotation when the current file holds more than 3 bytes *)
Definition exdm (cap : option nat) (async : bool) : config := with_mode (exd_cfg (ex_sp "log") false (CSize 3) None) cap async.
Definition exdm_direct := exdm None false.
Definition exdm_buffered := exdm (Some 4%nat) false.
Definition exdm_async := exdm (Some 4%nat) true.        (* the writer thread writes through a BufWriter of 4 bytes *)
Definition exdm_async_unbuffered := exdm None true.

Definition exdm_hist : list op :=
  [OTrigger; OWrite (bs "abcd"); OWrite (bs "ef"); OSnap; OFlush; OSnap; OTrigger; OPlain (bs "g"); OTick 5; OWrite (bs "hijkl"); OWrite (bs "m")].

(* the hypotheses are satisfiable *)
Example exdm_hyps :
  numdcfg exdm_direct (CSize 3) /\ numdcfg exdm_buffered (CSize 3) /\ numdacfg exdm_async (CSize 3)
  /\ numdacfg exdm_async_unbuffered (CSize 3) /\ Forall basic_op exdm_hist
  /\ same_but_mode exdm_direct exdm_buffered /\ same_but_mode exdm_direct exdm_async /\ same_but_mode exdm_buffered exdm_async_unbuffered.
Proof. repeat split; repeat constructor. Qed.

Definition exdm_dir : list (bytes * N * bytes) :=
  [ (bs "app_r00000.log", 0%N, bs "abcd"); (bs "app_r00001.log", 0%N, bs "ef"); (bs "app_r00002.log", 0%N, bs "ghijkl");
    (bs "app_r00003.log", 0%N, bs "m") ].

(* the directory after the history and the drop of the writer: the same in the four modes *)
Example exdm_dir_direct : snap_of (fst (run (sys0 0 0) (OStart exdm_direct :: exdm_hist ++ [OStop]))) = exdm_dir.
Proof. vm_compute. reflexivity. Qed.
Example exdm_dir_buffered : snap_of (fst (run (sys0 0 0) (OStart exdm_buffered :: exdm_hist ++ [OStop]))) = exdm_dir.
Proof. vm_compute. reflexivity. Qed.
Example exdm_dir_async : snap_of (fst (run (sys0 0 0) (OStart exdm_async :: exdm_hist ++ [OStop]))) = exdm_dir.
Proof. vm_compute. reflexivity. Qed.
Example exdm_dir_async_unbuffered : snap_of (fst (run (sys0 0 0) (OStart exdm_async_unbuffered :: exdm_hist ++ [OStop]))) = exdm_dir.
Proof. vm_compute. reflexivity. Qed.
Example exdm_dir_expected : expected_files 3 None (items false exdm_hist) = [bs "abcd"; bs "ef"; bs "ghijkl"; bs "m"].
Proof. vm_compute. reflexivity. Qed.

(* instance of numd_modes: Direct against asynchronous-buffered *)
Example exdm_modes_instance :
  let f1 := wfs (s_w (fst (run (sys0 0 0) (OStart exdm_direct :: exdm_hist ++ [OStop])))) in
  let f2 := wfs (s_w (fst (run (sys0 0 0) (OStart exdm_async :: exdm_hist ++ [OStop])))) in
  direct_view exdm_direct f1 [bs "abcd"; bs "ef"; bs "ghijkl"; bs "m"] /\ direct_view exdm_direct f2 [bs "abcd"; bs "ef"; bs "ghijkl"; bs "m"].
Proof.
  destruct (numd_modes exdm_direct exdm_async 3 0 0 exdm_hist) as [files [V1 [V2 [_ E]]]];
    [repeat split | repeat split | repeat constructor|].
  cbn zeta in *. rewrite exdm_dir_expected in E. subst files. split; [exact V1 | exact V2].
Qed.

(* the snapshots before and after the flush: with a BufWriter of 4 bytes the record "ef" is still pending at the first
   one - in buffered and in asynchronous mode alike - and on the disk at the second, in every mode *)
Definition exdm_snap (cur : bytes) : obs :=
  ObsSnap [(bs "app_r00000.log", 0%N, bs "abcd"); (bs "app_r00001.log", 0%N, cur)] None [].
Example exdm_snaps_direct : snaps exdm_direct exdm_hist = [exdm_snap (bs "ef"); exdm_snap (bs "ef")].
Proof. vm_compute. reflexivity. Qed.
Example exdm_snaps_buffered : snaps exdm_buffered exdm_hist = [exdm_snap (bs ""); exdm_snap (bs "ef")].
Proof. vm_compute. reflexivity. Qed.
Example exdm_snaps_async : snaps exdm_async exdm_hist = [exdm_snap (bs ""); exdm_snap (bs "ef")].
Proof. vm_compute. reflexivity. Qed.
Example exdm_snaps_async_unbuffered : snaps exdm_async_unbuffered exdm_hist = [exdm_snap (bs "ef"); exdm_snap (bs "ef")].
Proof. vm_compute. reflexivity. Qed.

(* the rotation flags: the synchronous caller sees the rotation at the writes of "ef" and of "m", the asynchronous never *)
Example exdm_flags_buffered : rots_seen exdm_buffered exdm_hist
  = [false; false; false; true; false; false; false; false; false; false; false; true; false]%bool.
Proof. vm_compute. reflexivity. Qed.
Example exdm_flags_async : rots_seen exdm_async exdm_hist
  = [false; false; false; false; false; false; false; false; false; false; false; false; false]%bool.
Proof. vm_compute. reflexivity. Qed.

(* instance of async_numd_flush_durable: the prefix of the history up to the record "ef", then a flush *)
Example exdm_flush_instance :
  let x := fst (run (sys0 0 0) (OStart exdm_async :: [OTrigger; OWrite (bs "abcd"); OWrite (bs "ef")] ++ [OFlush])) in
  direct_view exdm_async (wfs (s_w x)) [bs "abcd"; bs "ef"] /\ pending x = [] /\ s_dead x = false.
Proof.
  destruct (async_numd_flush_durable exdm_async (CSize 3) 0 0 [OTrigger; OWrite (bs "abcd"); OWrite (bs "ef")])
    as [files [V [_ [P [D C]]]]]; [repeat split | repeat constructor|].
  cbn zeta in *. rewrite (C 3%N eq_refl) in V. split; [exact V | split; [exact P | exact D]].
Qed.

(* NOT covered by numd_modes (size criterion only): an age criterion.  The rotation decision depends on the clock and on the
   creation time of the current file, not on the buffer; the four modes agree on this history (computed) *)
Definition exdm_age (cap : option nat) (async : bool) : config := with_mode (exd_cfg exd_sp2 false (CAge ADay) None) cap async.
Example exdm_age_modes_agree :
  let dir c := snap_of (fst (run (sys0 0 0) (OStart c :: exd_ops2 ++ [OStop]))) in
  dir (exdm_age None false) = [ (bs "srv_a1_r00000", 0%N, bs "x"); (bs "srv_a1_r00001", 0%N, bs "yz") ]
  /\ dir (exdm_age (Some 100%nat) false) = dir (exdm_age None false)
  /\ dir (exdm_age (Some 100%nat) true) = dir (exdm_age None false)
  /\ dir (exdm_age None true) = dir (exdm_age None false).
Proof. vm_compute. repeat split; reflexivity. Qed.
End Examples.
