(* TimestampsDirect naming with an age criterion (or age-or-size, or size): C09 for whole runs from an empty directory.
   The timed abstract view of NumAgeInv.v (closed files and the current file, each with the instant at which it was
   started) is refined by the model; the roll state's `created` is that instant (the new file is born when it is opened),
   and so is the SECOND OF THE FILE'S KEY, i.e. the time stamp in its name: the name of each file says when the file was
   started, and this instant lies in the period of all records of the file.
   The lemmas of TsdInv.v hide the roll state of the new file behind an existential and do not say when the file was born;
   the three of them that create a file are proved again here with that information (same proofs, one more conclusion). *)
Require Import FL.Base.Bytes FL.Base.BytesFacts FL.Base.PathName FL.Fs.Fs FL.Fs.FsFacts FL.Time.Civil FL.Time.Period FL.Time.TsFormat
  FL.Names.FileSpec FL.Names.NamesFacts FL.Names.SortFacts FL.Names.FamilyFacts FL.Flw.Model FL.Flw.ModelFacts FL.Flw.NumFs
  FL.Flw.NumInv FL.Flw.Run FL.Flw.RunFacts FL.Flw.NumRun FL.Oracles.O_Flw FL.Oracles.O_Age FL.Oracles.ReaderOrder FL.Flw.NumTheorems
  FL.Flw.NumListing FL.Flw.NumRestart FL.Flw.NumAgeInv FL.Flw.NumAge FL.Flw.NumDInv FL.Flw.NumDTheorems
  FL.Flw.TsCal FL.Flw.TsTime FL.Flw.TsMono FL.Flw.TsNames FL.Flw.TsInv FL.Flw.TsRun FL.Flw.TsTheorems FL.Flw.TsReader
  FL.Flw.TsdInv FL.Flw.TsdRun FL.Flw.TsdTheorems.
From Coq Require Import ZifyN ZifyNat ZifyBool Sorted.
Open Scope nat_scope.

(* ------------------------------------------------------------------ one rotation, with the birth of the new file *)
Lemma mount_next_rotates_tsd_t c crit e lo hi w wr keys closed roll force :
  tsdcfg c crit -> tag_ok c -> years_ok e lo hi -> TsdInv c e lo w wr keys closed ->
  (wnow w <= hi)%Z -> (N.of_nat (length keys) <= usize_max)%N ->
  force || rotation_necessary w roll = true ->
  exists w' wr' roll',
    mount_next c w (Active (Some (mk_rs (NSTs (fst (nth (length closed) keys kd)) None std_fmt) roll)) wr
                           (kname c e (nth (length closed) keys kd))) force
      = (Ok tt, w', Active (Some (mk_rs (NSTs (wnow w) None std_fmt) roll')) wr' (kname c e (wnow w, count (wnow w) keys)))
    /\ TsdInv c e lo w' wr' (keys ++ [(wnow w, count (wnow w) keys)]) (closed ++ [cur_view w wr])
    /\ cur_view w' wr' = [] /\ roll_size_ok roll' 0 /\ same_env w w'
    /\ (forall st, roll_ok crit st roll -> roll_ok crit (wnow w) roll').
Proof.
  intros [Hrot [Hts [Hlink _]]] T Y I Hhi Hmax Hnec.
  pose proof I as [Q W Hnd Hoff Hlen Hc Hcp Hcl Hon Hko Hrg Hwr Hcap].
  pose proof (tsdinv_now _ _ _ _ _ _ _ I) as Hlo.
  assert (Yk : forall k, In k keys -> in_years e (fst k)).
  { intros k Ik. apply (years_in e lo hi); [exact Y|]. specialize (Hrg k Ik). lia. }
  assert (Ynow : in_years e (wnow w)) by (apply (years_in e lo hi); [exact Y | lia]).
  set (kold := nth (length closed) keys kd) in *.
  set (knew := (wnow w, count (wnow w) keys)).
  assert (Ikold : In kold keys) by (apply nth_In; lia).
  unfold mount_next. cbn [mk_rs rs_roll rs_naming rs_cleanup rs_bg]. rewrite Hnec.
  unfold collision_free. rewrite !tick_quiet by assumption.
  rewrite (fixed_of_fixed0 c w Hts), infix_from_ts_tsx, Hoff.
  rewrite (collision_free_infix_ts c e (woff w) (wfs w) keys (wnow w) (count (wnow w) keys) T Ynow Yk (tsdinv_dir _ _ _ _ _ _ _ I)
             (keys_count keys Hko (wnow w))) by (pose proof (count_le_length (wnow w) keys); lia).
  unfold open_log_file. rewrite (name_of_fixed c w) by assumption.
  change (as_name (c_spec c) (fixed0 c) (Some (infix_of e (wnow w, count (wnow w) keys)))) with (kname c e knew).
  assert (Hnk : ~ In knew keys).
  { intros Ik. apply (keys_count keys Hko) in Ik. lia. }
  assert (Ht : lookup (wfs w) (kname c e knew) = None).
  { destruct (lookup (wfs w) (kname c e knew)) as [j|] eqn:E; [|reflexivity].
    destruct (Hon _ _ E) as [i [Hi E1]].
    apply kname_inj in E1; [|exact Ynow | apply Yk, nth_In; lia].
    exfalso. apply Hnk. rewrite E1. apply nth_In. lia. }
  destruct (open_fresh_quiet c w (kname c e knew) Q Hlink Ht) as [w2 [Eop [F2 S2]]]. rewrite Eop.
  unfold w_drop. destruct (w_flush_quiet w2 wr (proj1 S2)) as [w3 [Efl [F3 S3]]]. rewrite Efl. cbn [fst snd].
  unfold cleanup_or_queue. cbn [mk_rs rs_roll rs_naming rs_cleanup rs_bg cleanup_impl].
  rewrite F2 in F3.
  pose proof (wf_bound _ W _ _ Hc) as Hold.
  pose proof (direct_fs_spec (wfs w) (kname c e knew) (wino wr) (wpend wr) (wnow w) W Hold Ht) as R.
  cbn zeta in R. destruct R as [W3 [Hnew [L3t [L3o [Inew [Iold Ioth]]]]]].
  set (new := snd (create_file (wfs w) (kname c e knew) 0%N (wnow w))) in *.
  set (f3 := append_ino (fst (create_file (wfs w) (kname c e knew) 0%N (wnow w))) (wino wr) (wpend wr)) in *.
  set (wr' := {| wino := new; wpend := []; wcap := c_cap c |}).
  exists w3, wr', (reset_size_and_date w3 roll (kname c e knew)).
  split; [reflexivity|].
  assert (SE : same_env w w3) by (eapply same_env_trans; eassumption).
  assert (Elen : length (closed ++ [cur_view w wr]) = S (length closed)) by (rewrite app_length; cbn [length]; lia).
  assert (Hneq : forall i, i <= length closed -> kname c e (nth i keys kd) <> kname c e knew).
  { intros i Hi E. apply kname_inj in E; [|apply Yk, nth_In; lia | exact Ynow]. apply Hnk. rewrite <- E. apply nth_In. lia. }
  split.
  { constructor.
    - exact (proj1 S3).
    - rewrite F3. exact W3.
    - rewrite F3. unfold f3. change (dir_names (append_ino ?g _ _)) with (dir_names g).
      apply create_nodup; [exact Hnd | exact Ht].
    - unfold eoff in *. destruct SE as [_ [_ [-> _]]]. exact Hoff.
    - rewrite !app_length, Hlen. cbn [length]. lia.
    - rewrite Elen. rewrite nth_snoc_last by exact Hlen. rewrite F3. exact L3t.
    - rewrite F3. cbn [wr' wino]. rewrite Inew. split; reflexivity.
    - intros i Hi. rewrite Elen in Hi. rewrite F3. rewrite (app_nth1 keys _ kd) by lia.
      destruct (Nat.eq_dec i (length closed)) as [->|Hne].
      + exists (wino wr). fold kold. rewrite L3o by (apply Hneq; lia). split; [exact Hc|]. split.
        * rewrite Iold. exact Hcp.
        * split; [|cbn [wr' wino]; rewrite Hnew; lia].
          unfold content at 1. rewrite Iold. cbn [with_data fdata]. rewrite app_nth2, Nat.sub_diag by lia. reflexivity.
      + assert (Hi' : i < length closed) by lia. destruct (Hcl i Hi') as [j [Lj [Pj [Cj Hj2]]]].
        exists j. rewrite L3o by (apply Hneq; lia). split; [exact Lj|].
        assert (Hj1 : j <> new). { pose proof (wf_bound _ W _ _ Lj). rewrite Hnew. lia. }
        unfold content. rewrite Ioth by assumption. split; [exact Pj|]. rewrite app_nth1 by assumption. split; [exact Cj | exact Hj1].
    - intros n j Hn. rewrite F3 in Hn. rewrite Elen.
      destruct (beq_spec n (kname c e knew)) as [->|Hn2].
      + exists (S (length closed)). split; [lia|]. rewrite nth_snoc_last by exact Hlen. reflexivity.
      + rewrite L3o in Hn by assumption. destruct (Hon _ _ Hn) as [i [Hi E]].
        exists i. split; [lia|]. rewrite (app_nth1 keys _ kd) by lia. exact E.
    - apply ko_snoc; [exact Hko|]. intros k Ik. specialize (Hrg k Ik). lia.
    - destruct SE as [_ [-> _]]. intros k Ik. apply in_app_or in Ik. destruct Ik as [Ik|[<-|[]]].
      + exact (Hrg k Ik).
      + unfold knew. cbn [fst]. lia.
    - unfold wr_ok, wr'. cbn. destruct (c_cap c); [lia | reflexivity].
    - reflexivity. }
  split. { unfold cur_view. rewrite F3. cbn [wr' wino wpend]. unfold content. rewrite Inew. reflexivity. }
  split. { destruct roll; cbn; auto. }
  split; [exact SE|].
  (* the new file was born now *)
  assert (B : birth_or_now w3 (kname c e knew) = wnow w).
  { unfold birth_or_now, file_of. rewrite F3, L3t, Inew. reflexivity. }
  intros st Hst. destruct crit, roll; cbn [roll_ok reset_size_and_date] in *; try contradiction; rewrite ?B; tauto.
Qed.

(* ------------------------------------------------------------------ a write on an active writer *)
Lemma write_active_tsd_t c crit e lo hi w wr keys closed roll b :
  tsdcfg c crit -> tag_ok c -> years_ok e lo hi -> TsdInv c e lo w wr keys closed ->
  (wnow w <= hi)%Z -> (N.of_nat (length keys) <= usize_max)%N -> roll_size_ok roll (length (cur_view w wr)) ->
  let rot := rotation_necessary w roll in
  exists w' wr' roll' keys' closed',
    write_buffer (st_tsd c e (nth (length closed) keys kd) roll wr) w b
      = (Ok tt, w', st_tsd c e (nth (length closed') keys' kd) roll' wr', rot)
    /\ TsdInv c e lo w' wr' keys' closed' /\ roll_size_ok roll' (length (cur_view w' wr')) /\ same_env w w'
    /\ (closed', cur_view w' wr') = (if rot then (closed ++ [cur_view w wr], b) else (closed, cur_view w wr ++ b))
    /\ List.map fst keys' = (if rot then List.map fst keys ++ [wnow w] else List.map fst keys)
    /\ (forall st, roll_ok crit st roll -> roll_ok crit (if rot then wnow w else st) roll').
Proof.
  intros Hcfg T Y I Hhi Hmax Hsz rot.
  unfold write_buffer, st_tsd. cbn [f_cfg f_inner f_poisoned mk_rs rs_roll]. fold rot.
  assert (M : exists w1 wr1 roll1 keys1 closed1,
            mount_next c w (Active (Some (mk_rs (NSTs (fst (nth (length closed) keys kd)) None std_fmt) roll)) wr
                                   (kname c e (nth (length closed) keys kd))) false
            = (Ok tt, w1, Active (Some (mk_rs (NSTs (fst (nth (length closed1) keys1 kd)) None std_fmt) roll1)) wr1
                                 (kname c e (nth (length closed1) keys1 kd)))
            /\ TsdInv c e lo w1 wr1 keys1 closed1 /\ roll_size_ok roll1 (length (cur_view w1 wr1)) /\ same_env w w1
            /\ (closed1, cur_view w1 wr1) = (if rot then (closed ++ [cur_view w wr], []) else (closed, cur_view w wr))
            /\ List.map fst keys1 = (if rot then List.map fst keys ++ [wnow w] else List.map fst keys)
            /\ (forall st, roll_ok crit st roll -> roll_ok crit (if rot then wnow w else st) roll1)).
  { destruct rot eqn:Er.
    - destruct (mount_next_rotates_tsd_t c crit e lo hi w wr keys closed roll false Hcfg T Y I Hhi Hmax)
        as [w1 [wr1 [roll1 [E [I1 [V1 [Z1 [S1 R1]]]]]]]]; [exact Er|].
      exists w1, wr1, roll1, (keys ++ [(wnow w, count (wnow w) keys)]), (closed ++ [cur_view w wr]). rewrite V1.
      assert (En : nth (length (closed ++ [cur_view w wr])) (keys ++ [(wnow w, count (wnow w) keys)]) kd = (wnow w, count (wnow w) keys)).
      { apply nth_snoc_last. rewrite app_length. cbn [length]. rewrite (td_len _ _ _ _ _ _ _ I). lia. }
      rewrite En. cbn [fst].
      split; [exact E|]. split; [exact I1|]. split; [exact Z1|]. split; [exact S1|]. split; [reflexivity|].
      split; [rewrite map_app; reflexivity | exact R1].
    - exists w, wr, roll, keys, closed. split.
      + unfold mount_next. cbn [mk_rs rs_roll orb]. unfold rot in Er. rewrite Er. reflexivity.
      + split; [exact I|]. split; [exact Hsz|]. split; [apply same_env_refl; apply I|]. split; [reflexivity|]. split; [reflexivity | auto]. }
  destruct M as [w1 [wr1 [roll1 [keys1 [closed1 [E [I1 [Z1 [S1 [V1 [K1 R1]]]]]]]]]]].
  rewrite E.
  destruct (w_write_quiet w1 wr1 b (td_quiet _ _ _ _ _ _ _ I1) (td_wr _ _ _ _ _ _ _ I1)) as [w2 [wr2 [fl [Ew [S2 [F2 [Ei [Ec [Ep Hok]]]]]]]]].
  rewrite Ew.
  destruct (tsdinv_append c e lo w1 w2 wr1 wr2 keys1 closed1 fl I1 F2 S2 Ei Ec Hok) as [I2 C2].
  exists w2, wr2, (increase_size roll1 (N.of_nat (length b))), keys1, closed1.
  assert (V2 : cur_view w2 wr2 = cur_view w1 wr1 ++ b).
  { unfold cur_view. rewrite C2, <- !app_assoc, Ep. reflexivity. }
  split; [reflexivity|]. split; [exact I2|].
  split. { rewrite V2, app_length. apply roll_size_increase. exact Z1. }
  split; [eapply same_env_trans; eassumption|].
  split. { rewrite V2. destruct rot; injection V1 as -> ->; reflexivity. }
  split; [exact K1|].
  intros st Hst. apply roll_ok_increase. apply R1. exact Hst.
Qed.

(* ------------------------------------------------------------------ the first write: the file is born now *)
Lemma initialize_empty_tsd_t c crit e lo w :
  tsdcfg c crit -> quiet w -> names (wfs w) = [] -> inodes (wfs w) = [] -> eoff c w = e -> (lo <= wnow w)%Z ->
  exists w' wr roll,
    initialize c w = (Ok (Active (Some (mk_rs (NSTs (wnow w) None std_fmt) roll)) wr (kname c e (wnow w, 0))), w')
    /\ TsdInv c e lo w' wr [(wnow w, 0)] [] /\ cur_view w' wr = [] /\ roll_size_ok roll 0 /\ same_env w w'
    /\ roll_ok crit (wnow w) roll.
Proof.
  intros [Hrot [Hts [Hlink _]]] Q Hn Hi Hoff Hlo.
  unfold initialize. rewrite Hrot. unfold init_naming.
  rewrite (latest_timestamp_file_empty c w _ Q Hn). cbn [bind].
  unfold collision_free. rewrite !tick_quiet by assumption. rewrite collision_free_infix_empty by assumption. cbn [bind].
  rewrite newest_of_next_same.
  assert (E0 : (if c_append c then (Ok (NSTs (wnow w) None std_fmt, infix_from_ts c w std_fmt (wnow w)), w)
                else (Ok (NSTs (wnow w) None std_fmt, infix_from_ts c w std_fmt (wnow w)), w))
               = (Ok (NSTs (wnow w) None std_fmt, infix_from_ts c w std_fmt (wnow w)), w)) by (destruct (c_append c); reflexivity).
  rewrite E0. clear E0. cbn [bind].
  rewrite infix_from_ts_tsx, Hoff.
  unfold open_log_file. rewrite (name_of_fixed c w) by assumption.
  change (as_name (c_spec c) (fixed0 c) (Some (tsx e (wnow w)))) with (kname c e (wnow w, 0)).
  set (k0 := (wnow w, 0)).
  destruct (open_fresh_quiet c w (kname c e k0) Q Hlink (lookup_empty _ _ Hn)) as [w2 [Eop [F2 S2]]]. rewrite Eop. cbn [bind fst snd].
  unfold create_file in F2. cbn [fst snd] in F2. rewrite Hn, Hi in F2. cbn [length app] in F2.
  unfold create_file. cbn [snd]. rewrite Hi. cbn [length].
  set (wr := {| wino := 0; wpend := []; wcap := c_cap c |}).
  assert (Lc : lookup (wfs w2) (kname c e k0) = Some 0) by (rewrite F2; unfold lookup; cbn; rewrite beq_refl; reflexivity).
  assert (Fo : file_of (wfs w2) (kname c e k0) = Some (fresh_file (wnow w))) by (unfold file_of; rewrite Lc, F2; reflexivity).
  assert (RN : exists roll, roll_new w2 crit (c_append c) (kname c e k0) = (Ok roll, w2) /\ roll_size_ok roll 0
               /\ roll_ok crit (wnow w) roll).
  { unfold roll_new, birth_or_now. destruct (c_append c).
    - rewrite tick_quiet by apply S2. rewrite Fo. cbn [fresh_file fdata fborn length].
      eexists. split; [reflexivity|]. split; destruct crit; cbn; rewrite ?Fo; cbn; auto.
    - rewrite Fo. cbn [fresh_file fborn]. eexists. split; [reflexivity|]. split; destruct crit; cbn; rewrite ?Fo; cbn; auto. }
  destruct RN as [roll [Ern [Z R]]]. rewrite Ern. cbn [bind].
  exists w2, wr, roll. split; [reflexivity|].
  split.
  { constructor; cbn [length nth].
    - apply S2.
    - rewrite F2. split.
      + intros a j. unfold lookup; cbn. destruct (beq (kname c e k0) a); [|discriminate]. intros E; injection E as <-. lia.
      + intros a b j. unfold lookup; cbn. destruct (beq_spec (kname c e k0) a), (beq_spec (kname c e k0) b); try discriminate. congruence.
    - rewrite F2. unfold dir_names. cbn [names List.map fst]. constructor; [intros [] | constructor].
    - unfold eoff in *. destruct S2 as [_ [_ [-> _]]]. exact Hoff.
    - reflexivity.
    - exact Lc.
    - rewrite F2. split; reflexivity.
    - intros i Hi'. lia.
    - intros n j. rewrite F2. unfold lookup; cbn. destruct (beq_spec (kname c e k0) n) as [<-|]; [|discriminate].
      intros _. exists 0. split; [lia | reflexivity].
    - exact (ko_snoc [] (wnow w) ko_nil (fun k (H : In k []) => match H with end)).
    - destruct S2 as [_ [-> _]]. intros k [<-|[]]. unfold k0. cbn [fst]. lia.
    - unfold wr_ok, wr. cbn. destruct (c_cap c); [lia | reflexivity].
    - reflexivity. }
  split. { unfold cur_view, content, inode. rewrite F2. reflexivity. }
  split; [exact Z|]. split; [exact S2 | exact R].
Qed.

(* ------------------------------------------------------------------ the invariant against the timed view *)
(* the roll state's `created` is the start instant of the current file, and the seconds of the keys - the time stamps in
   the names - are the start instants of the files, in order *)
Definition RelTdT (c : config) (crit : criterion) (e lo : Z) (n : nat) (x : sys) (v : tview) : Prop :=
  s_tl x = [] /\ wacts (s_w x) = 0 /\
  match v with
  | None => s_flw x = Some (new_flw c) /\ quiet (s_w x) /\ names (wfs (s_w x)) = [] /\ inodes (wfs (s_w x)) = []
            /\ eoff c (s_w x) = e /\ (lo <= wnow (s_w x))%Z
  | Some (cl, (st, cu)) =>
    exists keys wr roll, s_flw x = Some (st_tsd c e (nth (length (List.map snd cl)) keys kd) roll wr)
      /\ TsdInv c e lo (s_w x) wr keys (List.map snd cl)
      /\ cur_view (s_w x) wr = cu /\ length (List.map snd cl) <= n
      /\ roll_size_ok roll (length cu) /\ roll_ok crit st roll
      /\ List.map fst keys = List.map fst cl ++ [st]
  end.

Lemma RelTdT_RelTd c crit e lo n x v : RelTdT c crit e lo n x v -> RelTd c crit e lo n x (untime v).
Proof.
  intros [Ht [Ha R]]. split; [exact Ht|]. split; [exact Ha|].
  destruct v as [[cl [st cu]]|]; cbn [untime]; [|exact R].
  destruct R as [keys [wr [roll [Es [I [V [Hn [Z [K _]]]]]]]]]. exists keys, wr, roll.
  split; [exact Es|]. split; [exact I|]. split; [exact V|]. split; [exact Hn|]. split; [exact Z|].
  intros m Hm. exact (roll_ok_size _ _ _ _ K Hm).
Qed.

Lemma start_relTdT c crit t0 off : RelTdT c crit (ts_e c off) t0 0 (fst (step (sys0 t0 off) (OStart c))) None.
Proof. cbn. repeat split. cbn. lia. Qed.

(* what a write does, from either kind of state *)
Lemma write_relTdT c crit e lo hi n x v b :
  tsdcfg c crit -> tag_ok c -> years_ok e lo hi -> RelTdT c crit e lo n x v ->
  (wnow (s_w x) <= hi)%Z -> (N.of_nat (S n) <= usize_max)%N ->
  exists s w' s', s_flw x = Some s /\ f_poisoned s = false /\
    write_buffer s (s_w x) b = (Ok tt, w', s', t_flag crit (woff (s_w x)) v (wnow (s_w x)))
    /\ RelTdT c crit e lo (S n) {| s_flw := Some s'; s_w := w'; s_tl := []; s_dead := s_dead x |}
              (t_step crit (woff (s_w x)) v (wnow (s_w x)) (OWrite b))
    /\ same_env (s_w x) w'.
Proof.
  intros Hcfg T Y [Ht [Ha R]] Hhi Hmax. destruct v as [[cl [st cu]]|].
  - destruct R as [keys [wr [roll [Es [I [V [Hn [Z [K Kf]]]]]]]]].
    rewrite <- V in Z.
    assert (Hk : (N.of_nat (length keys) <= usize_max)%N) by (rewrite (td_len _ _ _ _ _ _ _ I); lia).
    destruct (write_active_tsd_t c crit e lo hi (s_w x) wr keys (List.map snd cl) roll b Hcfg T Y I Hhi Hk Z)
      as [w' [wr' [roll' [keys' [closed' [E [I' [Z' [S' [V' [K' R']]]]]]]]]]].
    assert (D : rotation_necessary (s_w x) roll = due crit (woff (s_w x)) st cu (wnow (s_w x))).
    { apply roll_decision; [exact K | rewrite <- V; exact Z]. }
    exists (st_tsd c e (nth (length (List.map snd cl)) keys kd) roll wr), w', (st_tsd c e (nth (length closed') keys' kd) roll' wr').
    split; [exact Es|]. split; [reflexivity|]. cbn [t_flag]. rewrite <- D. split; [exact E|].
    split; [|exact S'].
    split; [reflexivity|]. split; [cbn [s_w]; exact (same_env_acts _ _ S' Ha)|].
    cbn [t_step]. rewrite <- D. rewrite V in V'. specialize (R' st K).
    destruct (rotation_necessary (s_w x) roll); injection V' as -> V''; exists keys', wr', roll'; cbn [s_flw s_w].
    + rewrite !map_app. cbn [List.map snd fst].
      split; [reflexivity|]. split; [exact I'|]. split; [exact V''|].
      split; [rewrite app_length; cbn [length]; unfold tfile in *; lia|]. split; [rewrite <- V''; exact Z'|]. split; [exact R'|].
      rewrite K', Kf. reflexivity.
    + split; [reflexivity|]. split; [exact I'|]. split; [exact V''|]. split; [lia|].
      split; [rewrite <- V''; exact Z'|]. split; [exact R'|]. rewrite K'. exact Kf.
  - destruct R as [Es [Q [Hn [Hi [Hoff Hlo]]]]].
    destruct (initialize_empty_tsd_t c crit e lo (s_w x) Hcfg Q Hn Hi Hoff Hlo) as [w1 [wr [roll [Ei [I [V [Z [S1 K]]]]]]]].
    assert (Hhi1 : (wnow w1 <= hi)%Z) by (rewrite (same_env_now _ _ S1); exact Hhi).
    assert (Z0 : roll_size_ok roll (length (cur_view w1 wr))) by (rewrite V; exact Z).
    destruct (write_active_tsd_t c crit e lo hi w1 wr [(wnow (s_w x), 0)] [] roll b Hcfg T Y I Hhi1 ltac:(cbn [length]; lia) Z0)
      as [w' [wr' [roll' [keys' [closed' [E [I' [Z' [S' [V' [K' R']]]]]]]]]]].
    assert (D : rotation_necessary w1 roll = false).
    { rewrite (roll_decision crit w1 (wnow (s_w x)) roll [] K Z).
      destruct S1 as [_ [-> _]]. apply due_self. }
    rewrite D in *.
    exists (new_flw c), w', (st_tsd c e (nth (length closed') keys' kd) roll' wr').
    split; [exact Es|]. split; [reflexivity|].
    split. { rewrite (write_buffer_init c (s_w x) b _ _ _ w1 Ei). exact E. }
    split; [|eapply same_env_trans; eassumption].
    split; [reflexivity|]. split; [cbn [s_w]; exact (same_env_acts _ _ (same_env_trans _ _ _ S1 S') Ha)|].
    cbn [t_step]. rewrite V in V'. cbn [app] in V'. injection V' as -> V''.
    exists keys', wr', roll'. cbn [s_flw s_w List.map length].
    split; [reflexivity|]. split; [exact I'|]. split; [exact V''|]. split; [lia|].
    split; [rewrite <- V''; exact Z'|]. split; [exact (R' _ K)|]. rewrite K'. reflexivity.
Qed.

Lemma step_sync_relTdT c crit e lo n x v o : tsdcfg c crit -> RelTdT c crit e lo n x v -> step x o = sync_step x o.
Proof. intros Hcfg R. exact (step_sync_rel_tsd c crit e lo n x _ o Hcfg (RelTdT_RelTd _ _ _ _ _ _ _ R)). Qed.

Lemma RelTdT_mono c crit e lo n x v : RelTdT c crit e lo n x v -> RelTdT c crit e lo (S n) x v.
Proof.
  intros [Ht [Ha R]]. split; [exact Ht|]. split; [exact Ha|]. destruct v as [[cl [st cu]]|]; [|exact R].
  destruct R as [keys [wr [roll [Es [I [V [Hn ZR]]]]]]]. exists keys, wr, roll.
  split; [exact Es|]. split; [exact I|]. split; [exact V|]. split; [lia | exact ZR].
Qed.

(* one basic operation *)
Lemma step_relTdT c crit e lo hi n x v o :
  tsdcfg c crit -> tag_ok c -> years_ok e lo hi -> RelTdT c crit e lo n x v -> basic_op o -> tick_ok o ->
  (wnow (s_w x) <= hi)%Z -> (N.of_nat (S n) <= usize_max)%N ->
  let '(x', ob) := step x o in
  RelTdT c crit e lo (S n) x' (t_step crit (woff (s_w x)) v (wnow (s_w x)) o)
  /\ woff (s_w x') = woff (s_w x) /\ wnow (s_w x') = clock (wnow (s_w x)) o
  /\ (forall b, (o = OWrite b \/ o = OPlain b) -> ob = ObsRes 0 (t_flag crit (woff (s_w x)) v (wnow (s_w x)))).
Proof.
  intros Hcfg T Y R Hb Htk Hhi Hmax. rewrite (step_sync_relTdT c crit e lo n x v o Hcfg R).
  destruct o; try contradiction; cbn [sync_step clock].
  - (* OWrite *)
    destruct (write_relTdT c crit e lo hi n x v b Hcfg T Y R Hhi Hmax) as [s [w' [s' [Es [Hp [E [R' S']]]]]]].
    rewrite Es, Hp. rewrite (proj1 R). cbn [app]. rewrite E. cbn [s_w].
    split; [exact R'|]. split; [apply S'|]. split; [apply S'|]. intros b0 _. reflexivity.
  - (* OPlain *)
    destruct (write_relTdT c crit e lo hi n x v b Hcfg T Y R Hhi Hmax) as [s [w' [s' [Es [Hp [E [R' S']]]]]]].
    rewrite Es, Hp, E. cbn [code_of s_w]. rewrite (proj1 R).
    split; [exact R'|]. split; [apply S'|]. split; [apply S'|]. intros b0 _. reflexivity.
  - (* OFlush *)
    destruct R as [Ht [Ha R]]. destruct v as [[cl [st cu]]|].
    + destruct R as [keys [wr [roll [Es [I [V [Hn ZR]]]]]]]. rewrite Es. cbn [st_tsd f_poisoned].
      destruct (flush_active_tsd c e lo (s_w x) wr keys (List.map snd cl) roll (nth (length (List.map snd cl)) keys kd) I)
        as [w' [wr' [E [I' [V' [P' S']]]]]].
      fold (st_tsd c e (nth (length (List.map snd cl)) keys kd) roll wr). rewrite E. cbn [t_step s_w].
      split; [|split; [apply S' | split; [apply S' | intros b [H|H]; discriminate]]].
      split; [exact Ht|]. split; [exact (same_env_acts _ _ S' Ha)|]. exists keys, wr', roll. cbn [s_flw s_w].
      split; [reflexivity|]. split; [exact I'|]. split; [congruence|]. split; [lia | exact ZR].
    + destruct R as [Es R]. rewrite Es. cbn [new_flw f_poisoned flush_state f_inner t_step s_w].
      split; [|split; [reflexivity | split; [reflexivity | intros b [H|H]; discriminate]]].
      split; [exact Ht|]. split; [exact Ha|]. split; [reflexivity | exact R].
  - (* OTrigger *)
    destruct R as [Ht [Ha R]]. destruct v as [[cl [st cu]]|].
    + destruct R as [keys [wr [roll [Es [I [V [Hn [Z [K Kf]]]]]]]]]. rewrite Es. cbn [st_tsd f_poisoned f_cfg f_inner].
      assert (Hk : (N.of_nat (length keys) <= usize_max)%N) by (rewrite (td_len _ _ _ _ _ _ _ I); lia).
      destruct (mount_next_rotates_tsd_t c crit e lo hi (s_w x) wr keys (List.map snd cl) roll true Hcfg T Y I Hhi Hk eq_refl)
        as [w' [wr' [roll' [E [I' [V' [Z' [S' R']]]]]]]].
      rewrite E. cbn [t_step code_of with_inner f_cfg f_poisoned s_w].
      split; [|split; [apply S' | split; [apply S' | intros b [H|H]; discriminate]]].
      split; [exact Ht|]. split; [exact (same_env_acts _ _ S' Ha)|]. rewrite V in *.
      exists (keys ++ [(wnow (s_w x), count (wnow (s_w x)) keys)]), wr', roll'. cbn [s_flw s_w].
      rewrite !map_app. cbn [List.map snd fst].
      split.
      { rewrite nth_snoc_last by (rewrite app_length; cbn [length]; rewrite (td_len _ _ _ _ _ _ _ I); unfold tfile; lia). reflexivity. }
      split; [exact I'|]. split; [exact V'|]. split; [rewrite app_length; cbn [length]; unfold tfile in *; lia|]. split; [exact Z'|].
      split; [exact (R' _ K)|]. f_equal. exact Kf.
    + destruct R as [Es R]. rewrite Es. cbn [new_flw f_poisoned f_cfg f_inner mount_next with_inner t_step code_of s_w].
      split; [|split; [reflexivity | split; [reflexivity | intros b [H|H]; discriminate]]].
      split; [exact Ht|]. split; [exact Ha|]. split; [reflexivity | exact R].
  - (* OTick *)
    cbn [t_step s_w set_now woff wnow tick_ok] in *.
    split; [|split; [reflexivity | split; [reflexivity | intros b [H|H]; discriminate]]].
    destruct R as [Ht [Ha R]]. split; [exact Ht|]. split; [exact Ha|]. destruct v as [[cl [st cu]]|].
    + destruct R as [keys [wr [roll [Es [I [V [Hn ZR]]]]]]]. exists keys, wr, roll. cbn [s_flw s_w].
      split; [exact Es|]. split; [apply tsdinv_tick; assumption|]. split; [exact V|]. split; [lia | exact ZR].
    + cbn [s_flw s_w]. destruct R as [Es [Q [Hn [Hi [Hoff Hlo]]]]]. repeat split; try assumption; try apply Q. cbn [set_now wnow]. lia.
  - (* OSnap *)
    cbn [t_step]. split; [apply RelTdT_mono; exact R|]. split; [reflexivity|]. split; [reflexivity | intros b [H|H]; discriminate].
Qed.

Lemma clock_dt t o : clock t o = (t + dt_of o)%Z.
Proof. destruct o; cbn [clock dt_of]; lia. Qed.
Lemma clock_run_elapsed ops : forall t, clock_run t ops = (t + elapsed ops)%Z.
Proof.
  induction ops as [|o r IH]; intros t; cbn [clock_run fold_left elapsed]; [lia|].
  change (fold_left clock r (clock t o)) with (clock_run (clock t o) r). rewrite IH, clock_dt. lia.
Qed.

(* a whole run: the invariant, the clock, and every rotation flag *)
Lemma run_relTdT c crit e lo hi : tsdcfg c crit -> tag_ok c -> years_ok e lo hi ->
  forall ops x v n, RelTdT c crit e lo n x v -> Forall basic_op ops -> Forall tick_ok ops ->
  (wnow (s_w x) + elapsed ops <= hi)%Z -> (N.of_nat (n + length ops) <= usize_max)%N ->
  let off := woff (s_w x) in let t := wnow (s_w x) in
  RelTdT c crit e lo (n + length ops) (fst (run x ops)) (t_run crit off v t ops)
  /\ woff (s_w (fst (run x ops))) = off /\ wnow (s_w (fst (run x ops))) = clock_run t ops
  /\ (forall i o, nth_error ops i = Some o -> forall b, (o = OWrite b \/ o = OPlain b) ->
        nth_error (snd (run x ops)) i
        = Some (ObsRes 0 (t_flag crit off (t_run crit off v t (firstn i ops)) (clock_run t (firstn i ops))))).
Proof.
  intros Hcfg T Y. induction ops as [|o r IH]; intros x v n R Hb Htk Hhi Hmax; cbn zeta.
  - cbn [run fst snd length t_run]. rewrite Nat.add_0_r.
    split; [exact R|]. split; [reflexivity|]. split; [reflexivity|]. intros i o H. destruct i; discriminate.
  - cbn [run]. inversion Hb as [|o' r' Ho Hr]; subst. inversion Htk as [|o' r' Hto Htr]; subst.
    cbn [elapsed length] in *. pose proof (elapsed_nonneg r Htr) as Er.
    assert (Hdt : (0 <= dt_of o)%Z) by (destruct o; cbn [dt_of tick_ok] in *; lia).
    pose proof (step_relTdT c crit e lo hi n x v o Hcfg T Y R Ho Hto ltac:(lia) ltac:(lia)) as S. destruct (step x o) as [x1 ob] eqn:Est.
    destruct S as [R1 [O1 [N1 F1]]].
    assert (Hhi1 : (wnow (s_w x1) + elapsed r <= hi)%Z) by (rewrite N1, clock_dt; lia).
    specialize (IH x1 _ (S n) R1 Hr Htr Hhi1 ltac:(lia)). cbn zeta in IH. rewrite O1, N1 in IH.
    destruct (run x1 r) as [x2 obs] eqn:Er'. cbn [fst snd] in *.
    replace (n + S (length r)) with (S n + length r) by lia.
    destruct IH as [IH1 [IH2 [IH3 IH4]]].
    split; [exact IH1|]. split; [exact IH2|]. split; [exact IH3|].
    intros i o0 Hi b Hw. destruct i as [|i].
    + cbn in Hi. injection Hi as <-. cbn [nth_error firstn t_run clock_run fold_left]. f_equal. exact (F1 b Hw).
    + cbn [nth_error firstn t_run clock_run fold_left] in *. exact (IH4 i o0 Hi b Hw).
Qed.

(* ------------------------------------------------------------------ stop: what the reader finds, with the keys' seconds *)
Lemma stop_relTdT c crit e lo n x v : tsdcfg c crit -> RelTdT c crit e lo n x v ->
  let '(x', _) := step x OStop in
  match v with
  | None => names (wfs (s_w x')) = []
  | Some (cl, (st, cu)) =>
    exists keys, tsd_view c e (wfs (s_w x')) keys (List.map snd cl ++ [cu]) /\ keys_ok keys
                 /\ (forall k, In k keys -> (lo <= fst k <= wnow (s_w x))%Z)
                 /\ List.map fst keys = List.map fst cl ++ [st]
  end.
Proof.
  intros Hcfg R0. rewrite (step_sync_relTdT c crit e lo n x v OStop Hcfg R0). destruct R0 as [Ht [Ha R]]. cbn [sync_step].
  destruct v as [[cl [st cu]]|].
  - destruct R as [keys [wr [roll [Es [I [V [_ [_ [_ Kf]]]]]]]]]. rewrite Es. cbn [st_tsd f_poisoned]. unfold drop_state.
    set (k := nth (length (List.map snd cl)) keys kd).
    destruct (shutdown_active_tsd c e lo (s_w x) wr keys (List.map snd cl) roll k I Ha) as [w1 [wr1 [E1 [I1 [V1 [P1 A1]]]]]].
    fold (st_tsd c e k roll wr). rewrite E1.
    destruct (shutdown_active_tsd c e lo w1 wr1 keys (List.map snd cl) roll k I1 A1) as [w2 [wr2 [E2 [I2 [V2 [P2 A2]]]]]]. rewrite E2.
    cbn [st_tsd f_inner s_w]. unfold w_drop.
    destruct (w_flush_quiet w2 wr2 (td_quiet _ _ _ _ _ _ _ I2)) as [w3 [E3 [F3 S3]]]. rewrite E3. cbn [fst snd].
    rewrite P2, append_ino_nil_id in F3. rewrite F3.
    exists keys. split; [|split; [exact (td_keys _ _ _ _ _ _ _ I) | split; [exact (td_range _ _ _ _ _ _ _ I) | exact Kf]]].
    rewrite <- V, <- V1, <- V2. apply (tsdinv_view c e lo); assumption.
  - destruct R as [Es [Q [Hn Hi]]]. rewrite Es. cbn [new_flw f_poisoned drop_state shutdown_state f_inner s_w]. exact Hn.
Qed.

(* ------------------------------------------------------------------ the view of a whole run *)
Lemma run_view_tsd_t c crit t0 off ops :
  tsdcfg c crit -> tag_ok c -> Forall basic_op ops -> Forall tick_ok ops ->
  (0 <= t0 + ts_e c off)%Z -> (t0 + elapsed ops + ts_e c off < sec_max)%Z -> (N.of_nat (length ops) <= usize_max)%N ->
  exists x0 ob0, step (sys0 t0 off) (OStart c) = (x0, ob0) /\
    let v := t_run crit off None t0 ops in
    let f := wfs (s_w (fst (run (sys0 t0 off) (OStart c :: ops ++ [OStop])))) in
    (exists keys, tsd_view c (ts_e c off) f keys (List.map snd (tfiles v)) /\ keys_ok keys
                  /\ (forall k, In k keys -> (t0 <= fst k <= t0 + elapsed ops)%Z)
                  /\ List.map fst keys = List.map fst (tfiles v))
    /\ (forall i o, nth_error ops i = Some o -> forall b, (o = OWrite b \/ o = OPlain b) ->
          nth_error (snd (run x0 ops)) i
          = Some (ObsRes 0 (t_flag crit off (t_run crit off None t0 (firstn i ops)) (clock_run t0 (firstn i ops))))).
Proof.
  intros Hcfg T Hb Htk Hlo Hhi Hmax. cbn [run]. destruct (step (sys0 t0 off) (OStart c)) as [x0 ob0] eqn:E0.
  exists x0, ob0. split; [reflexivity|].
  pose proof (start_relTdT c crit t0 off) as R0. pose proof (start_clock c t0 off) as [N0 O0].
  rewrite E0 in R0, N0, O0. cbn [fst] in R0, N0, O0.
  assert (Y : years_ok (ts_e c off) t0 (t0 + elapsed ops)) by (split; assumption).
  rewrite run_app.
  pose proof (run_relTdT c crit _ _ _ Hcfg T Y ops x0 None 0 R0 Hb Htk ltac:(lia) ltac:(cbn [Nat.add]; exact Hmax)) as [R1 [O1 [W1 F1]]].
  rewrite N0, O0 in *.
  destruct (run x0 ops) as [x1 obs1]. cbn [fst snd] in *.
  pose proof (stop_relTdT c crit _ _ _ x1 _ Hcfg R1) as S. cbn [run]. destruct (step x1 OStop) as [x2 ob2]. cbn [fst].
  split; [|exact F1].
  destruct (t_run crit off None t0 ops) as [[cl [st cu]]|]; cbn [tfiles].
  - destruct S as [keys [V [K [Rg Kf]]]]. exists keys. rewrite !map_app. cbn [List.map snd fst].
    split; [exact V|]. split; [exact K|]. split; [|exact Kf].
    intros k Ik. specialize (Rg k Ik). rewrite W1, clock_run_elapsed in Rg. lia.
  - exists []. split; [apply tsd_view_nil; auto|]. split; [constructor|]. split; [intros k [] | reflexivity].
Qed.

(* ------------------------------------------------------------------ 1. the rotation flags *)
(* The flag observed for the i-th operation, a write at clock value t = t0 + the ticks before it, is the oracle's decision
   `rotate_due` on the state before it: the start instant and the content (disk + buffer) of the file being written, which
   is the last file of the oracle's partition of the history so far.  No file yet: no rotation.  The period is taken in
   LOCAL time (offset off) whether or not use_utc is set (use_utc concerns the text of the time stamp in the name only). *)
Theorem timestampsdirect_age_flags c crit t0 off ops i o b :
  tsdcfg c crit -> tag_ok c -> Forall basic_op ops -> Forall tick_ok ops ->
  (0 <= t0 + ts_e c off)%Z -> (t0 + elapsed ops + ts_e c off < sec_max)%Z -> (N.of_nat (length ops) <= usize_max)%N ->
  nth_error ops i = Some o -> (o = OWrite b \/ o = OPlain b) ->
  nth_error (snd (run (sys0 t0 off) (OStart c :: ops))) (S i)
  = Some (ObsRes 0
      match last_opt (tpartition (age_of crit) (lim_of crit) off [] None (titems t0 (firstn i ops))) with
      | None => false
      | Some (start, content) => rotate_due (age_of crit) (lim_of crit) off start content (clock_run t0 (firstn i ops))
      end).
Proof.
  intros Hcfg T Hb Htk Hlo Hhi Hmax Hi Ho.
  destruct (run_view_tsd_t c crit t0 off ops Hcfg T Hb Htk Hlo Hhi Hmax) as [x0 [ob0 [E0 [_ Hr]]]].
  cbn [run]. rewrite E0. destruct (run x0 ops) as [x1 obs1]. cbn [snd nth_error] in *. rewrite (Hr i o Hi b Ho). do 2 f_equal.
  pose proof (t_run_partition crit off (firstn i ops) None t0) as P. cbn [tcl tcu] in P. rewrite <- P, tfiles_last.
  unfold t_flag, tcu, due, age_of, lim_of. destruct (t_run crit off None t0 (firstn i ops)) as [[cl [st cu]]|]; reflexivity.
Qed.
Print Assumptions timestampsdirect_age_flags.

(* the same for the pure age criterion, the decision spelled out: a write rotates exactly when it comes in another period
   than the one in which the file was started *)
Corollary timestampsdirect_age_flags_age c a t0 off ops i o b :
  tsdcfg c (CAge a) -> tag_ok c -> Forall basic_op ops -> Forall tick_ok ops ->
  (0 <= t0 + ts_e c off)%Z -> (t0 + elapsed ops + ts_e c off < sec_max)%Z -> (N.of_nat (length ops) <= usize_max)%N ->
  nth_error ops i = Some o -> (o = OWrite b \/ o = OPlain b) ->
  nth_error (snd (run (sys0 t0 off) (OStart c :: ops))) (S i)
  = Some (ObsRes 0
      match last_opt (tpartition (Some a) None off [] None (titems t0 (firstn i ops))) with
      | None => false
      | Some (start, _) => negb (period_of a (start + off) =? period_of a (clock_run t0 (firstn i ops) + off))%Z
      end).
Proof.
  intros Hcfg T Hb Htk Hlo Hhi Hmax Hi Ho. rewrite (timestampsdirect_age_flags c (CAge a) t0 off ops i o b Hcfg T Hb Htk Hlo Hhi Hmax Hi Ho).
  do 2 f_equal. cbn [age_of lim_of crit_parts fst snd]. destruct (last_opt _) as [[st cu]|]; [|reflexivity].
  unfold rotate_due. apply Bool.orb_false_r.
Qed.

(* ------------------------------------------------------------------ 2. the files *)
(* After the writer is stopped the directory consists exactly (tsd_view) of the files that the oracle computes from the
   timed history, in the order of the keys, and THE SECOND OF EACH KEY IS THE INSTANT AT WHICH THE FILE WAS STARTED: the
   instant of the first record of the file or of the rotate() that created it. *)
Theorem timestampsdirect_age_partition c crit t0 off ops :
  tsdcfg c crit -> tag_ok c -> Forall basic_op ops -> Forall tick_ok ops ->
  (0 <= t0 + ts_e c off)%Z -> (t0 + elapsed ops + ts_e c off < sec_max)%Z -> (N.of_nat (length ops) <= usize_max)%N ->
  let tf := tpartition (age_of crit) (lim_of crit) off [] None (titems t0 ops) in
  exists keys,
    tsd_view c (ts_e c off) (wfs (s_w (fst (run (sys0 t0 off) (OStart c :: ops ++ [OStop]))))) keys (List.map snd tf)
    /\ List.map fst keys = List.map fst tf
    /\ keys_ok keys /\ (forall k, In k keys -> (t0 <= fst k <= t0 + elapsed ops)%Z).
Proof.
  intros Hcfg T Hb Htk Hlo Hhi Hmax tf.
  destruct (run_view_tsd_t c crit t0 off ops Hcfg T Hb Htk Hlo Hhi Hmax) as [x0 [ob0 [E0 [[keys [V [K [Rg Kf]]]] _]]]].
  cbv zeta in *. pose proof (t_run_partition crit off ops None t0) as P. cbn [tcl tcu] in P. rewrite P in V, Kf.
  exists keys. auto.
Qed.
Print Assumptions timestampsdirect_age_partition.

(* the reader (time stamp, then restart counter) finds these contents: the executable oracle of C09 accepts *)
Corollary timestampsdirect_age_oracle c crit t0 off ops :
  tsdcfg c crit -> tag_ok c -> not_gz c -> Forall basic_op ops -> Forall tick_ok ops ->
  (0 <= t0 + ts_e c off)%Z -> (t0 + elapsed ops + ts_e c off < sec_max)%Z -> (N.of_nat (length ops) <= usize_max)%N ->
  oracle_C09_partition crit off None (titems t0 ops)
    (family_in_order c (snap_of (fst (run (sys0 t0 off) (OStart c :: ops ++ [OStop]))))) = true.
Proof.
  intros Hcfg T G Hb Htk Hlo Hhi Hmax.
  destruct (timestampsdirect_age_partition c crit t0 off ops Hcfg T Hb Htk Hlo Hhi Hmax) as [keys [V [_ [K Rg]]]].
  assert (Y : years_ok (ts_e c off) t0 (t0 + elapsed ops)) by (split; assumption).
  pose proof (tsd_reader_order c crit _ _ _ _ keys _ Hcfg G Y Rg K V) as E. rewrite <- snap_of_list in E.
  rewrite E. unfold oracle_C09_partition, age_of, lim_of. destruct (crit_parts crit) as [a lim]. apply list_beq2_refl.
Qed.
Print Assumptions timestampsdirect_age_oracle.

(* ------------------------------------------------------------------ 3. the names *)
(* the text of the name of the i-th file: the time stamp of its start instant - in local time, or in UTC with use_utc:
   O_Age.expected_ts_infix - followed by .restart-NNNN when it is not the first file started in that second; NNNN + 1 is the
   number of earlier files started in the same second *)
Lemma infix_of_expected c off t m :
  infix_of (ts_e c off) (t, m)
  = expected_ts_infix (c_utc c) off std_fmt t
    ++ match m with O => [] | S k => restart_tag ++ pad_left 4 48%N (dec (N.of_nat k)) end.
Proof.
  rewrite infix_of_text. unfold expected_ts_infix, ts_e. destruct (c_utc c); [rewrite Z.add_0_r|]; reflexivity.
Qed.

Theorem timestampsdirect_age_names c crit t0 off ops :
  tsdcfg c crit -> tag_ok c -> Forall basic_op ops -> Forall tick_ok ops ->
  (0 <= t0 + ts_e c off)%Z -> (t0 + elapsed ops + ts_e c off < sec_max)%Z -> (N.of_nat (length ops) <= usize_max)%N ->
  let tf := tpartition (age_of crit) (lim_of crit) off [] None (titems t0 ops) in
  let f := wfs (s_w (fst (run (sys0 t0 off) (OStart c :: ops ++ [OStop])))) in
  forall i st d, nth_error tf i = Some (st, d) ->
    let pos := length (filter (fun x : Z * bytes => Z.eqb (fst x) st) (firstn i tf)) in
    exists j, lookup f (nm c (expected_ts_infix (c_utc c) off std_fmt st
                               ++ match pos with O => [] | S k => restart_tag ++ pad_left 4 48%N (dec (N.of_nat k)) end)) = Some j
              /\ plain (inode f j) /\ content f j = d.
Proof.
  intros Hcfg T Hb Htk Hlo Hhi Hmax tf f i st d Hi pos.
  destruct (timestampsdirect_age_partition c crit t0 off ops Hcfg T Hb Htk Hlo Hhi Hmax) as [keys [V [Kf [K Rg]]]].
  fold tf in V, Kf. fold f in V. destruct V as [Hl [Hcl _]].
  assert (Hi' : i < length tf) by (apply nth_error_Some; rewrite Hi; discriminate).
  rewrite map_length in Hl, Hcl.
  destruct (Hcl i Hi') as [j [Lj [Pj Cj]]].
  assert (Ed : nth i (List.map snd tf) [] = d).
  { rewrite (nth_indep _ [] (snd (st, d))) by (rewrite map_length; exact Hi'). rewrite map_nth.
    rewrite (nth_error_nth tf i _ Hi). reflexivity. }
  assert (Ek1 : fst (nth i keys kd) = st).
  { pose proof (map_nth fst keys kd i) as X. rewrite Kf in X. etransitivity; [symmetry; exact X|].
    rewrite (nth_indep _ (fst kd) (fst (st, d))) by (rewrite map_length; exact Hi'). rewrite map_nth.
    rewrite (nth_error_nth tf i _ Hi). reflexivity. }
  assert (Ek2 : snd (nth i keys kd) = pos).
  { rewrite (keys_position keys K i) by lia. rewrite Ek1. unfold count, pos.
    rewrite <- (map_length fst (filter _ (firstn i keys))), <- (map_length fst (filter _ (firstn i tf))).
    assert (F : forall A (l : list (Z * A)), List.map fst (filter (fun k => (fst k =? st)%Z) l) = filter (fun z => (z =? st)%Z) (List.map fst l)).
    { intros A l. induction l as [|x l IH]; [reflexivity|]. cbn [filter List.map]. destruct (fst x =? st)%Z; cbn [List.map]; rewrite IH; reflexivity. }
    rewrite !F, <- !firstn_map. do 3 f_equal. exact Kf. }
  exists j. split; [|split; [exact Pj | rewrite Cj; exact Ed]].
  rewrite <- Lj. f_equal. unfold kname. f_equal.
  destruct (nth i keys kd) as [t m]. cbn [fst snd] in Ek1, Ek2. subst t m. symmetry. apply infix_of_expected.
Qed.
Print Assumptions timestampsdirect_age_names.

(* ------------------------------------------------------------------ 4. the property, without the oracle *)
(* The record-level specification of NumAge.v (age_files: which record goes into which file, when each file was started and
   whether by rotate()) is independent of the naming.  For TimestampsDirect naming the directory consists of these files, and
   the second of the i-th key - the time stamp in the i-th name - is the start instant of the i-th file. *)
Lemma tfiles_forget_fst v : List.map fst (tfiles (forget v)) = List.map rstart (rfiles v).
Proof. destruct v as [[cl cur]|]; [|reflexivity]. cbn [forget tfiles rfiles]. rewrite !map_app, map_map. reflexivity. Qed.

Theorem timestampsdirect_age_records c crit a t0 off ops :
  tsdcfg c crit -> tag_ok c -> Forall basic_op ops -> Forall tick_ok ops ->
  (0 <= t0 + ts_e c off)%Z -> (t0 + elapsed ops + ts_e c off < sec_max)%Z -> (N.of_nat (length ops) <= usize_max)%N ->
  age_of crit = Some a ->
  let fl := age_files crit off t0 ops in
  exists keys,
    tsd_view c (ts_e c off) (wfs (s_w (fst (run (sys0 t0 off) (OStart c :: ops ++ [OStop]))))) keys (List.map rbytes fl)
    /\ List.map fst keys = List.map rstart fl
    /\ keys_ok keys
    /\ concat (List.map rrecs fl) = trecs t0 ops
    /\ (forall f, In f fl -> one_period a off f /\ starts_with_record f)
    /\ trig_starts fl = trig_times false t0 ops
    /\ (forall i f1 f2, nth_error fl i = Some f1 -> nth_error fl (S i) = Some f2 -> was_due crit off f1 f2)
    /\ (forall i f1 f2, nth_error fl i = Some f1 -> nth_error fl (S i) = Some f2 -> start_le f1 f2).
Proof.
  intros Hcfg T Hb Htk Hlo Hhi Hmax Ha fl. unfold fl, age_files.
  destruct (timestampsdirect_age_partition c crit t0 off ops Hcfg T Hb Htk Hlo Hhi Hmax) as [keys [V [Kf [K Rg]]]].
  pose proof (t_run_partition crit off ops None t0) as E. cbn [tcl tcu] in E. rewrite <- E in V, Kf.
  change (@None (list tfile * tfile)) with (forget None) in V, Kf. rewrite <- r_run_forget in V, Kf.
  rewrite tfiles_forget in V. rewrite tfiles_forget_fst in Kf.
  exists keys. split; [exact V|]. split; [exact Kf|]. split; [exact K|].
  split. { rewrite r_run_recs. reflexivity. }
  split. { apply Forall_forall. apply (r_run_files_ok crit a off ops Ha). constructor. }
  split. { rewrite r_run_trigs. reflexivity. }
  split. { apply chain_nth. apply r_run_chain. exact Logic.I. }
  apply chain_nth. apply r_run_mono; [exact Htk|]. split; exact Logic.I.
Qed.
Print Assumptions timestampsdirect_age_records.

(* C09 for TimestampsDirect naming, the headline: the time stamp in the name of a file is the instant at which the file was
   started, and it lies in the period (day / hour / minute / second of LOCAL time) of every record of the file; a file that
   was not started by rotate() starts with its first record, at that very instant, and follows a file for which the
   rotation was due at that instant (another period, or - age-or-size - more than the limit) *)
Corollary timestampsdirect_name_in_period c crit a t0 off ops :
  tsdcfg c crit -> tag_ok c -> Forall basic_op ops -> Forall tick_ok ops ->
  (0 <= t0 + ts_e c off)%Z -> (t0 + elapsed ops + ts_e c off < sec_max)%Z -> (N.of_nat (length ops) <= usize_max)%N ->
  age_of crit = Some a ->
  let fl := age_files crit off t0 ops in
  exists keys,
    tsd_view c (ts_e c off) (wfs (s_w (fst (run (sys0 t0 off) (OStart c :: ops ++ [OStop]))))) keys (List.map rbytes fl)
    /\ keys_ok keys
    /\ forall i f, nth_error fl i = Some f ->
         fst (nth i keys kd) = rstart f
         /\ (forall t b, In (t, b) (rrecs f) -> period_of a (t + off) = period_of a (fst (nth i keys kd) + off))
         /\ (rtrig f = false -> exists b rest, rrecs f = (fst (nth i keys kd), b) :: rest).
Proof.
  intros Hcfg T Hb Htk Hlo Hhi Hmax Ha fl.
  destruct (timestampsdirect_age_records c crit a t0 off ops Hcfg T Hb Htk Hlo Hhi Hmax Ha) as [keys [V [Kf [K [_ [P _]]]]]].
  fold fl in V, Kf, P. exists keys. split; [exact V|]. split; [exact K|].
  intros i f Hi.
  assert (Hi' : i < length fl) by (apply nth_error_Some; rewrite Hi; discriminate).
  assert (Ek : fst (nth i keys kd) = rstart f).
  { pose proof (map_nth fst keys kd i) as X. rewrite Kf in X. etransitivity; [symmetry; exact X|].
    rewrite (nth_indep _ (fst kd) (rstart f)) by (rewrite map_length; exact Hi'). rewrite map_nth.
    rewrite (nth_error_nth fl i _ Hi). reflexivity. }
  destruct (P f (nth_error_In _ _ Hi)) as [P1 P2]. rewrite Ek. split; [reflexivity|]. split; [exact P1 | exact P2].
Qed.
Print Assumptions timestampsdirect_name_in_period.

(* ------------------------------------------------------------------ examples (non-vacuity) *)
Import String.StringSyntax.
Open Scope string_scope.

(* Age::Minute, the history NumAge.minute_ops: the writer is started 59 s before the full minute, a record every 30 s -
   two records in minute 0, two in minute 1, one in minute 2 -, then rotate() and one more record in minute 2 *)
Definition tsda_c : config := tsd_cfg (ex_sp "log") false (CAge AMinute) (Some 8%nat) false.
Lemma tsda_c_ok : tsdcfg tsda_c (CAge AMinute).
Proof. apply tsd_cfg_ok. reflexivity. Qed.
Lemma tsda_c_tag_ok : tag_ok tsda_c.
Proof. apply tag_free_ok. split; vm_compute; reflexivity. Qed.
Lemma tsda_c_not_gz : not_gz tsda_c.
Proof. vm_compute. reflexivity. Qed.
Lemma minute_ops_basic : Forall basic_op minute_ops.
Proof. repeat constructor. Qed.
Lemma minute_ops_ticks : Forall tick_ok minute_ops.
Proof. repeat (apply Forall_cons; [cbn [tick_ok]; first [exact Logic.I | lia]|]). apply Forall_nil. Qed.

(* the directory that the model computes, the flags, and what the oracle expects: each name carries the instant of the first
   record of the file (seconds 1, 61, 121) or of the rotate() (121 again: restart-0000) *)
Example tsd_age_minute_dir :
  snap_of (fst (run (sys0 1 0) (OStart tsda_c :: minute_ops ++ [OStop])))
  = [ (bs "app_r1970-01-01_00-00-01.log", 0%N, bs "ab");
      (bs "app_r1970-01-01_00-01-01.log", 0%N, bs "cd");
      (bs "app_r1970-01-01_00-02-01.log", 0%N, bs "e");
      (bs "app_r1970-01-01_00-02-01.restart-0000.log", 0%N, bs "f") ]
  /\ List.map rot_of (snd (run (sys0 1 0) (OStart tsda_c :: minute_ops)))
     = [false; false; false; false; false; true; false; false; false; false; true; false; false]
  /\ tpartition (Some AMinute) None 0 [] None (titems 1 minute_ops) = [(1%Z, bs "ab"); (61%Z, bs "cd"); (121%Z, bs "e"); (121%Z, bs "f")].
Proof. repeat split; vm_compute; reflexivity. Qed.

(* the theorems apply: their hypotheses can be met *)
Example tsd_age_partition_instance :
  exists keys,
    tsd_view tsda_c 0 (wfs (s_w (fst (run (sys0 1 0) (OStart tsda_c :: minute_ops ++ [OStop]))))) keys [bs "ab"; bs "cd"; bs "e"; bs "f"]
    /\ List.map fst keys = [1%Z; 61%Z; 121%Z; 121%Z]
    /\ keys_ok keys /\ (forall k, In k keys -> (1 <= fst k <= 121)%Z).
Proof.
  apply (timestampsdirect_age_partition tsda_c (CAge AMinute) 1 0 minute_ops tsda_c_ok tsda_c_tag_ok minute_ops_basic minute_ops_ticks).
  - change (0 <= 1)%Z. lia.
  - change (121 < sec_max)%Z. unfold sec_max. lia.
  - vm_compute. discriminate.
Qed.

Example tsd_age_flag_instance :
  nth_error (snd (run (sys0 1 0) (OStart tsda_c :: minute_ops))) 5 = Some (ObsRes 0 true).
Proof.
  rewrite (timestampsdirect_age_flags_age tsda_c AMinute 1 0 minute_ops 4 (OWrite (bs "c")) (bs "c") tsda_c_ok tsda_c_tag_ok
             minute_ops_basic minute_ops_ticks).
  - vm_compute. reflexivity.
  - change (0 <= 1)%Z. lia.
  - change (121 < sec_max)%Z. unfold sec_max. lia.
  - vm_compute. discriminate.
  - reflexivity.
  - left. reflexivity.
Qed.

Example tsd_age_oracle_instance :
  oracle_C09_partition (CAge AMinute) 0 None (titems 1 minute_ops)
    (family_in_order tsda_c (snap_of (fst (run (sys0 1 0) (OStart tsda_c :: minute_ops ++ [OStop]))))) = true.
Proof.
  apply (timestampsdirect_age_oracle tsda_c (CAge AMinute) 1 0 minute_ops tsda_c_ok tsda_c_tag_ok tsda_c_not_gz minute_ops_basic minute_ops_ticks).
  - change (0 <= 1)%Z. lia.
  - change (121 < sec_max)%Z. unfold sec_max. lia.
  - vm_compute. discriminate.
Qed.

(* the record-level files of this history: start instant, started by rotate()?, records with their instants *)
Example tsd_age_records_instance :
  age_files (CAge AMinute) 0 1 minute_ops
  = [ {| rstart := 1; rtrig := false; rrecs := [(1%Z, bs "a"); (31%Z, bs "b")] |};
      {| rstart := 61; rtrig := false; rrecs := [(61%Z, bs "c"); (91%Z, bs "d")] |};
      {| rstart := 121; rtrig := false; rrecs := [(121%Z, bs "e")] |};
      {| rstart := 121; rtrig := true; rrecs := [(121%Z, bs "f")] |} ].
Proof. vm_compute. reflexivity. Qed.

(* age-or-size, limit 1 byte: "ab" is closed by the write of "c" (size), "cd" by the write of "e" (another minute) *)
Example tsd_age_or_size_dir :
  snap_of (fst (run (sys0 1 0) (OStart (tsd_cfg (ex_sp "log") false (CAgeOrSize AMinute 1) (Some 8%nat) false) ::
                                [OWrite (bs "ab"); OWrite (bs "c"); OWrite (bs "d"); OTick 60; OWrite (bs "e"); OStop])))
  = [ (bs "app_r1970-01-01_00-00-01.log", 0%N, bs "ab");
      (bs "app_r1970-01-01_00-00-01.restart-0000.log", 0%N, bs "cd");
      (bs "app_r1970-01-01_00-01-01.log", 0%N, bs "e") ].
Proof. vm_compute. reflexivity. Qed.

(* OBSERVATION (use_utc with a zone offset that is not a multiple of the period): the rotation decision compares LOCAL
   periods (age_rotation_necessary uses local_civil whatever use_utc says), the names show UTC.  Zone offset +30 min, Age::Hour:
   "a" is written at 22:13:20 UTC = 22:43:20 local, "b" at 22:43:20 UTC = 23:13:20 local - another local hour: rotation -,
   "c" at 23:13:20 UTC = 23:43:20 local - the same local hour: no rotation.  Both file names lie in UTC hour 22, and the
   second file holds records of the UTC hours 22 and 23.  The theorems above hold (the name IS the start instant, the periods
   are local ones); read as UTC texts the names do not show "one hour per file". *)
Definition tsda_c2 : config := tsd_cfg (ex_sp "log") true (CAge AHour) None true.
Definition tsda_ops2 : list op := [OWrite (bs "a"); OTick 1800; OWrite (bs "b"); OTick 1800; OWrite (bs "c")].
Example tsd_age_utc_names_local_periods :
  snap_of (fst (run (sys0 1700000000 1800) (OStart tsda_c2 :: tsda_ops2 ++ [OStop])))
  = [ (bs "app_r2023-11-14_22-13-20.log", 0%N, bs "a"); (bs "app_r2023-11-14_22-43-20.log", 0%N, bs "bc") ]
  /\ tpartition (Some AHour) None 1800 [] None (titems 1700000000 tsda_ops2) = [(1700000000%Z, bs "a"); (1700001800%Z, bs "bc")]
  /\ List.map (fun x : Z * bytes => expected_ts_infix true 1800 std_fmt (fst x)) (tpartition (Some AHour) None 1800 [] None (titems 1700000000 tsda_ops2))
     = [bs "r2023-11-14_22-13-20"; bs "r2023-11-14_22-43-20"].
Proof. repeat split; vm_compute; reflexivity. Qed.
