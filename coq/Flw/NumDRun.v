(* NumbersDirect naming: every history of writes, flushes, triggers and clock ticks refines the abstract
   reader's view (closed files, current content).  The abstract side (aview, a_step, a_run, s_run, flat) is the one
   of Numbers naming (NumRun.v): a rotation closes the current file and starts an empty one; here the closed
   file keeps its name and the new one gets the next number. *)
Require Import FL.Base.Bytes FL.Base.BytesFacts FL.Base.PathName FL.Fs.Fs FL.Fs.FsFacts FL.Time.Civil FL.Time.TsFormat
  FL.Names.FileSpec FL.Names.NamesFacts FL.Flw.Model FL.Flw.ModelFacts FL.Flw.NumFs FL.Flw.NumInv FL.Flw.Run FL.Flw.RunFacts
  FL.Flw.NumRun FL.Oracles.O_Flw FL.Flw.NumTheorems FL.Flw.NumDInv.
From Coq Require Import ZifyN ZifyNat ZifyBool.
Open Scope nat_scope.

Definition RelD (c : config) (crit : criterion) (x : sys) (a : aview) : Prop :=
  s_tl x = [] /\ wacts (s_w x) = 0 /\
  match a with
  | None => s_flw x = Some (new_flw c) /\ quiet (s_w x) /\ names (wfs (s_w x)) = [] /\ inodes (wfs (s_w x)) = []
  | Some (closed, cur) =>
    exists wr roll, s_flw x = Some (st_of_d c (length closed) roll wr) /\ NumDInv c (s_w x) wr closed
      /\ cur_view (s_w x) wr = cur /\ roll_size_ok roll (length cur)
      /\ (forall m, crit = CSize m -> exists k, roll = RSize m k)
  end.

(* what a write does, from either kind of state *)
Lemma write_rel_d c crit x a b :
  numdcfg c crit -> RelD c crit x a ->
  exists s w' s' rot, s_flw x = Some s /\ f_poisoned s = false /\
    write_buffer s (s_w x) b = (Ok tt, w', s', rot)
    /\ RelD c crit {| s_flw := Some s'; s_w := w'; s_tl := []; s_dead := s_dead x |} (a_step a (OWrite b) rot)
    /\ (forall m, crit = CSize m ->
          rot = (m <? N.of_nat (length (match a with Some (_, cu) => cu | None => [] end)))%N).
Proof.
  intros Hcfg [Ht [Ha R]]. destruct a as [[closed cur]|].
  - destruct R as [wr [roll [Es [I [V [Z RS]]]]]].
    rewrite <- V in Z.
    destruct (write_active_d c crit (s_w x) wr closed roll b Hcfg I Z) as [w' [wr' [roll' [closed' [E [I' [Z' [S' [V' R']]]]]]]]].
    exists (st_of_d c (length closed) roll wr), w', (st_of_d c (length closed') roll' wr'), (rotation_necessary (s_w x) roll).
    split; [exact Es|]. split; [reflexivity|]. split; [exact E|].
    split.
    + split; [reflexivity|]. split; [cbn [s_w]; exact (same_env_acts _ _ S' Ha)|].
      cbn [a_step]. rewrite V in V'.
      destruct (rotation_necessary (s_w x) roll); injection V' as <- V''; (exists wr', roll'; cbn [s_flw s_w];
        split; [reflexivity|]; split; [exact I'|]; split; [exact V''|]; split; [rewrite <- V''; exact Z'|];
        intros m Hm; destruct (RS m Hm) as [k ->]; destruct (R' m k eq_refl) as [k' ->]; eauto).
    + intros m Hm. destruct (RS m Hm) as [k ->]. cbn in Z. subst k. rewrite V. reflexivity.
  - destruct R as [Es [Q [Hn Hi]]].
    destruct (initialize_empty_d c crit (s_w x) Hcfg Q Hn Hi) as [w1 [wr [roll [Ei [I [V [Z [S1 RS]]]]]]]].
    assert (Z0 : roll_size_ok roll (length (cur_view w1 wr))) by (rewrite V; exact Z).
    destruct (write_active_d c crit w1 wr [] roll b Hcfg I Z0) as [w' [wr' [roll' [closed' [E [I' [Z' [S' [V' R']]]]]]]]].
    exists (new_flw c), w', (st_of_d c (length closed') roll' wr'), (rotation_necessary w1 roll).
    split; [exact Es|]. split; [reflexivity|].
    split. { rewrite (write_buffer_init c (s_w x) b _ _ _ w1 Ei). exact E. }
    split.
    + split; [reflexivity|]. split; [cbn [s_w]; exact (same_env_acts _ _ (same_env_trans _ _ _ S1 S') Ha)|].
      cbn [a_step]. rewrite V in V'. cbn [app] in V'.
      destruct (rotation_necessary w1 roll); injection V' as <- V''; (exists wr', roll'; cbn [s_flw s_w];
        split; [reflexivity|]; split; [exact I'|]; split; [exact V''|]; split; [rewrite <- V''; exact Z'|]).
      * intros m Hm. rewrite (RS m Hm) in R'. destruct (R' m 0%N eq_refl) as [k' ->]; eauto.
      * intros m Hm. rewrite (RS m Hm) in R'. destruct (R' m 0%N eq_refl) as [k' ->]; eauto.
    + intros m Hm. rewrite (RS m Hm). reflexivity.
Qed.

Lemma numdinv_env c w w' wr closed : NumDInv c w wr closed -> wfs w' = wfs w -> quiet w' -> NumDInv c w' wr closed.
Proof. intros [Q W Hc Hcp Hcl Hon Hwr Hcap] F Q'. constructor; try rewrite F; assumption. Qed.

(* the configurations covered are synchronous: a step is a step of the synchronous handle *)
Lemma step_sync_rel_d c crit x a o : numdcfg c crit -> RelD c crit x a -> step x o = sync_step x o.
Proof.
  intros [_ [Hts [_ Ha]]] [_ [_ R]].
  assert (E : exists s, s_flw x = Some s /\ f_cfg s = c).
  { destruct a as [[closed cur]|]; [destruct R as [wr [roll [Es _]]] | destruct R as [Es _]]; rewrite Es; eexists; split; reflexivity. }
  destruct E as [s [Es Ec]].
  rewrite step_plain by (intros s' Es'; rewrite Es in Es'; injection Es' as <-; rewrite Ec; exact Hts).
  unfold step_core. rewrite Es. unfold is_async. rewrite Ec, Ha. reflexivity.
Qed.

(* one basic operation *)
Lemma step_rel_d c crit x a o :
  numdcfg c crit -> RelD c crit x a -> basic_op o ->
  let '(x', ob) := step x o in
  RelD c crit x' (a_step a o (rot_of ob))
  /\ (forall b m, (o = OWrite b \/ o = OPlain b) -> crit = CSize m ->
        ob = ObsRes 0 (m <? N.of_nat (length (match a with Some (_, cu) => cu | None => [] end)))%N).
Proof.
  intros Hcfg R Hb. rewrite (step_sync_rel_d c crit x a o Hcfg R). destruct o; try contradiction; cbn [sync_step].
  - (* OWrite *)
    destruct (write_rel_d c crit x a b Hcfg R) as [s [w' [s' [rot [Es [Hp [E [R' C]]]]]]]].
    rewrite Es, Hp. rewrite (proj1 R). cbn [app]. rewrite E. cbn [rot_of]. split; [exact R'|].
    intros b0 m _ Hm. rewrite (C m Hm). reflexivity.
  - (* OPlain *)
    destruct (write_rel_d c crit x a b Hcfg R) as [s [w' [s' [rot [Es [Hp [E [R' C]]]]]]]].
    rewrite Es, Hp, E. cbn [rot_of code_of]. rewrite (proj1 R). split; [exact R'|].
    intros b0 m _ Hm. rewrite (C m Hm). reflexivity.
  - (* OFlush *)
    destruct R as [Ht [Ha R]]. destruct a as [[closed cur]|].
    + destruct R as [wr [roll [Es [I [V [Z RS]]]]]]. rewrite Es. cbn [st_of_d f_poisoned].
      destruct (flush_active_d c (s_w x) wr closed roll I) as [w' [wr' [E [I' [V' [P' S']]]]]].
      fold (st_of_d c (length closed) roll wr). rewrite E. cbn [rot_of a_step].
      split; [|intros b m [H|H]; discriminate].
      split; [exact Ht|]. split; [exact (same_env_acts _ _ S' Ha)|]. exists wr', roll. cbn [s_flw s_w].
      split; [reflexivity|]. split; [exact I'|]. split; [congruence|]. split; assumption.
    + destruct R as [Es R]. rewrite Es. cbn [new_flw f_poisoned flush_state f_inner rot_of a_step].
      split; [|intros b m [H|H]; discriminate].
      split; [exact Ht|]. split; [exact Ha|]. split; [reflexivity | exact R].
  - (* OTrigger *)
    destruct R as [Ht [Ha R]]. destruct a as [[closed cur]|].
    + destruct R as [wr [roll [Es [I [V [Z RS]]]]]]. rewrite Es. cbn [st_of_d f_poisoned f_cfg f_inner].
      destruct (mount_next_rotates_d c crit (s_w x) wr closed roll true Hcfg I eq_refl) as [w' [wr' [roll' [E [I' [V' [Z' [S' R']]]]]]]].
      rewrite E. cbn [rot_of a_step code_of with_inner f_cfg f_poisoned].
      split; [|intros b m [H|H]; discriminate].
      split; [exact Ht|]. split; [exact (same_env_acts _ _ S' Ha)|]. rewrite V in *. exists wr', roll'. cbn [s_flw s_w].
      split; [reflexivity|]. split; [exact I'|]. split; [exact V'|]. split; [exact Z'|].
      intros m Hm. destruct (RS m Hm) as [k ->]. destruct (R' m k eq_refl) as [k' ->]. eauto.
    + destruct R as [Es R]. rewrite Es. cbn [new_flw f_poisoned f_cfg f_inner mount_next with_inner rot_of a_step code_of].
      split; [|intros b m [H|H]; discriminate].
      split; [exact Ht|]. split; [exact Ha|]. split; [reflexivity | exact R].
  - (* OTick *)
    cbn [rot_of a_step]. split; [|intros b m [H|H]; discriminate].
    destruct R as [Ht [Ha R]]. split; [exact Ht|]. split; [exact Ha|]. destruct a as [[closed cur]|].
    + destruct R as [wr [roll [Es [I [V [Z RS]]]]]]. exists wr, roll. cbn [s_flw s_w].
      split; [exact Es|]. split; [apply (numdinv_env c (s_w x)); [exact I | reflexivity | apply I]|].
      split; [exact V|]. split; assumption.
    + cbn [s_flw s_w]. exact R.
  - (* OSnap *)
    cbn [rot_of a_step]. split; [exact R|]. intros b m [H|H]; discriminate.
Qed.

Lemma run_rel_d c crit : numdcfg c crit -> forall ops x a, RelD c crit x a -> Forall basic_op ops ->
  RelD c crit (fst (run x ops)) (a_run a ops (snd (run x ops))).
Proof.
  intros Hcfg. induction ops as [|o r IH]; intros x a R Hb; [exact R|].
  cbn [run]. inversion Hb as [|o' r' Ho Hr]; subst.
  pose proof (step_rel_d c crit x a o Hcfg R Ho) as S. destruct (step x o) as [x1 ob].
  destruct S as [R1 _]. specialize (IH x1 _ R1 Hr). destruct (run x1 r) as [x2 obs]. exact IH.
Qed.

(* ---- stop: what the reader finds ---- *)
(* files = the contents of r00000, r00001, ... in this order; nothing else is in the directory *)
Definition direct_view (c : config) (f : fs) (files : list bytes) : Prop :=
  (forall i, i < length files ->
     exists j, lookup f (rname c i) = Some j /\ plain (inode f j) /\ content f j = nth i files [])
  /\ (forall n j, lookup f n = Some j -> exists i, i < length files /\ n = rname c i).

Lemma numdinv_direct_view c w wr closed : NumDInv c w wr closed -> wpend wr = [] ->
  direct_view c (wfs w) (closed ++ [cur_view w wr]).
Proof.
  intros [Q W Hc Hcp Hcl Hon Hwr Hcap] P. split.
  - intros i Hi. rewrite app_length in Hi. cbn [length] in Hi.
    destruct (Nat.eq_dec i (length closed)) as [->|Hne].
    + exists (wino wr). split; [exact Hc|]. split; [exact Hcp|].
      rewrite app_nth2, Nat.sub_diag by lia. cbn [nth]. unfold cur_view. rewrite P, app_nil_r. reflexivity.
    + assert (Hi' : i < length closed) by lia. destruct (Hcl i Hi') as [j [Lj [Pj Cj]]]. exists j.
      split; [exact Lj|]. split; [exact Pj|]. rewrite app_nth1 by assumption. exact Cj.
  - intros n j L. destruct (Hon n j L) as [i [Hi E]]. exists i. rewrite app_length. cbn [length]. split; [lia | exact E].
Qed.

Lemma shutdown_active_d c w wr closed roll : NumDInv c w wr closed -> wacts w = 0 ->
  exists w' wr', shutdown_state (st_of_d c (length closed) roll wr) w = (w', st_of_d c (length closed) roll wr')
    /\ NumDInv c w' wr' closed /\ cur_view w' wr' = cur_view w wr /\ wpend wr' = [] /\ wacts w' = 0.
Proof.
  intros I Ha. unfold shutdown_state, st_of_d, drain_acts. cbn [f_inner f_cfg mk_rs rs_cleanup rs_naming].
  destruct (w_flush_quiet w wr (nd_quiet _ _ _ _ I)) as [w1 [E [F S]]]. rewrite E.
  set (wr' := {| wino := wino wr; wpend := []; wcap := wcap wr |}).
  assert (Hok : wr_ok wr') by (unfold wr_ok, wr'; cbn; destruct (wcap wr); [lia | reflexivity]).
  destruct (numdinv_append c w w1 wr wr' closed (wpend wr) I F S eq_refl eq_refl Hok) as [I1 C1].
  exists w1, wr'. split; [reflexivity|]. split; [exact I1|]. split; [|split; [reflexivity | exact (same_env_acts _ _ S Ha)]].
  unfold cur_view. rewrite C1. cbn [wr' wpend]. rewrite app_nil_r. reflexivity.
Qed.

(* dropping an active writer: the directory afterwards *)
Lemma drop_active_d c w wr closed roll : NumDInv c w wr closed -> wacts w = 0 ->
  exists w3, drop_state (st_of_d c (length closed) roll wr) w = w3
    /\ quiet w3 /\ wacts w3 = 0 /\ fs_wf (wfs w3) /\ direct_view c (wfs w3) (closed ++ [cur_view w wr]).
Proof.
  intros I Ha. unfold drop_state.
  destruct (shutdown_active_d c w wr closed roll I Ha) as [w1 [wr1 [E1 [I1 [V1 [P1 A1]]]]]]. rewrite E1.
  destruct (shutdown_active_d c w1 wr1 closed roll I1 A1) as [w2 [wr2 [E2 [I2 [V2 [P2 A2]]]]]]. rewrite E2.
  cbn [st_of_d f_inner]. unfold w_drop.
  destruct (w_flush_quiet w2 wr2 (nd_quiet _ _ _ _ I2)) as [w3 [E3 [F3 S3]]]. rewrite E3. cbn [fst snd].
  rewrite P2, append_ino_nil_id in F3.
  exists w3. split; [reflexivity|]. split; [apply S3|]. split; [exact (same_env_acts _ _ S3 A2)|].
  rewrite F3. split; [apply I2|]. rewrite <- V1, <- V2. apply numdinv_direct_view; assumption.
Qed.

Lemma stop_rel_d c crit x a : numdcfg c crit -> RelD c crit x a ->
  let '(x', _) := step x OStop in
  match a with
  | None => names (wfs (s_w x')) = []
  | Some _ => direct_view c (wfs (s_w x')) (files_of a)
  end.
Proof.
  intros Hcfg R0. rewrite (step_sync_rel_d c crit x a OStop Hcfg R0). destruct R0 as [Ht [Ha R]]. cbn [sync_step]. destruct a as [[closed cur]|].
  - destruct R as [wr [roll [Es [I [V [Z RS]]]]]]. rewrite Es. cbn [st_of_d f_poisoned].
    fold (st_of_d c (length closed) roll wr).
    destruct (drop_active_d c (s_w x) wr closed roll I Ha) as [w3 [E3 [_ [_ [_ D]]]]]. rewrite E3. cbn [s_w files_of].
    rewrite <- V. exact D.
  - destruct R as [Es [Q [Hn Hi]]]. rewrite Es. cbn [new_flw f_poisoned drop_state shutdown_state f_inner s_w]. exact Hn.
Qed.

(* ---- the size rule ---- *)
Lemma run_size_d c m : numdcfg c (CSize m) -> forall ops x a, RelD c (CSize m) x a -> Forall basic_op ops ->
  a_run a ops (snd (run x ops)) = s_run m a ops
  /\ (forall i o, nth_error ops i = Some o -> forall b, (o = OWrite b \/ o = OPlain b) ->
        nth_error (snd (run x ops)) i = Some (ObsRes 0 (m <? N.of_nat (length (cur_of (s_run m a (firstn i ops)))))%N)).
Proof.
  intros Hcfg. induction ops as [|o r IH]; intros x a R Hb.
  - split; [reflexivity|]. intros i o H. destruct i; discriminate.
  - cbn [run]. inversion Hb as [|o' r' Ho Hr]; subst.
    pose proof (step_rel_d c (CSize m) x a o Hcfg R Ho) as S. destruct (step x o) as [x1 ob] eqn:Est.
    destruct S as [R1 C1]. specialize (IH x1 _ R1 Hr). destruct (run x1 r) as [x2 obs] eqn:Er. cbn [snd] in *.
    assert (Erot : a_step a o (rot_of ob) = a_step a o (m <? N.of_nat (length (cur_of a)))%N).
    { destruct o; try reflexivity.
      - rewrite (C1 b m (or_introl eq_refl) eq_refl). reflexivity.
      - rewrite (C1 b m (or_intror eq_refl) eq_refl). reflexivity. }
    cbn [a_run s_run]. rewrite <- Erot. destruct IH as [IH1 IH2]. split; [exact IH1|].
    intros i o0 Hi b Hw. destruct i as [|i].
    + cbn in Hi. injection Hi as <-. cbn [nth_error firstn s_run]. f_equal. apply (C1 b m Hw eq_refl).
    + cbn [nth_error firstn s_run] in *. rewrite <- Erot. apply (IH2 i o0 Hi b Hw).
Qed.
