(* TimestampsDirect naming: every history of writes, flushes, triggers and (non-negative) clock ticks refines the abstract
   reader's view (closed files, current content).  The abstract side (aview, a_step, a_run, s_run, flat, written) is the one
   of Numbers naming (NumRun.v); the concrete side additionally carries the keys (second, position) of ALL files, the
   last key being the one of the file that is written. *)
Require Import FL.Base.Bytes FL.Base.BytesFacts FL.Base.PathName FL.Fs.Fs FL.Fs.FsFacts FL.Time.Civil FL.Time.TsFormat
  FL.Names.FileSpec FL.Names.NamesFacts FL.Flw.Model FL.Flw.ModelFacts FL.Flw.NumFs FL.Flw.NumInv FL.Flw.Run FL.Flw.RunFacts
  FL.Flw.NumRun FL.Flw.TsCal FL.Flw.TsTime FL.Flw.TsNames FL.Flw.TsInv FL.Flw.TsRun FL.Flw.TsdInv.
From Coq Require Import ZifyN ZifyNat ZifyBool.
Open Scope nat_scope.

(* n bounds the number of closed files (it grows by at most one with every operation) *)
Definition RelTd (c : config) (crit : criterion) (e lo : Z) (n : nat) (x : sys) (a : aview) : Prop :=
  s_tl x = [] /\ wacts (s_w x) = 0 /\
  match a with
  | None => s_flw x = Some (new_flw c) /\ quiet (s_w x) /\ names (wfs (s_w x)) = [] /\ inodes (wfs (s_w x)) = []
            /\ eoff c (s_w x) = e /\ (lo <= wnow (s_w x))%Z
  | Some (closed, cur) =>
    exists keys wr roll, s_flw x = Some (st_tsd c e (nth (length closed) keys kd) roll wr)
      /\ TsdInv c e lo (s_w x) wr keys closed
      /\ cur_view (s_w x) wr = cur /\ length closed <= n
      /\ roll_size_ok roll (length cur) /\ (forall m, crit = CSize m -> exists k, roll = RSize m k)
  end.

(* what a write does, from either kind of state *)
Lemma write_rel_tsd c crit e lo hi n x a b :
  tsdcfg c crit -> tag_ok c -> years_ok e lo hi -> RelTd c crit e lo n x a ->
  (wnow (s_w x) <= hi)%Z -> (N.of_nat (S n) <= usize_max)%N ->
  exists s w' s' rot, s_flw x = Some s /\ f_poisoned s = false /\
    write_buffer s (s_w x) b = (Ok tt, w', s', rot)
    /\ RelTd c crit e lo (S n) {| s_flw := Some s'; s_w := w'; s_tl := []; s_dead := s_dead x |} (a_step a (OWrite b) rot)
    /\ wnow w' = wnow (s_w x)
    /\ (forall m, crit = CSize m ->
          rot = (m <? N.of_nat (length (match a with Some (_, cu) => cu | None => [] end)))%N).
Proof.
  intros Hcfg T Y [Ht [Ha R]] Hhi Hmax. destruct a as [[closed cur]|].
  - destruct R as [keys [wr [roll [Es [I [V [Hn [Z RS]]]]]]]].
    rewrite <- V in Z.
    assert (Hk : (N.of_nat (length keys) <= usize_max)%N) by (rewrite (td_len _ _ _ _ _ _ _ I); lia).
    destruct (write_active_tsd c crit e lo hi (s_w x) wr keys closed roll b Hcfg T Y I Hhi Hk Z)
      as [w' [wr' [roll' [keys' [closed' [E [I' [Z' [S' [V' R']]]]]]]]]].
    exists (st_tsd c e (nth (length closed) keys kd) roll wr), w', (st_tsd c e (nth (length closed') keys' kd) roll' wr'),
           (rotation_necessary (s_w x) roll).
    split; [exact Es|]. split; [reflexivity|]. split; [exact E|].
    split; [|split; [exact (same_env_now _ _ S')|]].
    + split; [reflexivity|]. split; [cbn [s_w]; exact (same_env_acts _ _ S' Ha)|].
      cbn [a_step]. rewrite V in V'.
      destruct (rotation_necessary (s_w x) roll); injection V' as -> V''; (exists keys', wr', roll'; cbn [s_flw s_w];
        split; [reflexivity|]; split; [exact I'|]; split; [exact V''|]; split; [rewrite ?app_length; cbn [length]; lia|];
        split; [rewrite <- V''; exact Z'|];
        intros m Hm; destruct (RS m Hm) as [k ->]; destruct (R' m k eq_refl) as [k' ->]; eauto).
    + intros m Hm. destruct (RS m Hm) as [k ->]. cbn in Z. subst k. rewrite V. reflexivity.
  - destruct R as [Es [Q [Hn [Hi [Hoff Hlo]]]]].
    destruct (initialize_empty_tsd c crit e lo (s_w x) Hcfg Q Hn Hi Hoff Hlo) as [w1 [wr [roll [Ei [I [V [Z [S1 RS]]]]]]]].
    assert (Hhi1 : (wnow w1 <= hi)%Z) by (rewrite (same_env_now _ _ S1); exact Hhi).
    assert (Z0 : roll_size_ok roll (length (cur_view w1 wr))) by (rewrite V; exact Z).
    destruct (write_active_tsd c crit e lo hi w1 wr [(wnow (s_w x), 0)] [] roll b Hcfg T Y I Hhi1 ltac:(cbn [length]; lia) Z0)
      as [w' [wr' [roll' [keys' [closed' [E [I' [Z' [S' [V' R']]]]]]]]]].
    exists (new_flw c), w', (st_tsd c e (nth (length closed') keys' kd) roll' wr'), (rotation_necessary w1 roll).
    split; [exact Es|]. split; [reflexivity|].
    split. { rewrite (write_buffer_init c (s_w x) b _ _ _ w1 Ei). exact E. }
    split; [|split; [rewrite (same_env_now _ _ S'); exact (same_env_now _ _ S1)|]].
    + split; [reflexivity|]. split; [cbn [s_w]; exact (same_env_acts _ _ (same_env_trans _ _ _ S1 S') Ha)|].
      cbn [a_step]. rewrite V in V'. cbn [app] in V'.
      destruct (rotation_necessary w1 roll); injection V' as -> V''; (exists keys', wr', roll'; cbn [s_flw s_w];
        split; [reflexivity|]; split; [exact I'|]; split; [exact V''|]; split; [cbn [app length]; lia|];
        split; [rewrite <- V''; exact Z'|]).
      * intros m Hm. rewrite (RS m Hm) in R'. destruct (R' m 0%N eq_refl) as [k' ->]; eauto.
      * intros m Hm. rewrite (RS m Hm) in R'. destruct (R' m 0%N eq_refl) as [k' ->]; eauto.
    + intros m Hm. rewrite (RS m Hm). reflexivity.
Qed.

(* the clock may advance under the invariant *)
Lemma tsdinv_tick c e lo w wr keys closed dt : TsdInv c e lo w wr keys closed -> (0 <= dt)%Z ->
  TsdInv c e lo (set_now w (wnow w + dt)%Z) wr keys closed.
Proof.
  intros [Q W Hnd Hoff Hlen Hc Hcp Hcl Hon Hko Hrg Hwr Hcap] Hdt. constructor; try assumption.
  intros k Ik. specialize (Hrg k Ik). cbn [set_now wnow]. lia.
Qed.

Lemma step_sync_rel_tsd c crit e lo n x a o : tsdcfg c crit -> RelTd c crit e lo n x a -> step x o = sync_step x o.
Proof.
  intros [_ [Hts [_ Ha]]] [_ [_ R]].
  assert (E : exists s, s_flw x = Some s /\ f_cfg s = c).
  { destruct a as [[closed cur]|]; [destruct R as [keys [wr [roll [Es _]]]] | destruct R as [Es _]]; rewrite Es; eexists; split; reflexivity. }
  destruct E as [s [Es Ec]].
  rewrite step_plain by (intros s' Es'; rewrite Es in Es'; injection Es' as <-; rewrite Ec; exact Hts).
  unfold step_core. rewrite Es. unfold is_async. rewrite Ec, Ha. reflexivity.
Qed.

Lemma RelTd_mono c crit e lo n x a : RelTd c crit e lo n x a -> RelTd c crit e lo (S n) x a.
Proof.
  intros [Ht [Ha R]]. split; [exact Ht|]. split; [exact Ha|]. destruct a as [[closed cur]|]; [|exact R].
  destruct R as [keys [wr [roll [Es [I [V [Hn ZR]]]]]]]. exists keys, wr, roll.
  split; [exact Es|]. split; [exact I|]. split; [exact V|]. split; [lia | exact ZR].
Qed.

(* one basic operation *)
Lemma step_rel_tsd c crit e lo hi n x a o :
  tsdcfg c crit -> tag_ok c -> years_ok e lo hi -> RelTd c crit e lo n x a -> basic_op o -> tick_ok o ->
  (wnow (s_w x) <= hi)%Z -> (N.of_nat (S n) <= usize_max)%N ->
  let '(x', ob) := step x o in
  RelTd c crit e lo (S n) x' (a_step a o (rot_of ob)) /\ wnow (s_w x') = (wnow (s_w x) + dt_of o)%Z
  /\ (forall b m, (o = OWrite b \/ o = OPlain b) -> crit = CSize m ->
        ob = ObsRes 0 (m <? N.of_nat (length (match a with Some (_, cu) => cu | None => [] end)))%N).
Proof.
  intros Hcfg T Y R Hb Htk Hhi Hmax. rewrite (step_sync_rel_tsd c crit e lo n x a o Hcfg R).
  destruct o; try contradiction; cbn [sync_step dt_of].
  - (* OWrite *)
    destruct (write_rel_tsd c crit e lo hi n x a b Hcfg T Y R Hhi Hmax) as [s [w' [s' [rot [Es [Hp [E [R' [Hw C]]]]]]]]].
    rewrite Es, Hp. rewrite (proj1 R). cbn [app]. rewrite E. cbn [rot_of s_w]. split; [exact R'|]. split; [lia|].
    intros b0 m _ Hm. rewrite (C m Hm). reflexivity.
  - (* OPlain *)
    destruct (write_rel_tsd c crit e lo hi n x a b Hcfg T Y R Hhi Hmax) as [s [w' [s' [rot [Es [Hp [E [R' [Hw C]]]]]]]]].
    rewrite Es, Hp, E. cbn [rot_of code_of s_w]. rewrite (proj1 R). split; [exact R'|]. split; [lia|].
    intros b0 m _ Hm. rewrite (C m Hm). reflexivity.
  - (* OFlush *)
    destruct R as [Ht [Ha R]]. destruct a as [[closed cur]|].
    + destruct R as [keys [wr [roll [Es [I [V [Hn ZR]]]]]]]. rewrite Es. cbn [st_tsd f_poisoned].
      destruct (flush_active_tsd c e lo (s_w x) wr keys closed roll (nth (length closed) keys kd) I) as [w' [wr' [E [I' [V' [P' S']]]]]].
      fold (st_tsd c e (nth (length closed) keys kd) roll wr). rewrite E. cbn [rot_of a_step s_w].
      split; [|split; [rewrite (same_env_now _ _ S'); lia | intros b m [H|H]; discriminate]].
      split; [exact Ht|]. split; [exact (same_env_acts _ _ S' Ha)|]. exists keys, wr', roll. cbn [s_flw s_w].
      split; [reflexivity|]. split; [exact I'|]. split; [congruence|]. split; [lia | exact ZR].
    + destruct R as [Es R]. rewrite Es. cbn [new_flw f_poisoned flush_state f_inner rot_of a_step s_w].
      split; [|split; [lia | intros b m [H|H]; discriminate]].
      split; [exact Ht|]. split; [exact Ha|]. split; [reflexivity | exact R].
  - (* OTrigger *)
    destruct R as [Ht [Ha R]]. destruct a as [[closed cur]|].
    + destruct R as [keys [wr [roll [Es [I [V [Hn [Z RS]]]]]]]]. rewrite Es. cbn [st_tsd f_poisoned f_cfg f_inner].
      assert (Hk : (N.of_nat (length keys) <= usize_max)%N) by (rewrite (td_len _ _ _ _ _ _ _ I); lia).
      destruct (mount_next_rotates_tsd c crit e lo hi (s_w x) wr keys closed roll true Hcfg T Y I Hhi Hk eq_refl)
        as [w' [wr' [roll' [E [I' [V' [Z' [S' R']]]]]]]].
      rewrite E. cbn [rot_of a_step code_of with_inner f_cfg f_poisoned s_w].
      split; [|split; [rewrite (same_env_now _ _ S'); lia | intros b m [H|H]; discriminate]].
      split; [exact Ht|]. split; [exact (same_env_acts _ _ S' Ha)|]. rewrite V in *.
      exists (keys ++ [(wnow (s_w x), count (wnow (s_w x)) keys)]), wr', roll'. cbn [s_flw s_w].
      split.
      { rewrite nth_snoc_last by (rewrite app_length; cbn [length]; rewrite (td_len _ _ _ _ _ _ _ I); lia). reflexivity. }
      split; [exact I'|]. split; [exact V'|]. split; [rewrite app_length; cbn [length]; lia|]. split; [exact Z'|].
      intros m Hm. destruct (RS m Hm) as [k ->]. destruct (R' m k eq_refl) as [k' ->]. eauto.
    + destruct R as [Es R]. rewrite Es. cbn [new_flw f_poisoned f_cfg f_inner mount_next with_inner rot_of a_step code_of s_w].
      split; [|split; [lia | intros b m [H|H]; discriminate]].
      split; [exact Ht|]. split; [exact Ha|]. split; [reflexivity | exact R].
  - (* OTick *)
    cbn [rot_of a_step s_w set_now wnow tick_ok] in *. split; [|split; [reflexivity | intros b m [H|H]; discriminate]].
    destruct R as [Ht [Ha R]]. split; [exact Ht|]. split; [exact Ha|]. destruct a as [[closed cur]|].
    + destruct R as [keys [wr [roll [Es [I [V [Hn ZR]]]]]]]. exists keys, wr, roll. cbn [s_flw s_w].
      split; [exact Es|]. split; [apply tsdinv_tick; assumption|]. split; [exact V|]. split; [lia | exact ZR].
    + cbn [s_flw s_w]. destruct R as [Es [Q [Hn [Hi [Hoff Hlo]]]]]. repeat split; try assumption; try apply Q. cbn [set_now wnow]. lia.
  - (* OSnap *)
    cbn [rot_of a_step]. split; [apply RelTd_mono; exact R|]. split; [lia | intros b m [H|H]; discriminate].
Qed.

(* a run: the relation, the clock, and - for a size criterion - the rotation flags *)
Lemma run_rel_tsd c crit e lo hi : tsdcfg c crit -> tag_ok c -> years_ok e lo hi ->
  forall ops x a n, RelTd c crit e lo n x a -> Forall basic_op ops -> Forall tick_ok ops ->
  (wnow (s_w x) + elapsed ops <= hi)%Z -> (N.of_nat (n + length ops) <= usize_max)%N ->
  RelTd c crit e lo (n + length ops) (fst (run x ops)) (a_run a ops (snd (run x ops)))
  /\ wnow (s_w (fst (run x ops))) = (wnow (s_w x) + elapsed ops)%Z
  /\ (forall m, crit = CSize m ->
        a_run a ops (snd (run x ops)) = s_run m a ops
        /\ (forall i o, nth_error ops i = Some o -> forall b, (o = OWrite b \/ o = OPlain b) ->
              nth_error (snd (run x ops)) i = Some (ObsRes 0 (m <? N.of_nat (length (cur_of (s_run m a (firstn i ops)))))%N))).
Proof.
  intros Hcfg T Y. induction ops as [|o r IH]; intros x a n R Hb Htk Hhi Hmax.
  - cbn [run fst snd a_run length elapsed]. rewrite Nat.add_0_r. split; [exact R|]. split; [lia|].
    intros m _. split; [reflexivity|]. intros i o H. destruct i; discriminate.
  - cbn [run]. inversion Hb as [|o' r' Ho Hr]; subst. inversion Htk as [|o' r' Hto Htr]; subst.
    cbn [elapsed length] in *. pose proof (elapsed_nonneg r Htr) as Er.
    assert (Hdt : (0 <= dt_of o)%Z) by (destruct o; cbn [dt_of tick_ok] in *; lia).
    pose proof (step_rel_tsd c crit e lo hi n x a o Hcfg T Y R Ho Hto ltac:(lia) ltac:(lia)) as S. destruct (step x o) as [x1 ob].
    destruct S as [R1 [W1 C1]]. specialize (IH x1 _ (S n) R1 Hr Htr ltac:(lia) ltac:(lia)). destruct (run x1 r) as [x2 obs].
    cbn [fst snd a_run] in *. replace (n + S (length r)) with (S n + length r) by lia. destruct IH as [IH1 [IH2 IH3]].
    split; [exact IH1|]. split; [lia|].
    intros m Hm. destruct (IH3 m Hm) as [IHa IHb].
    assert (Erot : a_step a o (rot_of ob) = a_step a o (m <? N.of_nat (length (cur_of a)))%N).
    { destruct o; try reflexivity.
      - rewrite (C1 b m (or_introl eq_refl) Hm). reflexivity.
      - rewrite (C1 b m (or_intror eq_refl) Hm). reflexivity. }
    cbn [s_run]. rewrite <- Erot. split; [exact IHa|].
    intros i o0 Hi b Hw. destruct i as [|i].
    + cbn in Hi. injection Hi as <-. cbn [nth_error firstn s_run]. f_equal. apply (C1 b m Hw Hm).
    + cbn [nth_error firstn s_run] in *. rewrite <- Erot. apply (IHb i o0 Hi b Hw).
Qed.

(* ------------------------------------------------------------------ stop: what the reader finds *)
(* the directory consists exactly of the plain files named by the keys, with the given contents; the last one is the file
   that was written last *)
Definition tsd_view (c : config) (e : Z) (f : fs) (keys : list key) (files : list bytes) : Prop :=
  length keys = length files
  /\ (forall i, i < length files ->
        exists j, lookup f (kname c e (nth i keys kd)) = Some j /\ plain (inode f j) /\ content f j = nth i files [])
  /\ (forall n j, lookup f n = Some j -> exists i, i < length files /\ n = kname c e (nth i keys kd))
  /\ NoDup (dir_names f).

Lemma tsdinv_view c e lo w wr keys closed : TsdInv c e lo w wr keys closed -> wpend wr = [] ->
  tsd_view c e (wfs w) keys (closed ++ [cur_view w wr]).
Proof.
  intros [Q W Hnd Hoff Hlen Hc Hcp Hcl Hon Hko Hrg Hwr Hcap] P.
  assert (El : length (closed ++ [cur_view w wr]) = S (length closed)) by (rewrite app_length; cbn [length]; lia).
  split; [rewrite El; exact Hlen|]. split; [|split; [|exact Hnd]].
  - intros i Hi. rewrite El in Hi.
    destruct (Nat.eq_dec i (length closed)) as [->|Hne].
    + exists (wino wr). split; [exact Hc|]. split; [exact Hcp|].
      rewrite app_nth2, Nat.sub_diag by lia. cbn [nth]. unfold cur_view. rewrite P, app_nil_r. reflexivity.
    + assert (Hi' : i < length closed) by lia. destruct (Hcl i Hi') as [j [Lj [Pj [Cj _]]]]. exists j.
      split; [exact Lj|]. split; [exact Pj|]. rewrite app_nth1 by assumption. exact Cj.
  - intros n j L. destruct (Hon n j L) as [i [Hi E]]. exists i. rewrite El. split; [lia | exact E].
Qed.

Lemma shutdown_active_tsd c e lo w wr keys closed roll k : TsdInv c e lo w wr keys closed -> wacts w = 0 ->
  exists w' wr', shutdown_state (st_tsd c e k roll wr) w = (w', st_tsd c e k roll wr')
    /\ TsdInv c e lo w' wr' keys closed /\ cur_view w' wr' = cur_view w wr /\ wpend wr' = [] /\ wacts w' = 0.
Proof.
  intros I Ha. unfold shutdown_state, st_tsd, drain_acts. cbn [f_inner f_cfg mk_rs rs_cleanup rs_naming].
  destruct (w_flush_quiet w wr (td_quiet _ _ _ _ _ _ _ I)) as [w1 [E [F S]]]. rewrite E.
  set (wr' := {| wino := wino wr; wpend := []; wcap := wcap wr |}).
  assert (Hok : wr_ok wr') by (unfold wr_ok, wr'; cbn; destruct (wcap wr); [lia | reflexivity]).
  destruct (tsdinv_append c e lo w w1 wr wr' keys closed (wpend wr) I F S eq_refl eq_refl Hok) as [I1 C1].
  exists w1, wr'. split; [reflexivity|]. split; [exact I1|]. split; [|split; [reflexivity | exact (same_env_acts _ _ S Ha)]].
  unfold cur_view. rewrite C1. cbn [wr' wpend]. rewrite app_nil_r. reflexivity.
Qed.

Lemma stop_rel_tsd c crit e lo n x a : tsdcfg c crit -> RelTd c crit e lo n x a ->
  let '(x', _) := step x OStop in
  match a with
  | None => names (wfs (s_w x')) = []
  | Some (closed, cur) => exists keys, tsd_view c e (wfs (s_w x')) keys (closed ++ [cur]) /\ keys_ok keys
                                       /\ (forall k, In k keys -> (lo <= fst k <= wnow (s_w x))%Z)
  end.
Proof.
  intros Hcfg R0. rewrite (step_sync_rel_tsd c crit e lo n x a OStop Hcfg R0). destruct R0 as [Ht [Ha R]]. cbn [sync_step].
  destruct a as [[closed cur]|].
  - destruct R as [keys [wr [roll [Es [I [V _]]]]]]. rewrite Es. cbn [st_tsd f_poisoned]. unfold drop_state.
    set (k := nth (length closed) keys kd).
    destruct (shutdown_active_tsd c e lo (s_w x) wr keys closed roll k I Ha) as [w1 [wr1 [E1 [I1 [V1 [P1 A1]]]]]].
    fold (st_tsd c e k roll wr). rewrite E1.
    destruct (shutdown_active_tsd c e lo w1 wr1 keys closed roll k I1 A1) as [w2 [wr2 [E2 [I2 [V2 [P2 A2]]]]]]. rewrite E2.
    cbn [st_tsd f_inner s_w]. unfold w_drop.
    destruct (w_flush_quiet w2 wr2 (td_quiet _ _ _ _ _ _ _ I2)) as [w3 [E3 [F3 S3]]]. rewrite E3. cbn [fst snd].
    rewrite P2, append_ino_nil_id in F3. rewrite F3.
    exists keys. split; [|split; [exact (td_keys _ _ _ _ _ _ _ I) | exact (td_range _ _ _ _ _ _ _ I)]].
    rewrite <- V, <- V1, <- V2. apply (tsdinv_view c e lo); assumption.
  - destruct R as [Es [Q [Hn Hi]]]. rewrite Es. cbn [new_flw f_poisoned drop_state shutdown_state f_inner s_w]. exact Hn.
Qed.
