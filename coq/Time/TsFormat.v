(* The strftime subset used for rotated-file infixes: literals and %Y %m %d %H %M %S.
   Formatting as chrono prints these items; parsing as chrono's NaiveDateTime::parse_from_str
   accepts them (leading white space before a numeric item, fewer digits, a sign on the year). *)
Require Import FL.Base.Bytes FL.Time.Civil.
Open Scope N_scope.

Inductive tsitem := TLit (c : N) | TY | Tmo | Td | TH | TMi | TS.
Definition tsfmt := list tsitem.

Definition lit (s : bytes) : tsfmt := List.map TLit s.
(* "r%Y-%m-%d_%H-%M-%S" *)
Definition std_fmt : tsfmt :=
  [TLit 114; TY; TLit 45; Tmo; TLit 45; Td; TLit 95; TH; TLit 45; TMi; TLit 45; TS].
(* "%Y-%m-%d_%H-%M-%S" (start-time part of file names) *)
Definition start_fmt : tsfmt := [TY; TLit 45; Tmo; TLit 45; Td; TLit 95; TH; TLit 45; TMi; TLit 45; TS].

Definition pad_dec (w : nat) (z : Z) : bytes := pad_left w 48 (dec (Z.to_N z)).
Definition fmt_year (y : Z) : bytes :=
  if (0 <=? y)%Z && (y <=? 9999)%Z then pad_dec 4 y
  else if (y <? 0)%Z then 45 :: pad_dec 4 (- y) else 43 :: pad_dec 4 y.

Definition fmt_item (c : civil) (i : tsitem) : bytes :=
  match i with
  | TLit b => [b]
  | TY => fmt_year (cy c)
  | Tmo => pad_dec 2 (cmo c)
  | Td => pad_dec 2 (cd c)
  | TH => pad_dec 2 (ch c)
  | TMi => pad_dec 2 (cmi c)
  | TS => pad_dec 2 (cs c)
  end.
Definition format_ts (f : tsfmt) (c : civil) : bytes := flat_map (fmt_item c) f.

(* ---- parsing ---- *)
Definition is_ws (c : N) : bool := (c =? 32) || ((9 <=? c) && (c <=? 13)).
Fixpoint trim_start (s : bytes) : bytes :=
  match s with c :: r => if is_ws c then trim_start r else s | [] => [] end.

(* scan::number(s, 1, max): up to max leading digits, at least one *)
Fixpoint take_digits (max : nat) (s : bytes) (acc : bytes) : bytes * bytes :=
  match max, s with
  | S m, c :: r => if is_digit c then take_digits m r (acc ++ [c]) else (acc, s)
  | _, _ => (acc, s)
  end.
Definition scan_number (max : nat) (s : bytes) : option (Z * bytes) :=
  match take_digits max s [] with
  | ([], _) => None
  | (d, r) => Some (Z.of_N (dec_value d), r)
  end.

Record parsed := { py : option Z; pmo : option Z; pd : option Z; ph : option Z; pmi : option Z; ps : option Z }.
Definition parsed0 : parsed := {| py := None; pmo := None; pd := None; ph := None; pmi := None; ps := None |}.

Definition set_field (old : option Z) (v : Z) : option (option Z) :=
  match old with None => Some (Some v) | Some o => if (o =? v)%Z then Some old else None end.

Definition in_range (lo hi v : Z) : bool := (lo <=? v)%Z && (v <=? hi)%Z.

(* digits longer than any usize are not modelled: generators keep numbers short *)
Definition parse_item (i : tsitem) (s : bytes) (p : parsed) : option (bytes * parsed) :=
  match i with
  | TLit b => match s with c :: r => if c =? b then Some (r, p) else None | [] => None end
  | TY =>
    let s := trim_start s in
    let r := match s with
             | 45 :: r => match scan_number 30 r with Some (v, r') => Some ((- v)%Z, r') | None => None end
             | 43 :: r => scan_number 30 r
             | _ => scan_number 4 s
             end in
    match r with
    | Some (v, r') => match set_field (py p) v with
                      | Some y => Some (r', {| py := y; pmo := pmo p; pd := pd p; ph := ph p; pmi := pmi p; ps := ps p |})
                      | None => None end
    | None => None
    end
  | Tmo => match scan_number 2 (trim_start s) with
           | Some (v, r') => if in_range 1 12 v then
                               match set_field (pmo p) v with
                               | Some x => Some (r', {| py := py p; pmo := x; pd := pd p; ph := ph p; pmi := pmi p; ps := ps p |})
                               | None => None end else None
           | None => None end
  | Td => match scan_number 2 (trim_start s) with
          | Some (v, r') => if in_range 1 31 v then
                              match set_field (pd p) v with
                              | Some x => Some (r', {| py := py p; pmo := pmo p; pd := x; ph := ph p; pmi := pmi p; ps := ps p |})
                              | None => None end else None
          | None => None end
  | TH => match scan_number 2 (trim_start s) with
          | Some (v, r') => if in_range 0 23 v then
                              match set_field (ph p) v with
                              | Some x => Some (r', {| py := py p; pmo := pmo p; pd := pd p; ph := x; pmi := pmi p; ps := ps p |})
                              | None => None end else None
          | None => None end
  | TMi => match scan_number 2 (trim_start s) with
           | Some (v, r') => if in_range 0 59 v then
                               match set_field (pmi p) v with
                               | Some x => Some (r', {| py := py p; pmo := pmo p; pd := pd p; ph := ph p; pmi := x; ps := ps p |})
                               | None => None end else None
           | None => None end
  | TS => match scan_number 2 (trim_start s) with
          | Some (v, r') => if in_range 0 60 v then
                              match set_field (ps p) v with
                              | Some x => Some (r', {| py := py p; pmo := pmo p; pd := pd p; ph := ph p; pmi := pmi p; ps := x |})
                              | None => None end else None
          | None => None end
  end.

Fixpoint parse_items (f : tsfmt) (s : bytes) (p : parsed) : option parsed :=
  match f with
  | [] => match s with [] => Some p | _ => None end       (* trailing input: TooLong *)
  | i :: f' => match parse_item i s p with Some (s', p') => parse_items f' s' p' | None => None end
  end.

Definition year_ok (y : Z) : bool := in_range (-262143) 262142 y.

(* NaiveDateTime::parse_from_str, with the NotEnough fallback of timestamp_from_ts_infix
   (date only -> 10:00:00); result: local civil time in seconds *)
Definition parse_ts_local (f : tsfmt) (s : bytes) : option Z :=
  match parse_items f s parsed0 with
  | None => None
  | Some p =>
    match py p, pmo p, pd p with
    | Some y, Some m, Some d =>
      if year_ok y && (d <=? days_in_month y m)%Z then
        let day := (days_from_civil y m d * 86400)%Z in
        match ph p, pmi p with
        | Some h, Some mi =>
          let s := match ps p with Some s => s | None => 0%Z end in
          Some (day + h * 3600 + mi * 60 + (if (s =? 60)%Z then 59 else s))%Z
        | _, _ => Some (day + 36000)%Z
        end
      else None
    | _, _, _ => None
    end
  end.

(* the text is exactly what the format itself writes for the instant read from it - chrono reads leniently (leading blanks,
   signs, unpadded numbers), the logger writes padded numbers only; a leap second (":60") is read as second 59 of the
   same minute and written as 60 again *)
Definition canonical_ts (f : tsfmt) (s : bytes) : bool :=
  match parse_ts_local f s with
  | Some l =>
    let c := civil_of l in
    beq (format_ts f c) s
    || ((cs c =? 59)%Z && beq (format_ts f {| cy := cy c; cmo := cmo c; cd := cd c; ch := ch c; cmi := cmi c; cs := 60 |}) s)
  | None => false
  end.
