(* The age criterion compares broken-down local times field by field; that is the comparison of clock periods. *)
Require Import FL.Time.Civil.
From Coq Require Import ZArith Bool Lia.
Open Scope Z_scope.

Inductive age := ADay | AHour | AMinute | ASecond.

(* the comparison made by the code (RollState::age_rotation_necessary), on broken-down times *)
Definition same_period (a : age) (x y : civil) : bool :=
  let d := (cy x =? cy y) && (cmo x =? cmo y) && (cd x =? cd y) in
  match a with
  | ADay => d
  | AHour => d && (ch x =? ch y)
  | AMinute => d && (ch x =? ch y) && (cmi x =? cmi y)
  | ASecond => d && (ch x =? ch y) && (cmi x =? cmi y) && (cs x =? cs y)
  end.

(* the number of the day / hour / minute / second an instant (seconds since the epoch, local) lies in *)
Definition period_of (a : age) (t : Z) : Z :=
  match a with ADay => t / 86400 | AHour => t / 3600 | AMinute => t / 60 | ASecond => t end.

(* ---------- auxiliary: checking a boolean predicate on a range of Z by binary splitting ---------- *)
Fixpoint all_from (p : positive) (f : Z -> bool) (lo : Z) : bool :=
  match p with
  | xH => f lo
  | xO q => all_from q f lo && all_from q f (lo + Zpos q)
  | xI q => f lo && all_from q f (lo + 1) && all_from q f (lo + 1 + Zpos q)
  end.

Lemma all_from_spec : forall p f lo, all_from p f lo = true -> forall z, lo <= z < lo + Zpos p -> f z = true.
Proof.
  induction p as [q IH | q IH | ]; intros f lo H z Hz; cbn [all_from] in H.
  - apply andb_true_iff in H. destruct H as [H H2]. apply andb_true_iff in H. destruct H as [H0 H1].
    rewrite Pos2Z.inj_xI in Hz.
    destruct (Z.eq_dec z lo) as [-> | Hne]; [exact H0 |].
    destruct (Z_lt_ge_dec z (lo + 1 + Zpos q)).
    + apply (IH f (lo + 1) H1). lia.
    + apply (IH f (lo + 1 + Zpos q) H2). lia.
  - apply andb_true_iff in H. destruct H as [H1 H2].
    rewrite Pos2Z.inj_xO in Hz.
    destruct (Z_lt_ge_dec z (lo + Zpos q)).
    + apply (IH f lo H1). lia.
    + apply (IH f (lo + Zpos q) H2). lia.
  - assert (z = lo) by lia. subst. exact H.
Qed.

(* ---------- the round trip on one era (finite computation) ---------- *)
Definition roundtrip (z : Z) : bool :=
  let '(y, m, d) := civil_from_days z in days_from_civil y m d =? z.

Lemma roundtrip_era_check : all_from 146097%positive roundtrip (-719468) = true.
Proof. vm_cast_no_check (eq_refl true). Qed.

Lemma roundtrip_era : forall z, -719468 <= z < -719468 + 146097 -> roundtrip z = true.
Proof. intros z Hz. exact (all_from_spec _ _ _ roundtrip_era_check z Hz). Qed.

(* ---------- era shift ---------- *)
Lemma civil_from_days_shift : forall z k,
  civil_from_days (z + 146097 * k) = let '(y, m, d) := civil_from_days z in (y + 400 * k, m, d).
Proof.
  intros z k. unfold civil_from_days.
  replace (z + 146097 * k + 719468) with (z + 719468 + k * 146097) by ring.
  rewrite Z.div_add by lia.
  set (e := (z + 719468) / 146097).
  replace (z + 719468 + k * 146097 - (e + k) * 146097) with (z + 719468 - e * 146097) by ring.
  set (doe := z + 719468 - e * 146097).
  set (yoe := (doe - doe / 1460 + doe / 36524 - doe / 146096) / 365).
  set (doy := doe - (365 * yoe + yoe / 4 - yoe / 100)).
  set (mp := (5 * doy + 2) / 153).
  set (m := if mp <? 10 then mp + 3 else mp - 9).
  destruct (m <=? 2); f_equal; f_equal; ring.
Qed.

Lemma days_from_civil_shift : forall y m d k,
  days_from_civil (y + 400 * k) m d = days_from_civil y m d + 146097 * k.
Proof.
  intros y m d k. unfold days_from_civil.
  set (y' := if m <=? 2 then y - 1 else y).
  replace (if m <=? 2 then y + 400 * k - 1 else y + 400 * k) with (y' + k * 400)
    by (unfold y'; destruct (m <=? 2); ring).
  rewrite Z.div_add by lia.
  set (e := y' / 400).
  replace (y' + k * 400 - (e + k) * 400) with (y' - e * 400) by ring.
  set (yoe := y' - e * 400).
  ring.
Qed.

(* days <-> civil date is a bijection onto valid dates *)
Theorem days_civil_roundtrip : forall z, let '(y, m, d) := civil_from_days z in days_from_civil y m d = z.
Proof.
  intros z.
  set (k := (z + 719468) / 146097).
  set (z0 := z - 146097 * k).
  assert (Hz0 : -719468 <= z0 < -719468 + 146097).
  { pose proof (Z.div_mod (z + 719468) 146097 ltac:(lia)) as Hdm.
    pose proof (Z.mod_pos_bound (z + 719468) 146097 ltac:(lia)) as Hb.
    fold k in Hdm. unfold z0. lia. }
  pose proof (roundtrip_era z0 Hz0) as Hr. unfold roundtrip in Hr.
  assert (Hz : z = z0 + 146097 * k) by (unfold z0; ring).
  clearbody z0 k. rewrite Hz. clear Hz z Hz0.
  rewrite civil_from_days_shift.
  destruct (civil_from_days z0) as [[y m] d].
  rewrite days_from_civil_shift. apply Z.eqb_eq in Hr. rewrite Hr. reflexivity.
Qed.
Print Assumptions days_civil_roundtrip.

Theorem civil_from_days_inj : forall a b, civil_from_days a = civil_from_days b -> a = b.
Proof.
  intros a b H.
  pose proof (days_civil_roundtrip a) as Ha. pose proof (days_civil_roundtrip b) as Hb.
  rewrite H in Ha. destruct (civil_from_days b) as [[y m] d]. congruence.
Qed.
Print Assumptions civil_from_days_inj.

(* ---------- div/mod arithmetic on instants ---------- *)
Lemma hour_split : forall t, t / 3600 = t / 86400 * 24 + (t mod 86400) / 3600 /\ 0 <= (t mod 86400) / 3600 < 24.
Proof. intros t. Z.div_mod_to_equations. lia. Qed.

Lemma minute_split : forall t,
  t / 60 = t / 3600 * 60 + ((t mod 86400) mod 3600) / 60 /\ 0 <= ((t mod 86400) mod 3600) / 60 < 60.
Proof. intros t. Z.div_mod_to_equations. lia. Qed.

Lemma second_split : forall t, t = t / 60 * 60 + (t mod 86400) mod 60 /\ 0 <= (t mod 86400) mod 60 < 60.
Proof. intros t. Z.div_mod_to_equations. lia. Qed.

Lemma eqb_split : forall n q1 r1 q2 r2, 0 <= r1 < n -> 0 <= r2 < n ->
  (q1 * n + r1 =? q2 * n + r2) = (q1 =? q2) && (r1 =? r2).
Proof.
  intros n q1 r1 q2 r2 H1 H2. apply eq_true_iff_eq.
  rewrite andb_true_iff, !Z.eqb_eq. split; [intros H | intros [-> ->]; reflexivity].
  assert (E : (q1 * n + r1) / n = (q2 * n + r2) / n) by (rewrite H; reflexivity).
  rewrite !Z.div_add_l, !(Z.div_small _ n) in E by lia.
  assert (q1 = q2) by lia. subst q2. split; [reflexivity | lia].
Qed.

Lemma same_day_eqb : forall x y,
  (let cx := civil_of x in let cy' := civil_of y in
   (cy cx =? cy cy') && (cmo cx =? cmo cy') && (cd cx =? cd cy')) = (x / 86400 =? y / 86400).
Proof.
  intros x y. unfold civil_of.
  destruct (civil_from_days (x / 86400)) as [[y1 m1] d1] eqn:E1.
  destruct (civil_from_days (y / 86400)) as [[y2 m2] d2] eqn:E2.
  cbn [cy cmo cd]. apply eq_true_iff_eq.
  rewrite !andb_true_iff, !Z.eqb_eq. split.
  - intros [[-> ->] ->]. apply civil_from_days_inj. congruence.
  - intros H. rewrite H in E1. rewrite E1 in E2. injection E2 as -> -> ->. auto.
Qed.

Lemma civil_of_fields : forall t,
  ch (civil_of t) = (t mod 86400) / 3600 /\
  cmi (civil_of t) = ((t mod 86400) mod 3600) / 60 /\
  cs (civil_of t) = (t mod 86400) mod 60.
Proof.
  intros t. unfold civil_of. destruct (civil_from_days (t / 86400)) as [[y m] d]. cbn [ch cmi cs]. auto.
Qed.

Theorem same_period_spec : forall a x y, same_period a (civil_of x) (civil_of y) = (period_of a x =? period_of a y).
Proof.
  intros a x y.
  pose proof (same_day_eqb x y) as Hd. cbv zeta in Hd.
  destruct (civil_of_fields x) as (Hhx & Hmx & Hsx).
  destruct (civil_of_fields y) as (Hhy & Hmy & Hsy).
  destruct (hour_split x) as [Hx1 Hx1b]. destruct (hour_split y) as [Hy1 Hy1b].
  destruct (minute_split x) as [Hx2 Hx2b]. destruct (minute_split y) as [Hy2 Hy2b].
  destruct (second_split x) as [Hx3 Hx3b]. destruct (second_split y) as [Hy3 Hy3b].
  assert (HH : (x / 86400 =? y / 86400) && (ch (civil_of x) =? ch (civil_of y)) = (x / 3600 =? y / 3600)).
  { rewrite Hhx, Hhy, Hx1, Hy1. symmetry. apply eqb_split; assumption. }
  assert (HM : (x / 3600 =? y / 3600) && (cmi (civil_of x) =? cmi (civil_of y)) = (x / 60 =? y / 60)).
  { rewrite Hmx, Hmy, Hx2, Hy2. symmetry. apply eqb_split; assumption. }
  assert (HS : (x / 60 =? y / 60) && (cs (civil_of x) =? cs (civil_of y)) = (x =? y)).
  { rewrite Hsx, Hsy. rewrite Hx3 at 3. rewrite Hy3 at 3. symmetry. apply eqb_split; assumption. }
  destruct a; unfold same_period, period_of; rewrite Hd.
  - reflexivity.
  - exact HH.
  - rewrite HH. exact HM.
  - rewrite HH, HM. exact HS.
Qed.
Print Assumptions same_period_spec.

Theorem secs_civil_roundtrip : forall t, secs_of_civil (civil_of t) = t.
Proof.
  intros t. unfold secs_of_civil.
  destruct (civil_of_fields t) as (Hh & Hm & Hs). rewrite Hh, Hm, Hs.
  assert (Hd : days_from_civil (cy (civil_of t)) (cmo (civil_of t)) (cd (civil_of t)) = t / 86400).
  { unfold civil_of. pose proof (days_civil_roundtrip (t / 86400)) as H.
    destruct (civil_from_days (t / 86400)) as [[y m] d]. cbn [cy cmo cd]. exact H. }
  rewrite Hd. clear. Z.div_mod_to_equations. lia.
Qed.
Print Assumptions secs_civil_roundtrip.
