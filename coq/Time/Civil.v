(* Proleptic Gregorian calendar: days since 1970-01-01 <-> (year, month, day)  (Hinnant's algorithms, floor division on Z) *)
From Coq Require Import ZArith Bool.
Open Scope Z_scope.

Definition days_from_civil (y m d : Z) : Z :=
  let y' := if m <=? 2 then y - 1 else y in
  let era := y' / 400 in
  let yoe := y' - era * 400 in
  let mp := (m + 9) mod 12 in
  let doy := (153 * mp + 2) / 5 + d - 1 in
  let doe := yoe * 365 + yoe / 4 - yoe / 100 + doy in
  era * 146097 + doe - 719468.

Definition civil_from_days (z0 : Z) : Z * Z * Z :=
  let z := z0 + 719468 in
  let era := z / 146097 in
  let doe := z - era * 146097 in
  let yoe := (doe - doe / 1460 + doe / 36524 - doe / 146096) / 365 in
  let y := yoe + era * 400 in
  let doy := doe - (365 * yoe + yoe / 4 - yoe / 100) in
  let mp := (5 * doy + 2) / 153 in
  let d := doy - (153 * mp + 2) / 5 + 1 in
  let m := if mp <? 10 then mp + 3 else mp - 9 in
  (if m <=? 2 then y + 1 else y, m, d).

Definition is_leap (y : Z) : bool := ((y mod 4 =? 0) && negb (y mod 100 =? 0)) || (y mod 400 =? 0).
Definition days_in_month (y m : Z) : Z :=
  if m =? 2 then (if is_leap y then 29 else 28)
  else if (m =? 4) || (m =? 6) || (m =? 9) || (m =? 11) then 30 else 31.

(* broken-down local time of an instant (seconds since the epoch, already shifted by the zone offset) *)
Record civil := { cy : Z; cmo : Z; cd : Z; ch : Z; cmi : Z; cs : Z }.
Definition civil_of (t : Z) : civil :=
  let days := t / 86400 in
  let sod := t mod 86400 in
  let '(y, m, d) := civil_from_days days in
  {| cy := y; cmo := m; cd := d; ch := sod / 3600; cmi := (sod mod 3600) / 60; cs := sod mod 60 |}.
Definition secs_of_civil (c : civil) : Z :=
  days_from_civil (cy c) (cmo c) (cd c) * 86400 + ch c * 3600 + cmi c * 60 + cs c.
