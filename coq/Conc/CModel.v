(* M3/M7: set_new_spec as a sequence of atomic micro-steps; threads, schedules.  Mirrors WritersHandle::set_new_spec. *)
From Coq Require Import List Arith Lia Bool.
Import ListNotations.

(* micro-steps of one set_new_spec call *)
Inductive mstep := Acq | Upd (i : nat) | Rel | SetMax (i : nat).
Definition code_current (i : nat) : list mstep := [Acq; Upd i; Rel; SetMax i].   (* the order before the fix: the level was set after the lock had been released *)
Definition code_fixed   (i : nat) : list mstep := [Acq; Upd i; SetMax i; Rel].   (* level set while the lock is held *)

Record csys := { cspec : nat; cgate : nat; lock : option nat; pcs : list (list mstep) }.

Section M.
Variable ml : nat -> nat.     (* max_level of specification i *)
Variable W : nat.             (* max ceiling of the additional writers *)
Definition g (i : nat) := Nat.max (ml i) W.

Fixpoint cupd {A} (l : list A) (i : nat) (x : A) : list A :=
  match l, i with [], _ => [] | _ :: r, 0 => x :: r | y :: r, S k => y :: cupd r k x end.

Definition cstep (s : csys) (t : nat) : option csys :=
  match nth_error (pcs s) t with
  | Some (m :: rest) =>
    let s' := {| cspec := cspec s; cgate := cgate s; lock := lock s; pcs := cupd (pcs s) t rest |} in
    match m with
    | Acq => match lock s with None => Some {| cspec := cspec s; cgate := cgate s; lock := Some t; pcs := pcs s' |} | Some _ => None end
    | Upd i => Some {| cspec := i; cgate := cgate s; lock := lock s; pcs := pcs s' |}
    | Rel => Some {| cspec := cspec s; cgate := cgate s; lock := None; pcs := pcs s' |}
    | SetMax i => Some {| cspec := cspec s; cgate := g i; lock := lock s; pcs := pcs s' |}
    end
  | _ => None
  end.
Definition crun (s : csys) (sched : list nat) : csys :=
  fold_left (fun s t => match cstep s t with Some s' => s' | None => s end) sched s.
Definition done (s : csys) := Forall (fun p => p = []) (pcs s).
Definition done_b (s : csys) : bool := forallb (fun p => match p with [] => true | _ => false end) (pcs s).

(* each thread performs a list of calls *)
Definition prog (code : nat -> list mstep) (calls : list nat) : list mstep := flat_map code calls.
Definition cinit (code : nat -> list mstep) (s0 : nat) (threads : list (list nat)) : csys :=
  {| cspec := s0; cgate := g s0; lock := None; pcs := map (prog code) threads |}.

(* ---- the current code violates C12 ---- *)
End M.

Example C12_race_refuted :
  let ml := fun i => i in
  let s := crun ml 0 (cinit ml 0 code_current 0 [[1]; [5]]) [0;0;0; 1;1;1;1; 0] in
  done s /\ cspec s = 5 /\ cgate s = 1 /\ cgate s < ml (cspec s).
Proof. vm_compute. repeat split; repeat constructor. Qed.

(* ---- with the fix, for any number of threads, calls and any schedule ---- *)
Section Fixed.
Variable ml : nat -> nat.
Variable W : nat.
Notation g := (g ml W).

(* a thread's remaining code is a suffix of whole calls, possibly preceded by the rest of a call in progress *)
Inductive tstate (ids : list nat) : nat -> csys -> list mstep -> Prop :=
| ts_idle t s calls : lock s <> Some t -> incl calls ids -> tstate ids t s (prog code_fixed calls)
| ts_upd t s i calls : lock s = Some t -> In i ids -> incl calls ids -> cgate s = g (cspec s) ->
    tstate ids t s (Upd i :: SetMax i :: Rel :: prog code_fixed calls)
| ts_set t s i calls : lock s = Some t -> cspec s = i -> In i ids -> incl calls ids ->
    tstate ids t s (SetMax i :: Rel :: prog code_fixed calls)
| ts_rel t s calls : lock s = Some t -> incl calls ids -> cgate s = g (cspec s) ->
    tstate ids t s (Rel :: prog code_fixed calls).

Definition Inv (ids : list nat) (s : csys) : Prop :=
  In (cspec s) ids /\
  (forall t p, nth_error (pcs s) t = Some p -> tstate ids t s p) /\
  (lock s = None -> cgate s = g (cspec s)) /\
  (forall t, lock s = Some t -> t < length (pcs s)).
End Fixed.

(* ---- replay of an observed crun: the schedule points "updated" and "done" of a call, in the order in which the
   implementation passed them, stand for these micro-steps ---- *)
Inductive cevent := EvEnter (t : nat) | EvUpdated (t : nat) | EvDone (t : nat).
Definition micro_of (fixed : bool) (e : cevent) : list nat :=
  match e with
  | EvEnter _ => []
  | EvUpdated t => if fixed then [t; t] else [t; t; t]       (* Acq, Upd [, Rel] *)
  | EvDone t => if fixed then [t; t] else [t]                (* SetMax [, Rel] *)
  end.
Definition schedule_of (fixed : bool) (evs : list cevent) : list nat := flat_map (micro_of fixed) evs.
