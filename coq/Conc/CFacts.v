From Coq Require Import List Arith Lia Bool.
Import ListNotations.
Require Import FL.Conc.CModel.

Lemma nth_upd_eq {A} (l : list A) t x : t < length l -> nth_error (cupd l t x) t = Some x.
Proof. revert t; induction l; intros [|t] H; simpl in *; try lia; auto. apply IHl; lia. Qed.
Lemma nth_upd_ne {A} (l : list A) t t' x : t <> t' -> nth_error (cupd l t x) t' = nth_error l t'.
Proof. revert t t'; induction l; intros [|t] [|t'] H; simpl; auto; try congruence. Qed.
Lemma upd_len {A} (l : list A) t x : length (cupd l t x) = length l.
Proof. revert t; induction l; intros [|t]; simpl; auto. Qed.

Section P.
Variable ml : nat -> nat.
Variable W : nat.
Variable ids : list nat.
Notation g := (g ml W).
Notation Inv := (Inv ml W ids).
Notation tstate := (tstate ml W ids).

Lemma prog_cons i calls : prog code_fixed (i :: calls) = Acq :: Upd i :: SetMax i :: Rel :: prog code_fixed calls.
Proof. reflexivity. Qed.

(* a thread that does not hold the lock is idle *)
Lemma not_holder_idle t s p : tstate t s p -> lock s <> Some t -> exists calls, p = prog code_fixed calls /\ incl calls ids.
Proof. intros H N. destruct H as [t s calls Hn Hc | t s i c Hl Hi Hc Hg | t s i c Hl Hs Hi Hc | t s c Hl Hc Hg]; try congruence. eauto. Qed.

Lemma prog_head calls m rest : prog code_fixed calls = m :: rest ->
  m = Acq /\ exists i c, calls = i :: c /\ rest = Upd i :: SetMax i :: Rel :: prog code_fixed c.
Proof. destruct calls as [|i c]; [discriminate|]. rewrite prog_cons. intros E; inversion E. eauto. Qed.

Lemma inv_acq t s rest : tstate t s (Acq :: rest) ->
  lock s <> Some t /\ exists i c, rest = Upd i :: SetMax i :: Rel :: prog code_fixed c /\ In i ids /\ incl c ids.
Proof. intros H. remember (Acq :: rest) as p eqn:Ep.
  destruct H as [t s calls Hn Hc | t s i c Hl Hi Hc Hg | t s i c Hl Hs Hi Hc | t s c Hl Hc Hg]; try discriminate.
  apply prog_head in Ep. destruct Ep as [_ [i [c [-> ->]]]]. split; [exact Hn|]. exists i, c.
  split; [reflexivity|]. split; [apply Hc; left; reflexivity | intros x Hx; apply Hc; right; exact Hx]. Qed.
Lemma inv_upd t s i rest : tstate t s (Upd i :: rest) ->
  lock s = Some t /\ In i ids /\ cgate s = g (cspec s) /\ exists c, rest = SetMax i :: Rel :: prog code_fixed c /\ incl c ids.
Proof. intros H. remember (Upd i :: rest) as p eqn:Ep.
  destruct H as [t s calls Hn Hc | t s i0 c Hl Hi Hc Hg | t s i0 c Hl Hs Hi Hc | t s c Hl Hc Hg]; try discriminate.
  - apply prog_head in Ep. destruct Ep as [E _]; discriminate.
  - inversion Ep; subst. repeat split; auto. eauto. Qed.
Lemma inv_set t s i rest : tstate t s (SetMax i :: rest) ->
  lock s = Some t /\ cspec s = i /\ In i ids /\ exists c, rest = Rel :: prog code_fixed c /\ incl c ids.
Proof. intros H. remember (SetMax i :: rest) as p eqn:Ep.
  destruct H as [t s calls Hn Hc | t s i0 c Hl Hi Hc Hg | t s i0 c Hl Hs Hi Hc | t s c Hl Hc Hg]; try discriminate.
  - apply prog_head in Ep. destruct Ep as [E _]; discriminate.
  - inversion Ep; subst. repeat split; auto. eauto. Qed.
Lemma inv_rel t s rest : tstate t s (Rel :: rest) ->
  lock s = Some t /\ cgate s = g (cspec s) /\ exists c, rest = prog code_fixed c /\ incl c ids.
Proof. intros H. remember (Rel :: rest) as p eqn:Ep.
  destruct H as [t s calls Hn Hc | t s i0 c Hl Hi Hc Hg | t s i0 c Hl Hs Hi Hc | t s c Hl Hc Hg]; try discriminate.
  - apply prog_head in Ep. destruct Ep as [E _]; discriminate.
  - inversion Ep; subst. repeat split; auto. eauto. Qed.

Lemma step_inv s t s' : Inv s -> cstep ml W s t = Some s' -> Inv s'.
Proof.
  intros [Hspec [Hts [Hg Hl]]] St. unfold cstep in St.
  destruct (nth_error (pcs s) t) as [[|m rest]|] eqn:Et; try discriminate.
  assert (Lt : t < length (pcs s)) by (apply nth_error_Some; congruence).
  pose proof (Hts t _ Et) as Tt.
  assert (Others : forall t' p, t' <> t -> nth_error (pcs s) t' = Some p -> lock s = None \/ lock s = Some t ->
            exists calls, p = prog code_fixed calls /\ incl calls ids).
  { intros t' p Ne E Hk. apply (not_holder_idle t' s p (Hts t' p E)). destruct Hk as [-> | ->]; congruence. }
  destruct m as [|i| |i].
  - destruct (lock s) eqn:El; [discriminate|]. inversion St; subst s'; clear St. unfold CModel.Inv; cbn [cspec cgate lock pcs].
    apply inv_acq in Tt. destruct Tt as [_ [i [c [-> [Hi Hc]]]]].
    split; [exact Hspec|]. split; [|split; [discriminate | intros t0 E0; inversion E0; subst; rewrite upd_len; exact Lt]].
    intros t' p E. destruct (Nat.eq_dec t' t) as [->|Ne].
    + rewrite nth_upd_eq in E by exact Lt. inversion E; subst p. apply ts_upd; cbn [cspec cgate lock pcs]; auto.
    + rewrite nth_upd_ne in E by congruence. destruct (Others t' p Ne E (or_introl eq_refl)) as [c' [-> Hc']].
      apply ts_idle; cbn [cspec cgate lock pcs]; [congruence | exact Hc'].
  - inversion St; subst s'; clear St. unfold CModel.Inv; cbn [cspec cgate lock pcs].
    apply inv_upd in Tt. destruct Tt as [Hlk [Hi [Hgs [c [-> Hc]]]]].
    split; [exact Hi|]. split; [|split; [intros E; congruence | intros t0 E0; rewrite upd_len; apply Hl; exact E0]].
    intros t' p E. destruct (Nat.eq_dec t' t) as [->|Ne].
    + rewrite nth_upd_eq in E by exact Lt. inversion E; subst p. apply ts_set; cbn [cspec cgate lock pcs]; auto.
    + rewrite nth_upd_ne in E by congruence. destruct (Others t' p Ne E (or_intror Hlk)) as [c' [-> Hc']].
      apply ts_idle; cbn [cspec cgate lock pcs]; [congruence | exact Hc'].
  - inversion St; subst s'; clear St. unfold CModel.Inv; cbn [cspec cgate lock pcs].
    apply inv_rel in Tt. destruct Tt as [Hlk [Hgs [c [-> Hc]]]].
    split; [exact Hspec|]. split; [|split; [intros _; exact Hgs | discriminate]].
    intros t' p E. destruct (Nat.eq_dec t' t) as [->|Ne].
    + rewrite nth_upd_eq in E by exact Lt. inversion E; subst p. apply ts_idle; cbn [cspec cgate lock pcs]; [discriminate | exact Hc].
    + rewrite nth_upd_ne in E by congruence. destruct (Others t' p Ne E (or_intror Hlk)) as [c' [-> Hc']].
      apply ts_idle; cbn [cspec cgate lock pcs]; [discriminate | exact Hc'].
  - inversion St; subst s'; clear St. unfold CModel.Inv; cbn [cspec cgate lock pcs].
    apply inv_set in Tt. destruct Tt as [Hlk [Hsp [Hi [c [-> Hc]]]]].
    split; [exact Hspec|]. split; [|split; [intros E; congruence | intros t0 E0; rewrite upd_len; apply Hl; exact E0]].
    intros t' p E. destruct (Nat.eq_dec t' t) as [->|Ne].
    + rewrite nth_upd_eq in E by exact Lt. inversion E; subst p. apply ts_rel; cbn [cspec cgate lock pcs]; auto; try (rewrite Hsp; reflexivity).
    + rewrite nth_upd_ne in E by congruence. destruct (Others t' p Ne E (or_intror Hlk)) as [c' [-> Hc']].
      apply ts_idle; cbn [cspec cgate lock pcs]; [congruence | exact Hc'].
Qed.

Lemma run_inv sched : forall s, Inv s -> Inv (crun ml W s sched).
Proof. induction sched as [|t r IH]; intros s I; simpl; auto. apply IH.
  destruct (cstep ml W s t) eqn:E; [eapply step_inv; eauto | exact I]. Qed.

Lemma init_inv s0 threads : In s0 ids -> Forall (fun c => incl c ids) threads -> Inv (cinit ml W code_fixed s0 threads).
Proof. intros H0 Hall. unfold cinit. split; [exact H0|]. split; [|split; [reflexivity | discriminate]].
  intros t p E. cbn in E. rewrite nth_error_map in E. destruct (nth_error threads t) eqn:Et; [|discriminate].
  inversion E; subst p. apply ts_idle; cbn; [discriminate|]. rewrite Forall_forall in Hall. apply Hall. eapply nth_error_In; eauto. Qed.

(* C12 (model with the lock held across both updates): any number of threads and calls, any schedule *)
Theorem C12_consistent s0 threads sched :
  In s0 ids -> Forall (fun c => incl c ids) threads ->
  let s := crun ml W (cinit ml W code_fixed s0 threads) sched in
  done s -> In (cspec s) ids /\ cgate s = g (cspec s) /\ ml (cspec s) <= cgate s.
Proof.
  intros H0 Hall s D. pose proof (run_inv sched _ (init_inv s0 threads H0 Hall)) as [Hs [Hts [Hg Hl]]]. fold s in Hs, Hts, Hg, Hl.
  assert (L : lock s = None).
  { destruct (lock s) as [t|] eqn:El; [|reflexivity]. exfalso.
    pose proof (Hl t eq_refl) as Lt. destruct (nth_error (pcs s) t) as [p|] eqn:E; [|apply nth_error_None in E; lia].
    unfold done in D. rewrite Forall_forall in D. pose proof (D p (nth_error_In _ _ E)) as ->.
    pose proof (Hts t [] E) as T. remember [] as p eqn:Ep.
    destruct T as [t1 s1 calls Hn Hc | t1 s1 i c Hl1 Hi Hc Hg1 | t1 s1 i c Hl1 Hs1 Hi Hc | t1 s1 c Hl1 Hc Hg1]; try discriminate. congruence. }
  split; [exact Hs|]. rewrite (Hg L). split; [reflexivity|]. unfold CModel.g. lia.
Qed.
End P.
