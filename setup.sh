#!/bin/sh
# Builds the whole framework from files on disk only (offline): Coq development (full .vo), extracted model +
# OCaml driver, Rust harness against /repo with the hooks on.
set -e
cd "$(dirname "$0")"
export CARGO_NET_OFFLINE=true
( cd coq && coq_makefile -f _CoqProject -o Makefile >/dev/null && timeout 3000 make -j16 )
( cd ocaml && ./build.sh )
cp /repo/Cargo.lock harness/Cargo.lock
( cd harness && cargo build --release --offline )
echo "setup done"
