(* Case lines of kind "flw" -> model run -> observation lines. *)
open Model
open Codec

let age_of_char = function 'd' -> ADay | 'h' -> AHour | 'm' -> AMinute | 's' -> ASecond | _ -> failwith "age"

let config_of_string (s : string) : config =
  match split_on ',' s with
  | base :: disc :: ts :: sfx :: app :: cap :: crit :: naming :: cleanup :: utc :: link :: bg :: _ ->
    let rot =
      if crit = "~" then None else
      let c = match crit.[0] with
        | 's' -> CSize (n_of_int (int_of_string (String.sub crit 1 (String.length crit - 1))))
        | 'a' -> CAge (age_of_char crit.[1])
        | 'x' -> CAgeOrSize (age_of_char crit.[1], n_of_int (int_of_string (String.sub crit 2 (String.length crit - 2))))
        | _ -> failwith "crit" in
      let nm = match naming with
        | "ts" -> NTimestamps | "tsd" -> NTimestampsDirect | "num" -> NNumbers | "numd" -> NNumbersDirect
        | _ -> (match split_on '.' naming with
                | ["cu"; cur; fmt] -> NCustom (opt_hex cur, tsfmt_of_string (string_of_bytes (bytes_of_hex fmt)))
                | _ -> failwith "naming") in
      let k = match cleanup.[0] with
        | 'n' -> KNever
        | 'l' -> KLog (nat_of_int (int_of_string (String.sub cleanup 1 (String.length cleanup - 1))))
        | 'g' -> KGz (nat_of_int (int_of_string (String.sub cleanup 1 (String.length cleanup - 1))))
        | 'b' -> (match split_on '.' (String.sub cleanup 1 (String.length cleanup - 1)) with
                  | [a; b] -> KLogGz (nat_of_int (int_of_string a), nat_of_int (int_of_string b))
                  | _ -> failwith "cleanup")
        | _ -> failwith "cleanup" in
      Some ((c, nm), k) in
    { c_spec = { fbase = bytes_of_hex base; fdisc = opt_hex disc; fts = (ts = "1" || ((ts = "d" || ts = "D") && rot = None)); fsfx = opt_hex sfx };
      c_append = (app = "1");
      c_cap = (if cap = "~" || cap.[0] = 'a' then None else Some (nat_of_int (int_of_string cap)));
      c_async = (cap <> "~" && cap.[0] = 'a'); c_start = None;
      c_rot = rot; c_utc = (utc = "1"); c_symlink = (link = "1"); c_bg = (bg = "1") }
  | _ -> failwith ("config: " ^ s)

let selector_of_string (s : string) : selector =
  match split_on ':' s with
  | [flags; custom] ->
    { sel_plain = flags.[0] = '1'; sel_gz = flags.[1] = '1'; sel_rcur = flags.[2] = '1'; sel_custom = opt_hex custom }
  | _ -> failwith "selector"

let op_of_string (s : string) : op =
  let parts = split_on ':' s in
  match parts with
  | ["W"; h] -> OWrite (bytes_of_hex h)
  | ["P"; h] -> OPlain (bytes_of_hex h)
  | ["F"] -> OFlush
  | ["T"] -> OTrigger
  | ["R"] -> OReopen
  | ["X"; c] -> OReset (config_of_string c)
  | ["H"] -> OShutdown
  | ["S"] -> OStop
  | ["B"; c] -> OStart (config_of_string c)
  | ["K"; dt] -> OTick (z_of_int (int_of_string dt))
  | ["XR"; a; b] -> OExtRename (bytes_of_hex a, bytes_of_hex b)
  | ["XD"; a] -> OExtRemove (bytes_of_hex a)
  | ["XC"; a; k; d] -> OExtCreate (bytes_of_hex a, n_of_int (int_of_string k), bytes_of_hex d)
  | ["XM"; a] -> OExtMkdir (bytes_of_hex a)
  (* a symbolic link to a directory that lies outside the log directory: is_file() and metadata() follow links, so for
     everything the logger may do with it, and for the snapshot, it is a sub-directory *)
  | ["XL"; a] -> OExtMkdir (bytes_of_hex a)
  | ["Q"; f; c] -> OQuery (selector_of_string (f ^ ":" ^ c))
  | ["FA"; bits] -> OSetFaults (List.init (String.length bits) (fun i -> bits.[i] = '1'))
  | ["KI"; k] -> OSetKill (nat_of_int (int_of_string k))
  | ["CR"] -> OCrash
  | ["SN"] -> OSnap
  | _ -> failwith ("op: " ^ s)

let rec compare_bytes (a : bytes) (b : bytes) : int =
  match a, b with
  | [], [] -> 0 | [], _ -> -1 | _, [] -> 1
  | x :: a', y :: b' -> let c = compare (int_of_n x) (int_of_n y) in if c <> 0 then c else compare_bytes a' b'

let ecode_name = function
  | EWrite -> "Write" | EFlush -> "Flush" | EFormat -> "Format" | ELogFile -> "LogFile"
  | ESymlink -> "Symlink" | EPoison -> "Poison" | EWriterSpec -> "WriterSpec"

(* returns (observable text, ghost text) *)
let string_of_obs (o : obs) : string * string =
  match o with
  | ObsRes (c, rot) -> (Printf.sprintf "r%d" (int_of_n c), if rot then "+" else ".")
  | ObsList (c, l) -> (Printf.sprintf "l%d[%s]" (int_of_n c) (String.concat "," (List.map hex_of_bytes l)), ".")
  | ObsSnap (files, link, errs) ->
    (Printf.sprintf "s{%s}link=%s;errs=%s"
       (String.concat "," (List.map (fun ((nm, k), d) ->
            let k = int_of_n k in
            Printf.sprintf "%s=%d:%s" (hex_of_bytes nm) k (if k = 2 || k = 3 then "-" else hex_of_bytes d)) files))
       (hex_opt link)
       (String.concat "," (List.map ecode_name errs)), ".")

(* "<id> flw <t0> <off> ; op op ..." *)
(* kind "flwl": the same history through Logger / LoggerHandle: flush() returns nothing (an error is reported, not
   returned), existing_log_files sorts its result *)
let via_logger = ref false
let run_case (toks : string list) : string =
  let rec drop_ann = function ";" :: r -> ";" :: r | _ :: r -> drop_ann r | [] -> [] in
  match (match toks with t0 :: off :: r -> t0 :: off :: drop_ann r | l -> l) with
  | t0 :: off :: ";" :: ops ->
    let ops = List.map op_of_string (List.filter (fun s -> s <> "") ops) in
    (* step by step: once the (modelled) process is dead - its kill point is used up - nothing can be observed
       any more until the crash is acknowledged (CR) *)
    let x = ref (sys0 (z_of_int (int_of_string t0)) (z_of_int (int_of_string off))) in
    let l = List.map (fun o ->
        let (x', ob) = step !x o in
        x := x';
        let ob = if not !via_logger then ob else
            (match o, ob with
             | OFlush, ObsRes (c, rot) when int_of_n c = 1 -> ObsRes (n_of_int 0, rot)
             | OQuery _, ObsList (c, l) -> ObsList (c, List.sort compare_bytes l)
             | _ -> ob) in
        match o with
        | OCrash -> string_of_obs ob
        | _ -> if alive (!x).s_w then string_of_obs ob else ("x", "x")) ops in
    String.concat " " (List.map fst l) ^ " # " ^ String.concat "" (List.map snd l)
  | _ -> failwith "flw case"

(* "<hex path>": try_from takes stem and extension of the last component; they re-assemble to the name
   (C16_stem_ext_roundtrip), so the derived spec denotes the path and a writer built from it writes there *)
let run_tryfrom (toks : string list) : string =
  match toks with
  | [h] ->
    let path = bytes_of_hex h in
    let rec last_comp acc = function
      | [] -> List.rev acc
      | c :: r -> if int_of_n c = 47 then last_comp [] r else last_comp (c :: acc) r in
    let name = last_comp [] path in
    let back = file_stem name @ (match extension name with Some e -> n_of_int 46 :: e | None -> []) in
    Printf.sprintf "p0 rt%d b1 w1 # ." (if back = name then 1 else 0)
  | _ -> failwith "tryfrom case"
