(* Conversions between text tokens and the extracted Coq datatypes.  Hand-written, trusted. *)
open Model

let rec pos_of_int (i : int) : positive =
  if i = 1 then XH else if i land 1 = 0 then XO (pos_of_int (i lsr 1)) else XI (pos_of_int (i lsr 1))
let n_of_int (i : int) : n = if i = 0 then N0 else Npos (pos_of_int i)
let z_of_int (i : int) : z = if i = 0 then Z0 else if i > 0 then Zpos (pos_of_int i) else Zneg (pos_of_int (- i))
let rec int_of_pos (p : positive) : int =
  match p with XH -> 1 | XO q -> 2 * int_of_pos q | XI q -> 2 * int_of_pos q + 1
let int_of_n (x : n) : int = match x with N0 -> 0 | Npos p -> int_of_pos p
let int_of_z (x : z) : int = match x with Z0 -> 0 | Zpos p -> int_of_pos p | Zneg p -> - (int_of_pos p)
let rec nat_of_int (i : int) : nat = if i <= 0 then O else S (nat_of_int (i - 1))
let rec int_of_nat (x : nat) : int = let rec go acc = function O -> acc | S y -> go (acc + 1) y in go 0 x

let hexdigit c = match c with
  | '0' .. '9' -> Char.code c - 48 | 'a' .. 'f' -> Char.code c - 87 | 'A' .. 'F' -> Char.code c - 55
  | _ -> failwith "hex"
(* "-" is the empty string *)
let bytes_of_hex (s : string) : bytes =
  if s = "-" then [] else
  let l = String.length s / 2 in
  List.init l (fun i -> n_of_int (hexdigit s.[2*i] * 16 + hexdigit s.[2*i+1]))
let hex_of_bytes (b : bytes) : string =
  if b = [] then "-" else
  String.concat "" (List.map (fun x -> Printf.sprintf "%02x" (int_of_n x)) b)
let bytes_of_string (s : string) : bytes = List.init (String.length s) (fun i -> n_of_int (Char.code s.[i]))

(* optional hex: "~" is None *)
let opt_hex (s : string) : bytes option = if s = "~" then None else Some (bytes_of_hex s)
let hex_opt (o : bytes option) : string = match o with None -> "~" | Some b -> hex_of_bytes b

let split_on c s = String.split_on_char c s

(* strftime subset -> tsfmt *)
let tsfmt_of_string (s : string) : tsfmt =
  let n = String.length s in
  let rec go i acc =
    if i >= n then List.rev acc
    else if s.[i] = '%' && i + 1 < n then
      let it = match s.[i+1] with
        | 'Y' -> TY | 'm' -> Tmo | 'd' -> Td | 'H' -> TH | 'M' -> TMi | 'S' -> TS
        | _ -> failwith "unsupported strftime item" in
      go (i + 2) (it :: acc)
    else go (i + 1) (TLit (n_of_int (Char.code s.[i])) :: acc) in
  go 0 []
let string_of_bytes (b : bytes) : string = String.init (List.length b) (fun i -> Char.chr (int_of_n (List.nth b i)))

(* UTF-8 <-> Unicode scalar values (the LogSpec layer works on chars) *)
let ustr_of_hex (h : string) : n list =
  let b = if h = "-" then [||] else Array.init (String.length h / 2) (fun i -> hexdigit h.[2*i] * 16 + hexdigit h.[2*i+1]) in
  let n = Array.length b in
  let rec go i acc =
    if i >= n then List.rev acc else
    let c = b.(i) in
    if c < 0x80 then go (i + 1) (n_of_int c :: acc)
    else if c < 0xE0 then go (i + 2) (n_of_int (((c land 0x1F) lsl 6) lor (b.(i+1) land 0x3F)) :: acc)
    else if c < 0xF0 then go (i + 3) (n_of_int (((c land 0x0F) lsl 12) lor ((b.(i+1) land 0x3F) lsl 6) lor (b.(i+2) land 0x3F)) :: acc)
    else go (i + 4) (n_of_int (((c land 0x07) lsl 18) lor ((b.(i+1) land 0x3F) lsl 12) lor ((b.(i+2) land 0x3F) lsl 6) lor (b.(i+3) land 0x3F)) :: acc) in
  go 0 []
let hex_of_ustr (s : n list) : string =
  if s = [] then "-" else
  let buf = Buffer.create 16 in
  List.iter (fun x ->
      let c = int_of_n x in
      let add v = Buffer.add_string buf (Printf.sprintf "%02x" v) in
      if c < 0x80 then add c
      else if c < 0x800 then (add (0xC0 lor (c lsr 6)); add (0x80 lor (c land 0x3F)))
      else if c < 0x10000 then (add (0xE0 lor (c lsr 12)); add (0x80 lor ((c lsr 6) land 0x3F)); add (0x80 lor (c land 0x3F)))
      else (add (0xF0 lor (c lsr 18)); add (0x80 lor ((c lsr 12) land 0x3F)); add (0x80 lor ((c lsr 6) land 0x3F)); add (0x80 lor (c land 0x3F)))) s;
  Buffer.contents buf
let opt_ustr (s : string) : n list option = if s = "~" then None else Some (ustr_of_hex s)
