(* Case kinds "fmt" and "frame" -> model -> observation lines. *)
open Model
open Codec

let n_of_string (s : string) : n = dec_value (bytes_of_string s)
let string_of_n (x : n) : string = string_of_bytes (dec x)

let kind_of = function
  | "d" -> FDefault | "o" -> FOpt | "t" -> FDetailed | "w" -> FWithThread | "j" -> FJson | _ -> failwith "fmt kind"

(* "<secs> <off> <micros> <kind> <colored> <level> <module|~> <file|~> <line|~> <thread|~> <msg>" *)
let run_fmt (toks : string list) : string =
  match toks with
  | [secs; off; micros; kind; colored; level; md; file; line; thread; msg; kv] ->
    let kvs = if kv = "~" then [] else
        List.map (fun t -> match split_on '=' t with
            | [k; v] when String.length v > 0 && v.[0] = 'i' -> (bytes_of_hex k, KInt (n_of_string (String.sub v 1 (String.length v - 1))))
            | [k; v] when String.length v > 0 && v.[0] = 's' -> (bytes_of_hex k, KStr (bytes_of_hex (String.sub v 1 (String.length v - 1))))
            | _ -> failwith "kv") (split_on ';' kv) in
    let r = { fr_level = nat_of_int (int_of_string level); fr_module = opt_hex md; fr_file = opt_hex file;
              fr_line = (if line = "~" then None else Some (n_of_int (int_of_string line)));
              fr_thread = opt_hex thread; fr_kv = kvs; fr_msg = bytes_of_hex msg } in
    let ts = ts_text (z_of_int (int_of_string secs)) (n_of_int (int_of_string micros)) (z_of_int (int_of_string off)) in
    let out = format_record (kind_of kind) (colored = "1") ts r in
    let base = hex_of_bytes out in
    if kind = "j" then
      let o = function None -> "~" | Some b -> hex_of_bytes b in
      Printf.sprintf "%s dec[level=%s;thread=%s;module_path=%s;file=%s;line=%s;text=%s;kv=%s]" base
        (hex_of_bytes (bytes_of_string (match int_of_nat r.fr_level with 1 -> "ERROR" | 2 -> "WARN" | 3 -> "INFO" | 4 -> "DEBUG" | _ -> "TRACE")))
        (o r.fr_thread) (o r.fr_module) (o r.fr_file)
        (match r.fr_line with None -> "~" | Some n -> string_of_int (int_of_n n)) (hex_of_bytes r.fr_msg)
        (* what the kv object decodes to: the map sorted by key, values as number or string *)
        (match kv_map r.fr_kv with
         | [] -> "~"
         | m -> String.concat "," (List.map (fun (k, v) -> hex_of_bytes k ^ ":" ^
                                                (match v with KInt n -> "i" ^ string_of_n n | KStr b -> "s" ^ hex_of_bytes b)) m))
    else base
  | _ -> failwith "fmt case"

(* "<secs> <off> <kind> <crlf> <tick> <mode> ; R:<level>:<msg>[:<level>:<msg>]* ..." *)
let run_frame (toks : string list) : string =
  match toks with
  | secs :: off :: kind :: crlf :: _tick :: _mode :: ";" :: recs ->
    let ts = ts_text (z_of_int (int_of_string secs)) N0 (z_of_int (int_of_string off)) in
    let mk level msg md file line =
      { fr_level = nat_of_int (int_of_string level); fr_module = Some (bytes_of_string md); fr_file = Some (bytes_of_string file);
        fr_line = Some (n_of_int line); fr_thread = None; fr_kv = []; fr_msg = bytes_of_hex msg } in
    let trees = List.map (fun tok ->
        match split_on ':' tok with
        | "R" :: level :: msg :: rest ->
          let rec inner = function
            | l :: m :: r -> RNode (mk l m "inner" "in.rs" 7, []) :: inner r
            | _ -> [] in
          RNode (mk level msg "outer::m" "src/x.rs" 42, inner rest)
        | _ -> failwith "frame record") (List.filter (fun s -> s <> "") recs) in
    let k = kind_of kind in
    let lf = [n_of_int 10] and crlf_e = [n_of_int 13; n_of_int 10] in
    let ending = if crlf = "1" then crlf_e else lf in
    (* outputs in the order in which they are served: additional writer W, stderr duplicate, main file *)
    let evs = List.concat_map (fun t -> log_events (nat_of_int 3) k ts t) trees in
    Printf.sprintf "%s main=%s w=%s err=%s" (String.concat "," (List.map (fun _ -> "r0") trees))
      (hex_of_bytes (output_of (nat_of_int 2) ending evs)) (hex_of_bytes (output_of (nat_of_int 0) ending evs))
      (hex_of_bytes (output_of (nat_of_int 1) lf evs))
  | _ -> failwith "frame case"

(* ---- kind "lh": a built Logger and its handles, translated to the file-writer model ---- *)
let lh_config (mode : string) (rot : string) (naming : string) : config =
  let cap = match mode.[0] with
    | 'b' | 'f' -> Some (nat_of_int (int_of_string (String.sub mode 1 (String.length mode - 1))))
    | _ -> None in
  let nm = match naming with "num" -> NNumbers | "numd" -> NNumbersDirect | "ts" -> NTimestamps | "tsd" -> NTimestampsDirect | _ -> failwith "naming" in
  { c_spec = { fbase = bytes_of_string "a"; fdisc = None; fts = false; fsfx = Some (bytes_of_string "log") };
    c_append = false; c_cap = cap;
    c_rot = (if rot = "~" then None else Some ((CSize (n_of_int (int_of_string (String.sub rot 1 (String.length rot - 1)))), nm), KNever));
    c_utc = false; c_symlink = false; c_bg = false; c_async = (mode.[0] = 'a' || mode.[0] = 'A'); c_start = None }

(* "<out> <mode> <rot> <naming> ; ops" *)
let run_lh (toks : string list) : string =
  match toks with
  | out :: mode :: rot :: naming :: ";" :: ops ->
    let cfg = lh_config mode rot naming in
    let alive = ref [true] in
    let logged = Buffer.create 64 in
    let x = ref (fst (step (sys0 (z_of_int 1709251198) Z0) (OStart cfg))) in
    let do_op o = let (x', ob) = step !x o in x := x'; ob in
    let res = List.map (fun tok ->
        match split_on ':' tok with
        | ["L"; h] ->
          let b = bytes_of_hex h @ [n_of_int 10] in
          Buffer.add_string logged (hex_of_bytes b);
          ignore (do_op (OWrite b)); "r0"
        | ["F"] -> ignore (do_op OFlush); "r0"
        | ["H"] -> ignore (do_op OShutdown); "r0"
        | ["C"] -> alive := !alive @ [true]; "r0"
        | ["D"; i] ->
          let i = int_of_string i in
          if i < List.length !alive && List.nth !alive i then begin
            alive := List.mapi (fun j a -> if j = i then false else a) !alive;
            (* only the handle that is dropped last shuts the writers down *)
            if not (List.exists (fun a -> a) !alive) then ignore (do_op OShutdown)
          end;
          "r0"
        | ["SN"] ->
          if out = "file" then fst (Flw_driver.string_of_obs (do_op OSnap))
          else "o=" ^ (let s = Buffer.contents logged in if s = "" then "-" else String.concat "" (List.filter (fun x -> x <> "-") [s]))
        | _ -> failwith ("lh op " ^ tok)) (List.filter (fun s -> s <> "") ops) in
    String.concat " " res
  | _ -> failwith "lh case"
