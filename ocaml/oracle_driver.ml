(* Oracle mode: "<id> <kind> <case...> @@ <observation of the implementation>"  ->  "<id> pass|fail|skip ..." *)
open Model
open Codec

(* "s{name=k:data,...}link=..;errs=.." -> (name, kind, data) list *)
let parse_snapshot (s : string) : ((bytes * n) * bytes) list =
  let i = String.index s '{' and j = String.index s '}' in
  let inner = String.sub s (i + 1) (j - i - 1) in
  if inner = "" then [] else
  List.map (fun e ->
      match split_on '=' e with
      | [nm; v] -> (match split_on ':' v with
                    | [k; d] -> ((bytes_of_hex nm, n_of_int (int_of_string k)), bytes_of_hex d)
                    | _ -> failwith "snapshot entry")
      | _ -> failwith "snapshot entry") (split_on ',' inner)

let last_snapshot (obs : string list) : ((bytes * n) * bytes) list option =
  List.fold_left (fun acc o -> if String.length o > 1 && o.[0] = 's' && o.[1] = '{' then Some (parse_snapshot o) else acc) None obs

(* without_shadowed_archives: defined in Coq (Oracles/O_Stream.v) *)

let annotations (pre : string list) : (string * string) list =
  List.filter_map (fun t -> match String.index_opt t '=' with
      | Some i -> Some (String.sub t 0 i, String.sub t (i + 1) (String.length t - i - 1))
      | None -> None) pre

let rec split_at_semicolon acc = function
  | ";" :: rest -> (List.rev acc, rest)
  | x :: rest -> split_at_semicolon (x :: acc) rest
  | [] -> (List.rev acc, [])

let size_limit (c : config) : n option =
  match c.c_rot with
  | Some ((CSize n, _), _) -> Some n
  | Some ((CAgeOrSize (_, n), _), _) -> Some n
  | _ -> None

(* items of a history that consists of one run: B, then writes / triggers / flushes / ticks, then S *)
let items_of (ops : op list) : (config * item list) option =
  match ops with
  | OStart c :: rest ->
    let rec go started acc = function
      | [] -> Some (List.rev acc)
      | (OWrite b | OPlain b) :: r -> go true (IRec b :: acc) r
      | OTrigger :: r -> go started (if started then ITrig :: acc else acc) r
      (* reopen_output with the file in place changes neither the stream nor the size accounting *)
      | (OFlush | OTick _ | OSnap | OStop | OShutdown | OReopen) :: r -> go started acc r
      | _ -> None in
    (match go false [] rest with Some l -> Some (c, l) | None -> None)
  | _ -> None

(* items with the instants of the clock: B t0, K:dt advances *)
let titems_of (t0 : int) (ops : op list) : (config * titem list) option =
  match ops with
  | OStart c :: rest ->
    let rec go t started acc = function
      | [] -> Some (List.rev acc)
      | (OWrite b | OPlain b) :: r -> go t true (TRec (z_of_int t, b) :: acc) r
      | OTrigger :: r -> go t started (if started then TTrig (z_of_int t) :: acc else acc) r
      | OTick dt :: r -> go (t + int_of_z dt) started acc r
      | (OFlush | OSnap | OStop | OShutdown | OReopen) :: r -> go t started acc r
      | _ -> None in
    (match go t0 false [] rest with Some l -> Some (c, l) | None -> None)
  | _ -> None

let ts_format_of (c : config) : (tsfmt * bool) option =   (* format, and whether the current file is time-stamp named too *)
  match c.c_rot with
  | Some ((_, NTimestamps), _) -> Some (std_fmt, false)
  | Some ((_, NTimestampsDirect), _) -> Some (std_fmt, true)
  | Some ((_, NCustom (Some (_ :: _), f)), _) -> Some (f, false)
  | Some ((_, NCustom (_, f)), _) -> Some (f, true)
  | _ -> None

let c09_oracle (t0 : int) (off : int) (ann : (string * string) list) (ops : op list) (files : ((bytes * n) * bytes) list) : string =
  let rec strip t = function
    | (OExtCreate _ | OExtMkdir _) :: r -> strip t r
    | OTick dt :: r -> strip (t + int_of_z dt) r
    | l -> (t, l) in
  let (tb, ops') = strip t0 ops in
  match titems_of tb ops' with
  | None -> "skip shape"
  | Some (c, items) ->
    (match c.c_rot with
     | None -> "skip no-rotation"
     | Some ((crit, _), _) ->
       let start = match List.assoc_opt "start" ann, List.assoc_opt "startt" ann with
         | Some h, Some t -> Some (z_of_int (int_of_string t), bytes_of_hex h)
         | _ -> None in
       let zoff = z_of_int off in
       let contents = family_in_order c files in
       if not (oracle_C09_partition crit zoff start items contents) then "fail files-are-not-the-period-partition" else
       (match ts_format_of c with
        | None -> "pass"
        | Some (fmt, direct) ->
          let (a, lim) = crit_parts crit in
          let expected = tpartition a lim zoff [] start items in
          let fixed = fixed_name_part c.c_spec [] in
          let ordered = reader_order c.c_spec fixed (cur_infix_of c) files in
          let n = List.length expected in
          if List.length ordered <> n then "fail file-count" else
          let bad = ref "" in
          List.iteri (fun i (((nm, _), _), (st, _)) ->
              if (i < n - 1 || direct) && (start = None || i > 0) then
                match full_infix c.c_spec fixed nm with
                | None -> bad := "no-infix"
                | Some inf ->
                  let (main, _) = split_restart inf in
                  if main <> expected_ts_infix c.c_utc zoff fmt st then
                    bad := Printf.sprintf "file %s does not carry the start time of its content (%s)" (hex_of_bytes nm)
                        (hex_of_bytes (expected_ts_infix c.c_utc zoff fmt st)))
            (List.combine ordered expected);
          if !bad = "" then "pass" else "fail " ^ !bad))

(* ---- snapshot oracles along a history (C06, C07, C18): what was logged so far vs. what a reader finds ---- *)
let is_snapshot (o : string) = String.length o > 1 && o.[0] = 's' && o.[1] = '{'

let snap_oracle (prop : string) (ops : op list) (obs : string list) : string =
  if List.length ops <> List.length obs then "fail observation-shape" else
  let logged = ref [] and cfg = ref None and live = ref false and flushed = ref true and last_snap = ref None in
  let verdict = ref "" and checks = ref 0 in
  let seg = ref [] and seg_ok = ref true in
  let seen = ref [] and reused = ref false in
  (* two naming schemes on one file specification share the infix space (a number filter also accepts r2024-..): the
     family of the new configuration then contains files of the old one, and "the end of the family's stream" is not
     meaningful - the destination check is skipped for such histories (tiling and correspondence still apply) *)
  let classes = ref [] and mixed = ref false in
  let note_target c =
    let key = (c.c_spec, (match c.c_rot with None -> false | Some _ -> true)) in
    if List.mem key !seen then reused := true else seen := key :: !seen;
    let cls = (match c.c_rot with
        | Some ((_, (NNumbers | NNumbersDirect)), _) -> 1
        | Some ((_, _), _) -> 2
        | None -> 0) in
    if cls <> 0 && List.exists (fun (sp, k) -> sp = c.c_spec && k <> cls && k <> 0) !classes then mixed := true;
    classes := (c.c_spec, cls) :: !classes in
  (* a byte sequence as the list of its lines, each with its line feed *)
  let lines_of (b : bytes) : bytes list =
    let rec go acc cur = function
      | [] -> List.rev (if cur = [] then acc else List.rev cur :: acc)
      | x :: r -> if int_of_n x = 10 then go (List.rev (x :: cur) :: acc) [] r else go acc (x :: cur) r in
    go [] [] b in
  let direct c = (c.c_cap = None) in
  let check c snap after_stop =
    incr checks;
    let fail m = if !verdict = "" then verdict := m in
    (match prop with
     | "C06" ->
       let never = (match c.c_rot with Some ((_, _), KNever) | None -> true | _ -> false) in
       if never then (if not (oracle_all c !logged snap) then fail "stream-differs-from-all-runs-records")
       else (if not (oracle_tail c !logged snap) then fail "stream-is-not-a-tail-of-all-runs-records")
     | "C07" ->
       if (not c.c_bg) || after_stop then begin
         if not (oracle_tail c !logged snap) then fail "survivors-are-not-a-contiguous-tail"
         else if not (oracle_limits c snap) then fail "more-files-than-the-cleanup-limits-allow"
         else if (not after_stop) && not (oracle_current_plain c snap) then fail "current-file-compressed-or-missing"
       end
     | "C18" ->
       if after_stop then begin
         (* (plain files and complete archives - decompressed -; an archive next to its original does not count twice) *)
         let files = List.filter_map (fun ((_, k), d) -> if int_of_n k = 0 || int_of_n k = 1 then Some d else None)
             (without_shadowed_archives snap) in
         (* every record exactly once, each file a contiguous run of the log in logging order; when the history came back to
            a file it had written before (a reset onto the same current file, with append), that file holds several runs:
            then the files' record sequences must merge, in order, to exactly the logged sequence *)
         if not (oracle_tiles files !logged)
            && not (!reused && merge_check (List.map lines_of files) (lines_of !logged)) then
           fail "files-do-not-tile-the-logged-records"
         (* what was logged since the last start / reset_flw / reopen_output (no external rename since) is at the end of the
            family of the configuration that is in force: the records went to the newly specified file or family *)
         else if !seg_ok && (not !mixed) && not (is_suffix !seg (
             match c.c_rot with
             | Some _ -> stream_of c snap
             | None -> List.concat (List.filter_map (fun ((nm, k), d) ->
                                        if int_of_n k = 0 && name_documented c [] nm then Some d else None) snap))) then
           fail "records-after-the-switch-are-not-in-the-newly-specified-file-or-family"
       end
     | _ -> ()) in
  let prev_stop = ref false in
  List.iter2 (fun op ob ->
      (match op with
       | OStart c ->
         (match !last_snap with
          | Some snap when !cfg = None -> logged := stream_of c snap
          | _ -> ());
         (match c.c_rot with None when not c.c_append && prop <> "C18" -> logged := [] | _ -> ());
         cfg := Some c; live := true; flushed := true; prev_stop := false; seg := []; seg_ok := true; note_target c
       | OReset c ->
         (* a rejected reset (other write mode) changes nothing *)
         if ob = "r0" then (cfg := Some c; flushed := true; note_target c; seg := []; seg_ok := true)
       | OExtRename _ | OExtRemove _ -> seg_ok := false
       | OWrite b | OPlain b ->
         if !live && ob = "r0" then (logged := !logged @ b; seg := !seg @ b;
                                     match !cfg with Some c -> flushed := direct c | None -> ())
       | OFlush | OShutdown -> flushed := true
       | OReopen -> flushed := true; if ob = "r0" then (seg := []; seg_ok := true)
       | OStop -> live := false; flushed := true; prev_stop := true
       | OSnap ->
         if is_snapshot ob then begin
           let snap = parse_snapshot ob in
           last_snap := Some snap;
           (match !cfg with
            | Some c when !flushed -> check c snap !prev_stop
            | _ -> ())
         end
       | _ -> ());
      (match op with OStop | OSnap -> () | _ -> prev_stop := false)) ops obs;
  if !verdict <> "" then "fail " ^ !verdict else if !checks = 0 then "skip no-snapshot-checked" else "pass"

(* ---- C16: documented names, listing, symlink ---- *)
let link_of_snapshot (o : string) : string =
  try
    let i = String.index o '}' in
    let rest = String.sub o (i + 1) (String.length o - i - 1) in   (* link=..;errs=.. *)
    let j = String.index rest ';' in
    String.sub rest 5 (j - 5)
  with _ -> "~"

let c16_oracle (t0 : int) (off : int) (ops : op list) (obs : string list) : string =
  if List.length ops <> List.length obs then "fail observation-shape" else
  let cfg = ref None and active = ref false and last_snap = ref None in
  (* the start-time name part: the (virtual) time of the first operation of the writer that computes a file name *)
  let now = ref t0 and start = ref None and earlier = ref [] in
  let starttxt () = match !start with
    | Some t -> format_ts start_fmt (civil_of (z_of_int (t + off)))
    | None -> [] in
  let verdict = ref "" and checks = ref 0 in
  let fail m = if !verdict = "" then verdict := m in
  List.iter2 (fun op ob ->
      (match op with
       | OTick dt -> now := !now + int_of_z dt
       | (OWrite _ | OPlain _ | OQuery _) when !start = None && !cfg <> None -> start := Some !now
       | OStart _ | OReset _ -> start := None
       | _ -> ());
      match op with
      | OStart c | OReset c ->
        cfg := Some c; active := false;
        (* files of earlier runs carry the start time of their run: only the files this run creates are checked against
           its start time *)
        earlier := (match !last_snap with Some snap when c.c_spec.fts -> List.map (fun ((nm, _), _) -> nm) snap | _ -> [])
      | OWrite _ | OPlain _ -> if ob = "r0" then active := true
      | OStop -> cfg := None; active := false
      | OSnap when is_snapshot ob ->
        let snap = parse_snapshot ob in
        last_snap := Some snap;
        (match !cfg with
         | Some c ->
           incr checks;
           List.iter (fun ((nm, k), _) ->
               if int_of_n k <= 2 && not (List.mem nm !earlier) && not (name_documented c (starttxt ()) nm) then
                 fail ("file-not-named-as-documented " ^ hex_of_bytes nm)) snap;
           if c.c_symlink && !active && not c.c_spec.fts then begin
             let l = link_of_snapshot ob in
             match current_name c snap with
             | Some cur -> if l <> hex_of_bytes cur then fail (Printf.sprintf "symlink-does-not-point-to-the-current-file link=%s current=%s" l (hex_of_bytes cur))
             | None -> ()
           end
         | _ -> ())
      | OQuery sel ->
        (match !cfg, !last_snap with
         | Some c, Some snap when not c.c_spec.fts ->
           incr checks;
           if String.length ob < 3 || ob.[0] <> 'l' then fail "listing-observation"
           else if ob.[1] <> '0' then fail "listing-failed"
           else begin
             let inner = String.sub ob 3 (String.length ob - 4) in
             let names = if inner = "" then [] else List.map bytes_of_hex (split_on ',' inner) in
             if not (oracle_listing sel c snap names) then
               fail (Printf.sprintf "listing-differs-from-the-existing-selected-files got=[%s] expected=[%s]" inner
                       (String.concat "," (List.map hex_of_bytes (expected_listing sel c snap))))
           end
         | _ -> ())
      | _ -> ()) ops obs;
  if !verdict <> "" then "fail " ^ !verdict else if !checks = 0 then "skip nothing-checked" else "pass"

(* ---- C19: I/O failures ---- *)
let rec starts_with (p : bytes) (s : bytes) : bool =
  match p, s with [], _ -> true | x :: p', y :: s' -> x = y && starts_with p' s' | _ :: _, [] -> false
let rec drop n l = if n <= 0 then l else match l with [] -> [] | _ :: r -> drop (n - 1) r

let errs_of_snapshot (o : string) : string =
  try let i = String.rindex o '=' in String.sub o (i + 1) (String.length o - i - 1) with _ -> ""

let c19_oracle (ops : op list) (obs : string list) : string =
  if List.length ops <> List.length obs then "fail observation-shape" else
  (* records with a flag: must it be present?  (written while no fault was pending) *)
  let recs = ref [] and pending = ref false and cfg = ref None and live = ref false in
  let panic = ref false and last = ref None and never = ref true and armed = ref false in
  List.iter2 (fun op ob ->
      if ob = "r2" || ob = "l2[]" then panic := true;
      match op with
      | OStart c -> cfg := Some c; live := true;
        (match c.c_rot with Some ((_, _), KNever) | None -> () | _ -> never := false)
      | OSetFaults l -> pending := (l <> []); if l <> [] then armed := true
      | OWrite b | OPlain b ->
        (* in a buffered mode the write of a record happens when the buffer is flushed: a record accepted before the
           failures begin may still be in the buffer when they strike, so only the records of the recovery phase
           (and, in direct mode, those before the first failure) are known to have had a successful write *)
        let buffered = (match !cfg with Some c -> c.c_cap <> None | None -> false) in
        if !live then recs := (b, (not !pending) && (!armed || not buffered)) :: !recs
      | OStop -> live := false
      | OSnap -> if is_snapshot ob then last := Some ob
      | _ -> ()) ops obs;
  if !panic then "fail an-operation-panicked" else
  match !cfg, !last with
  | Some c, Some ob ->
    let snap = without_shadowed_archives (parse_snapshot ob) in
    let stream = ref (stream_of c snap) in
    let missing = ref 0 and bad = ref "" in
    (* with a cleanup limit the oldest records may be gone: skip them up to the first record the stream starts with *)
    let rs = List.rev !recs in
    let rec skip_cleaned = function
      | (b, _) :: r when (not !never) && not (b <> [] && starts_with b !stream) -> skip_cleaned r
      | l -> l in
    let rs = skip_cleaned rs in
    List.iter (fun (b, must) ->
        if b <> [] && starts_with b !stream then stream := drop (List.length b) !stream
        else if b = [] then ()
        else begin
          incr missing;
          if must && !never && !bad = "" then bad := "record-lost-although-its-own-write-did-not-fail " ^ hex_of_bytes b
        end) rs;
    if !bad <> "" then "fail " ^ !bad
    else if !stream <> [] && !never then "fail stream-holds-bytes-that-are-no-record-or-out-of-order"
    else if !missing > 0 && errs_of_snapshot ob = "" then "fail records-lost-without-any-report-on-the-error-channel"
    (* logging goes on as configured: whatever file exists in the end is a file of the configured family *)
    else if (not c.c_spec.fts) && List.exists (fun ((nm, k), _) -> int_of_n k <= 2 && not (name_documented c [] nm)) snap then
      "fail a-file-is-not-named-as-configured-after-the-failures"
    else "pass"
  | _ -> "skip shape"

(* ---- C11: kill at any point; direct-mode records whose log call returned survive; restart is clean ---- *)
let c11_oracle (ops : op list) (obs : string list) : string =
  if List.length ops <> List.length obs then "fail observation-shape" else
  (* records: (payload, mandatory) - acknowledged before the kill in direct mode, or logged after the restart *)
  let recs = ref [] and cfg = ref None and live = ref false and dead = ref false and after = ref false in
  let last = ref None and never = ref true and bad = ref "" and post_ack = ref false in
  List.iter2 (fun op ob ->
      (match op with
       | OStart c -> cfg := Some c; live := true;
         (match c.c_rot with Some ((_, _), KNever) | None -> () | _ -> never := false);
         if !after && ob <> "r0" then bad := "restart-fails-on-the-directory-the-kill-left"
       | OCrash -> dead := false; after := true; live := false
       | OWrite b | OPlain b ->
         if !live then begin
           let acked = (ob = "r0") in
           let direct = (match !cfg with Some c -> c.c_cap = None && not c.c_async | None -> false) in
           if ob = "x" then dead := true;
           if !after && ob <> "r0" && !bad = "" then bad := "logging-fails-after-the-restart " ^ ob;
           if !after && ob = "r0" then post_ack := true;
           recs := (b, (acked && direct && not !dead) || !after) :: !recs
         end
       | OStop -> live := false
       | OSnap -> if is_snapshot ob then last := Some ob
       | OTrigger | OFlush | OQuery _ -> if !after && (ob = "r2" || ob = "l2[]") && !bad = "" then bad := "panic-after-the-restart"
       | _ -> ());
      if ob = "x" then dead := true) ops obs;
  if !bad <> "" then "fail " ^ !bad else
  if not !after then "skip no-kill" else
  match !cfg, !last with
  | Some c, Some ob ->
    let snap = parse_snapshot ob in
    (* an archive next to its (complete) original - the state a kill between "finish" and "remove original" leaves -
       holds nothing that the original does not: a reader ignores it *)
    let snap = without_shadowed_archives snap in
    let stream = ref (stream_of c snap) in
    let rs = List.rev !recs in
    let rec skip_cleaned = function
      | (b, _) :: r when (not !never) && not (b <> [] && starts_with b !stream) -> skip_cleaned r
      | l -> l in
    let rs = skip_cleaned rs in
    let verdict = ref "" in
    List.iter (fun (b, must) ->
        if b <> [] && starts_with b !stream then stream := drop (List.length b) !stream
        else if b <> [] && must && !verdict = "" then
          verdict := "acknowledged-or-later-record-missing " ^ hex_of_bytes b) rs;
    if !verdict <> "" then "fail " ^ !verdict
    else if !stream <> [] then "fail stream-holds-bytes-that-are-no-record-or-out-of-order"
    (* the other guarantees hold again: a configured symlink leads to the file being written *)
    else if c.c_symlink && !post_ack && (not c.c_spec.fts)
            && (match current_name c snap with Some cur -> link_of_snapshot ob <> hex_of_bytes cur | None -> false) then
      "fail symlink-does-not-lead-to-the-current-file-after-the-restart"
    else "pass"
  | _ -> "skip shape"

let flw_oracle (prop : string) (case_toks : string list) (obs : string list) : string =
  let (pre, ops) = split_at_semicolon [] case_toks in
  let ann = annotations pre in
  let ops = List.map Flw_driver.op_of_string (List.filter (fun s -> s <> "") ops) in
  (* leading external creations (the start state) are allowed before B *)
  let rec strip = function (OExtCreate _ | OExtMkdir _) :: r -> strip r | l -> l in
  if prop = "C06" || prop = "C07" || prop = "C18" then snap_oracle prop ops obs else
  if prop = "C16" then
    (match case_toks with t0 :: off :: _ -> c16_oracle (int_of_string t0) (int_of_string off) ops obs | _ -> "skip shape") else
  if prop = "C19" then c19_oracle ops obs else
  if prop = "C11" then c11_oracle ops obs else
  if prop = "C09" then
    (match last_snapshot obs, case_toks with
     | Some files, t0 :: off :: _ -> c09_oracle (int_of_string t0) (int_of_string off) ann ops files
     | _ -> "skip shape")
  else
  match items_of (strip ops), last_snapshot obs with
  | Some (c, items), Some files ->
    let start = match List.assoc_opt "start" ann with Some h -> Some (bytes_of_hex h) | None -> None in
    let contents = family_in_order c files in
    (match prop with
     | "C08" ->
       (match size_limit c with
        | Some lim -> if oracle_C08 lim start items contents then "pass" else "fail partition-differs-from-size-rule"
        | None -> "skip no-size-criterion")
     | "C01" -> if oracle_C01 start items contents then "pass" else "fail stream-differs-from-logged-records"
     | _ -> "skip unknown-property")
  | _, _ -> "skip shape"

(* ---- C12: replay of the observed order of schedule points through the interleaving model ---- *)
let conc_oracle (case_toks : string list) (obs : string) : string =
  (* case: <spec0> <probes> ; <calls|calls> ; <schedule>      obs: ev[t:name,...] g<n> x<bits> *)
  let parts =
    let rec go cur acc = function
      | [] -> List.rev (List.rev cur :: acc)
      | ";" :: r -> go [] (List.rev cur :: acc) r
      | x :: r -> go (x :: cur) acc r in
    go [] [] case_toks in
  match parts with
  | [spec0; probes] :: [calls] :: _ ->
    let probes = List.map ustr_of_hex (split_on ',' probes) in
    (* a call is <hex spec> (set_new_spec), U<hex spec> (push_temp_spec) or O (pop_temp_spec: it restores the specification
       that was in force when the push read it - one of the submitted ones or the initial one) *)
    let raw = List.map (fun t -> if t = "-" then [] else split_on ',' t) (split_on '|' calls) in
    let with_stack = List.exists (List.exists (fun c -> c = "O" || (String.length c > 0 && c.[0] = 'U'))) raw in
    let threads = List.map (List.filter_map (fun c ->
        if c = "O" then None
        else if String.length c > 0 && c.[0] = 'U' then Some (ustr_of_hex (String.sub c 1 (String.length c - 1)))
        else Some (ustr_of_hex c))) raw in
    (* specification ids: 0 = the initial one, then the calls in order of appearance *)
    let table = ref [ (0, spec_of_string (ustr_of_hex spec0)) ] in
    let next = ref 1 in
    let ids = List.map (fun cs -> List.map (fun c -> let i = !next in incr next; table := (i, spec_of_string c) :: !table; i) cs) threads in
    let spec_of i = List.assoc i !table in
    let ml i = max_level (spec_of (int_of_nat i)).sp_filters in
    let grid_of i = String.concat "" (List.concat_map (fun t -> List.map (fun l ->
        if enabled (spec_of i).sp_filters (nat_of_int l) t then "1" else "0") [1;2;3;4;5]) probes) in
    (match split_on ' ' obs with
     | [ev; g; x] when String.length ev > 3 ->
       let inner = String.sub ev 3 (String.length ev - 4) in
       let evs = if inner = "" then [] else List.map (fun e ->
           match split_on ':' e with
           | [t; "enter"] -> EvEnter (nat_of_int (int_of_string t))
           | [t; "updated"] -> EvUpdated (nat_of_int (int_of_string t))
           | [t; "done"] -> EvDone (nat_of_int (int_of_string t))
           | _ -> failwith "event") (split_on ',' inner) in
       let gate = int_of_string (String.sub g 1 (String.length g - 1)) in
       let grid = String.sub x 1 (String.length x - 1) in
       (* the property, on the implementation's final state *)
       let candidates = List.filter (fun (i, _) -> grid_of i = grid) !table in
       if candidates = [] then "fail filtering-follows-none-of-the-submitted-specifications" else
       if List.for_all (fun (i, _) -> gate < int_of_nat (ml (nat_of_int i))) candidates then
         Printf.sprintf "fail gate-%d-hides-records-of-the-active-specification" gate else
       (* push / pop are not calls of the interleaving model (which specification a pop submits depends on the schedule): for
          such cases the property on the final state is the whole verdict *)
       if with_stack then "pass" else
       (* the correspondence: the model, driven by the observed order, ends in the same state *)
       let sys0 = cinit ml O code_fixed O (List.map (List.map nat_of_int) ids) in
       let final = crun ml O sys0 (schedule_of true evs) in
       if not (done_b final) then "mismatch the-observed-order-does-not-complete-the-model-run" else
       if grid_of (int_of_nat final.cspec) <> grid then "mismatch active-specification" else
       if int_of_nat final.cgate <> gate then Printf.sprintf "mismatch gate model=%d impl=%d" (int_of_nat final.cgate) gate
       else "pass"
     | _ -> "fail observation-shape")
  | _ -> "skip shape"

(* ---- C03: the output of concurrently logging threads is a merge of the threads' sequences ---- *)
let lines_of (b : bytes) : bytes list =
  let rec go cur acc = function
    | [] -> List.rev (if cur = [] then acc else List.rev cur :: acc)
    | c :: r -> if int_of_n c = 10 then go [] (List.rev (c :: cur) :: acc) r else go (c :: cur) acc r in
  go [] [] b

let mt_oracle (case_toks : string list) (obs : string) : string =
  match case_toks with
  | [out; mode; rot; naming; threads; lines; len] ->
    let threads = int_of_string threads and lines = int_of_string lines and len = int_of_string len in
    (* " q<n>" at the end: a further thread logged Q-<k>, called flush() and looked at the file at once; n = lines not found *)
    let (obs, flush_misses) =
      match String.rindex_opt obs ' ' with
      | Some i when i + 1 < String.length obs && obs.[i + 1] = 'q' ->
        (String.sub obs 0 i, Some (int_of_string (String.sub obs (i + 2) (String.length obs - i - 2))))
      | _ -> (obs, None) in
    let snap = if out = "file" then parse_snapshot obs else [] in
    let stream =
      if out = "file" then
        let cfg = Fmt_driver.lh_config mode rot naming in
        stream_of cfg snap
      else bytes_of_hex (String.sub obs 2 (String.length obs - 2)) in
    (* what each thread logged, in its order *)
    let expected = List.init threads (fun t -> List.init lines (fun k ->
        let pad = String.make (max 0 (len + (k * 7 + t * 3) mod 11 - 10)) 'x' in
        if t = 0 then bytes_of_string (Printf.sprintf "%c\n" (Char.chr (65 + k mod 26)))     (* thread 0: single letters, incl. "F", "S" *)
        else bytes_of_string (Printf.sprintf "T%d-%d-%s\n" t k pad))) in
    let expected = match flush_misses with
      | Some _ -> expected @ [List.init lines (fun k -> bytes_of_string (Printf.sprintf "Q-%d\n" k))]
      | None -> expected in
    if not (merge_check expected (lines_of stream)) then "fail output-is-not-a-merge-of-the-threads-lines" else
    (match flush_misses with
     | Some n when n > 0 -> Printf.sprintf "fail %d-lines-not-in-the-file-after-flush-returned" n
     | _ ->
       (* C08 under concurrency: a file closed by the size criterion exceeds the limit only by its last line *)
       if out = "file" && rot <> "~" then begin
         let limit = int_of_string (String.sub rot 1 (String.length rot - 1)) in
         let cfg = Fmt_driver.lh_config mode rot naming in
         let files = family_in_order cfg snap in
         let closed = match List.rev files with [] -> [] | _ :: r -> List.rev r in
         let over = List.filter (fun f ->
             match List.rev (lines_of f) with
             | last :: _ -> List.length f - List.length last > limit
             | [] -> false) closed in
         if over <> [] then Printf.sprintf "fail %d-closed-files-exceed-the-limit-by-more-than-their-last-line" (List.length over)
         else "pass"
       end else "pass")
  | _ -> "skip shape"

(* ---- C04: at a checkpoint (flush in a synchronous mode, shutdown, last handle dropped) everything accepted is there ---- *)
let lh_oracle (case_toks : string list) (obs : string list) : string =
  match case_toks with
  | out :: mode :: rot :: naming :: ";" :: ops ->
    let ops = List.filter (fun s -> s <> "") ops in
    if List.length ops <> List.length obs then "fail observation-shape" else
    let cfg = Fmt_driver.lh_config mode rot naming in
    let logged = ref [] and verdict = ref "" and checks = ref 0 in
    List.iter2 (fun op ob ->
        match split_on ':' op with
        | ["L"; h] -> logged := !logged @ bytes_of_hex h @ [n_of_int 10]
        | ["SN"] ->
          incr checks;
          let got = if out = "file" then stream_of cfg (parse_snapshot ob)
            else bytes_of_hex (String.sub ob 2 (String.length ob - 2)) in
          if got <> !logged && !verdict = "" then
            verdict := Printf.sprintf "accepted-records-missing-after-flush-shutdown-or-drop got=%s expected=%s" (hex_of_bytes got) (hex_of_bytes !logged)
        | _ -> ()) ops obs;
    if !verdict <> "" then "fail " ^ !verdict else if !checks = 0 then "skip no-checkpoint" else "pass"
  | _ -> "skip shape"

let run_line (prop : string) (line : string) : string =
  let marker = " @@ " in
  let rec find i = if i + 4 > String.length line then -1 else if String.sub line i 4 = marker then i else find (i + 1) in
  let k = find 0 in
  if k < 0 then "skip no-observation" else
  let case = String.sub line 0 k and obs = String.sub line (k + 4) (String.length line - k - 4) in
  match split_on ' ' case with
  | _ :: ("flw" | "flwl") :: rest -> flw_oracle prop rest (List.filter (fun s -> s <> "") (split_on ' ' obs))
  | _ :: "conc" :: rest -> conc_oracle rest obs
  | _ :: "mt" :: rest -> mt_oracle rest obs
  | _ :: "lh" :: rest -> lh_oracle rest (List.filter (fun s -> s <> "") (split_on ' ' obs))
  | _ :: "tryfrom" :: _ -> if obs = "p0 rt1 b1 w1" then "pass" else "fail path-derived-spec-does-not-denote-the-path " ^ obs
  | _ -> "skip kind"
