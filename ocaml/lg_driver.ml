(* Case kinds "spec", "specb", "lg" -> model -> observation lines. *)
open Model
open Codec

let show_filter ((n, l) : (n list option * nat)) : string =
  (match n with None -> "~" | Some s -> hex_of_ustr s) ^ ":" ^ string_of_int (int_of_nat l)
let show_filters (fs : (n list option * nat) list) : string = "[" ^ String.concat "," (List.map show_filter fs) ^ "]"

(* canonical order for builder-made specs (HashMap iteration order is arbitrary): key length desc, then name *)
let canon (fs : (n list option * nat) list) : (n list option * nat) list =
  let key (n, l) = (- (match n with None -> 0 | Some s -> String.length (hex_of_ustr s) / 2 * (if s = [] then 0 else 1)),
                    (match n with None -> "" | Some s -> hex_of_ustr s), int_of_nat l) in
  List.stable_sort (fun a b -> compare (key a) (key b)) fs

let show_spec_obs (canonical : bool) (o : spec_obs) : string =
  let c fs = if canonical then canon fs else fs in
  (* sf: the specfile route (first start writes the file, the next start reads it) decides like the specification itself -
     by C17_toml_roundtrip the model's answer is "same" whenever the TOML form exists *)
  Printf.sprintf "%s f%s tf%d %s r%s rf%s t%s sf%s"
    (if o.so_ok then "ok" else "err") (show_filters (c o.so_filters)) (if o.so_text then 1 else 0)
    (if canonical then "d*" else "d" ^ hex_of_ustr o.so_display)
    (if o.so_reparse_ok then "ok" else "err") (show_filters (c o.so_reparse))
    (match o.so_toml with None -> "-" | Some fs -> show_filters (c fs))
    (match o.so_toml with None -> "-" | Some _ -> "same")

let run_spec_case (toks : string list) : string =
  match toks with
  | [h] -> show_spec_obs false (run_spec (ustr_of_hex h))
  | _ -> failwith "spec case"

let bop_of_string (s : string) : bop =
  match split_on ':' s with
  | ["M"; n; l] -> BModule (ustr_of_hex n, nat_of_int (int_of_string l))
  | ["D"; l] -> BDefault (nat_of_int (int_of_string l))
  | ["R"; n] -> BRemove (ustr_of_hex n)
  | ["F"; h] -> BFrom (ustr_of_hex h)
  | ["I"; h] -> BInsertFrom (ustr_of_hex h)
  | ["V"; l] -> BLevel (nat_of_int (int_of_string l))
  | _ -> failwith ("bop: " ^ s)

let run_specb_case (toks : string list) : string =
  show_spec_obs true (run_builder (List.map bop_of_string (List.filter (fun s -> s <> "") toks)))

let writer_of_string (s : string) : owriter =
  match split_on ':' s with
  | [n; k; m] -> { ow_name = ustr_of_hex n;
                   ow_kind = (match k with "c" -> WCustom | "f" -> WFlw | "s" -> WSyslog | _ -> failwith "wkind");
                   ow_max = nat_of_int (int_of_string m) }
  | _ -> failwith ("writer: " ^ s)

let lop_of_string (s : string) : lop =
  match split_on ':' s with
  | ["L"; l; t; m; msg] -> LLog { r_level = nat_of_int (int_of_string l); r_target = ustr_of_hex t;
                                  r_module = opt_ustr m; r_msg = ustr_of_hex msg }
  | ["E"; l; t] -> LEnabled (nat_of_int (int_of_string l), ustr_of_hex t)
  | ["HS"; h] -> LH (HSet (spec_of_string (ustr_of_hex h)))
  | ["HP"; h] -> LH (HParseSet (ustr_of_hex h))
  | ["HU"; h] -> LH (HPush (spec_of_string (ustr_of_hex h)))
  | ["HQ"; h] -> LH (HParsePush (ustr_of_hex h))
  | ["HO"] -> LH HPop
  | ["DE"; d] -> LH (HDupErr (nat_of_int (int_of_string d)))
  | ["DO"; d] -> LH (HDupOut (nat_of_int (int_of_string d)))
  | ["G"] -> LGate
  | ["GR"] -> LGrid
  | _ -> failwith ("lop: " ^ s)

let show_events (ws : owriter list) (evs : event list) : string =
  (* FileLogWriters and SyslogWriters are observed from outside (file size, datagrams), in the order of their registration *)
  let is_flw n = List.exists (fun w -> w.ow_name = n && w.ow_kind <> WCustom) ws in
  let writes = List.filter_map (function
      | EvWrite (n, true) when not (is_flw n) -> Some (hex_of_ustr n ^ "+")
      | _ -> None) evs in
  let fl = List.filter_map (fun w -> if w.ow_kind <> WCustom then
                               Some (hex_of_ustr w.ow_name ^
                                     (if List.exists (function EvWrite (n, true) -> n = w.ow_name | _ -> false) evs then "+" else "-"))
                             else None) ws in
  let bad = List.length (List.filter (function EvBadWriter _ -> true | _ -> false) evs) in
  let flt = List.exists (function EvFilter -> true | _ -> false) evs in
  let (p, e, o) = List.fold_left (fun (p, e, o) ev -> match ev with EvPrimary (de, dq) -> (true, de, dq) | _ -> (p, e, o)) (false, false, false) evs in
  let b x = if x then 1 else 0 in
  Printf.sprintf "w[%s]fw[%s]b%df%dp%de%do%d" (String.concat "," writes) (String.concat "," fl) bad (b flt) (b p) (b e) (b o)

let show_lobs (ws : owriter list) (o : lobs) : string =
  match o with
  | OLog (Done evs) -> show_events ws evs
  | OLog Panicked -> "PANIC"
  | OEn (Done (b, evs)) -> Printf.sprintf "e%db%d" (if b then 1 else 0)
                             (List.length (List.filter (function EvBadWriter _ -> true | _ -> false) evs))
  | OEn Panicked -> "PANIC"
  | ORes ok -> if ok then "r0" else "r1"
  | OGate l -> "g" ^ string_of_int (int_of_nat l)
  | OGrid bits -> "x" ^ String.concat "" (List.map (fun b -> if b then "1" else "0") bits)

(* "<spec> <writers|-> <duperr> <dupout> <filter> <probes|-> ; ops" *)
let run_lg_case (toks : string list) : string =
  match toks with
  | sp :: ws :: de :: dq :: flt :: probes :: ";" :: ops ->
    let writers = if ws = "-" then [] else List.map writer_of_string (split_on ',' ws) in
    let probes = if probes = "-" then [] else List.map ustr_of_hex (split_on ',' probes) in
    let lg = new_logger (spec_of_string (ustr_of_hex sp)) writers (nat_of_int (int_of_string de))
        (nat_of_int (int_of_string dq)) (flt = "1") in
    let ops = List.map lop_of_string (List.filter (fun s -> s <> "") ops) in
    String.concat " " (List.map (show_lobs writers) (lrun probes lg ops))
  | _ -> failwith "lg case"
