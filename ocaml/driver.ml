(* Model mode:   driver <cases>            prints "<id> <observation> # <ghost>" per case line "<id> <kind> ...".
   Oracle mode:  driver --oracle <P> <f>   reads "<id> <kind> <case...> @@ <impl observation>", prints "<id> pass|fail|skip ...". *)
let each_line ic f =
  try
    while true do
      let line = input_line ic in
      if line <> "" && line.[0] <> '#' then f line
    done
  with End_of_file -> ()

let () =
  if Array.length Sys.argv > 3 && Sys.argv.(1) = "--oracle" then begin
    let prop = Sys.argv.(2) in
    each_line (open_in Sys.argv.(3)) (fun line ->
        let id = List.hd (String.split_on_char ' ' line) in
        let out = try Oracle_driver.run_line prop line with e -> "skip oracle-error " ^ Printexc.to_string e in
        print_string id; print_char ' '; print_endline out)
  end else begin
    let ic = if Array.length Sys.argv > 1 then open_in Sys.argv.(1) else stdin in
    each_line ic (fun line ->
        match String.split_on_char ' ' line with
        | id :: kind :: rest ->
          let out =
            try
              (match kind with
               | "flw" -> Flw_driver.via_logger := false; Flw_driver.run_case rest
               | "flwl" -> Flw_driver.via_logger := true; Flw_driver.run_case rest
               | "tryfrom" -> Flw_driver.run_tryfrom rest
               | "conc" -> "replayed-by-the-oracle # ."
               | "lh" -> Fmt_driver.run_lh rest
               | "mt" -> "checked-by-the-oracle # ."
               | "fmt" -> Fmt_driver.run_fmt rest
               | "frame" -> Fmt_driver.run_frame rest
               | "spec" -> Lg_driver.run_spec_case rest
               | "specb" -> Lg_driver.run_specb_case rest
               | "lg" -> Lg_driver.run_lg_case rest
               | _ -> "MODEL-ERROR unknown kind " ^ kind)
            with e -> "MODEL-ERROR " ^ Printexc.to_string e in
          print_string id; print_char ' '; print_endline out
        | _ -> ())
  end
