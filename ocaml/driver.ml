(* Reads case lines "<id> <kind> ..." from the file given as argv[1] (or stdin) and prints
   "<id> <observation>" per case.  A failure to handle a case prints "<id> MODEL-ERROR <msg>". *)
let () =
  let ic = if Array.length Sys.argv > 1 then open_in Sys.argv.(1) else stdin in
  (try
    while true do
      let line = input_line ic in
      if line <> "" && line.[0] <> '#' then begin
        match String.split_on_char ' ' line with
        | id :: kind :: rest ->
          let out =
            try
              (match kind with
               | "flw" -> Flw_driver.run_case rest
               | _ -> "MODEL-ERROR unknown kind " ^ kind)
            with e -> "MODEL-ERROR " ^ Printexc.to_string e in
          print_string id; print_char ' '; print_endline out
        | _ -> ()
      end
    done
  with End_of_file -> ())
