#!/bin/sh
# builds the model driver from the extracted model (coq/model.ml, produced by Extract/Extract.v)
set -e
cd "$(dirname "$0")"
cp ../coq/model.ml ../coq/model.mli .
ocamlfind ocamlopt -O2 -w -a -package str model.mli model.ml codec.ml flw_driver.ml lg_driver.ml fmt_driver.ml oracle_driver.ml driver.ml -o driver 2>/dev/null || \
ocamlfind ocamlopt -w -a model.mli model.ml codec.ml flw_driver.ml lg_driver.ml fmt_driver.ml oracle_driver.ml driver.ml -o driver
