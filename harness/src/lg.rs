//! Case kinds "spec", "specb", "lg": LogSpecification text forms, the builder, and a built logger
//! with its handle (routing, enabled(), reconfiguration), executed through the public API.
use crate::util::*;
use flexi_logger::filter::{LogLineFilter, LogLineWriter};
use flexi_logger::writers::{FileLogWriter, LogWriter};
use flexi_logger::{DeferredNow, Duplicate, FileSpec, FlexiLoggerError, LogSpecBuilder, LogSpecification, Logger, ModuleFilter};
use log::LevelFilter;
use std::panic::{catch_unwind, AssertUnwindSafe};
use std::sync::{Arc, Mutex};

fn lvl_num(l: LevelFilter) -> usize {
    match l {
        LevelFilter::Off => 0,
        LevelFilter::Error => 1,
        LevelFilter::Warn => 2,
        LevelFilter::Info => 3,
        LevelFilter::Debug => 4,
        LevelFilter::Trace => 5,
    }
}
fn lvl_of(n: usize) -> LevelFilter {
    [LevelFilter::Off, LevelFilter::Error, LevelFilter::Warn, LevelFilter::Info, LevelFilter::Debug, LevelFilter::Trace][n]
}
fn level_of(n: usize) -> log::Level {
    [log::Level::Error, log::Level::Error, log::Level::Warn, log::Level::Info, log::Level::Debug, log::Level::Trace][n]
}
fn show_filters(fs: &[ModuleFilter], canonical: bool) -> String {
    let mut v: Vec<(usize, String, usize)> = fs
        .iter()
        .map(|f| {
            (
                f.module_name.as_ref().map_or(0, |s| s.len()),
                f.module_name.as_ref().map_or("~".to_string(), |s| hex(s.as_bytes())),
                lvl_num(f.level_filter),
            )
        })
        .collect();
    if canonical {
        v.sort_by(|a, b| b.0.cmp(&a.0).then(name_key(&a.1).cmp(&name_key(&b.1))).then(a.2.cmp(&b.2)));
    }
    format!("[{}]", v.iter().map(|(_, n, l)| format!("{n}:{l}")).collect::<Vec<_>>().join(","))
}
fn name_key(s: &str) -> String {
    if s == "~" {
        String::new()
    } else {
        s.to_string()
    }
}
fn toml_safe(fs: &[ModuleFilter]) -> bool {
    let mut names: Vec<&Option<String>> = fs.iter().map(|f| &f.module_name).collect();
    names.sort();
    names.dedup();
    names.len() == fs.len() && fs.iter().all(|f| match &f.module_name {
        None => true,
        Some(n) => !n.is_empty() && n.chars().all(|c| c.is_ascii_alphanumeric() || c == '_' || c == ':'),
    })
}
/// the specification a string stands for as a value: parsed, or carried by the parse error
fn spec_of(s: &str) -> (bool, LogSpecification) {
    // parse() and the two TryFrom impls are the same function
    let r = match s.len() % 3 {
        0 => LogSpecification::parse(s),
        1 => LogSpecification::try_from(s),
        _ => LogSpecification::try_from(&s.to_string()),
    };
    match r {
        Ok(sp) => (true, sp),
        Err(FlexiLoggerError::Parse(_, sp)) => (false, sp),
        Err(_) => (false, LogSpecification::off()),
    }
}
/// The specfile route of a started program (`Logger::build_with_specfile`): the first start finds no file and writes
/// the specification it was given into it, the next start - whatever specification it is given - reads the file and
/// takes the specification from there.  The logger of that second start must decide like a logger that got `sp` directly.
fn specfile_roundtrip(sp: &LogSpecification) -> String {
    static N: std::sync::atomic::AtomicUsize = std::sync::atomic::AtomicUsize::new(0);
    let dir = crate::util::scratch_root().join(format!("specfile{}", N.fetch_add(1, std::sync::atomic::Ordering::SeqCst)));
    let path = dir.join("sub").join("logspec.toml");
    let res = (|| {
        // (build() installs the logger's error channel as the process-global one: keep the harness's file there)
        let ec = || flexi_logger::ErrorChannel::File(crate::util::errfile().clone());
        let first = Logger::with(sp.clone()).do_not_log().error_channel(ec()).build_with_specfile(&path);
        if first.is_err() {
            return "ERR1".to_string();
        }
        drop(first);
        let Ok((log2, _h2)) = Logger::with(LogSpecification::off()).do_not_log().error_channel(ec()).build_with_specfile(&path) else {
            return "ERR2".to_string();
        };
        let Ok((log0, _h0)) = Logger::with(sp.clone()).do_not_log().error_channel(ec()).build() else {
            return "ERR0".to_string();
        };
        let mut probes: Vec<String> = vec!["".into(), "zzz".into(), "a".into(), "a::b::c::d".into()];
        for f in sp.module_filters() {
            if let Some(n) = &f.module_name {
                probes.extend([n.clone(), format!("{n}::x"), format!("{n}x"), n.chars().take(n.chars().count().saturating_sub(1)).collect()]);
            }
        }
        for t in &probes {
            for l in [log::Level::Error, log::Level::Warn, log::Level::Info, log::Level::Debug, log::Level::Trace] {
                let md = log::Metadata::builder().level(l).target(t).build();
                if log0.enabled(&md) != log2.enabled(&md) {
                    return format!("diff:{}:{}", hex(t.as_bytes()), l);
                }
            }
        }
        "same".to_string()
    })();
    let _ = std::fs::remove_dir_all(&dir);
    res
}
fn observe(ok: bool, sp: &LogSpecification, canonical: bool) -> String {
    let d = sp.to_string();
    let (rok, rsp) = spec_of(&d);
    let sf = if toml_safe(sp.module_filters()) { specfile_roundtrip(sp) } else { "-".to_string() };
    let t = if toml_safe(sp.module_filters()) {
        let mut buf = Vec::new();
        match sp.to_toml(&mut buf) {
            Ok(()) => match LogSpecification::from_toml(String::from_utf8_lossy(&buf)) {
                Ok(s2) => show_filters(s2.module_filters(), canonical),
                Err(_) => "ERR".to_string(),
            },
            Err(_) => "ERR".to_string(),
        }
    } else {
        "-".to_string()
    };
    format!(
        "{} f{} tf{} {} r{} rf{} t{} sf{}",
        if ok { "ok" } else { "err" },
        show_filters(sp.module_filters(), canonical),
        u8::from(sp.text_filter().is_some()),
        if canonical { "d*".to_string() } else { format!("d{}", hex(d.as_bytes())) },
        if rok { "ok" } else { "err" },
        show_filters(rsp.module_filters(), canonical),
        t,
        sf
    )
}

pub fn run_spec(toks: &[&str]) -> String {
    let s = ustr(&unhex(toks[0]));
    match catch_unwind(|| {
        let (ok, sp) = spec_of(&s);
        observe(ok, &sp, false)
    }) {
        Ok(o) => o,
        Err(_) => "PANIC".to_string(),
    }
}

pub fn run_specb(toks: &[&str]) -> String {
    let mut b = LogSpecBuilder::new();
    for t in toks {
        if t.is_empty() {
            continue;
        }
        let p: Vec<&str> = t.split(':').collect();
        match p[0] {
            "M" => {
                b.module(ustr(&unhex(p[1])), lvl_of(p[2].parse().unwrap()));
            }
            "D" => {
                b.default(lvl_of(p[1].parse().unwrap()));
            }
            "R" => {
                b.remove(ustr(&unhex(p[1])));
            }
            "F" => {
                let (_, sp) = spec_of(&ustr(&unhex(p[1])));
                b = LogSpecBuilder::from_module_filters(sp.module_filters());
            }
            "I" => {
                let (_, sp) = spec_of(&ustr(&unhex(p[1])));
                b.insert_modules_from(sp);
            }
            "V" => {
                b = LogSpecBuilder::from_module_filters(LogSpecification::from(lvl_of(p[1].parse().unwrap())).module_filters());
            }
            _ => panic!("bop"),
        }
    }
    // the three ways to get the specification out of the builder
    let sp = match toks.len() % 3 {
        0 => b.build(),
        1 => b.build_with_textfilter(None),
        _ => b.finalize(),
    };
    observe(true, &sp, true)
}

/// a writer that swallows everything
pub struct Sink;
impl LogWriter for Sink {
    fn write(&self, _now: &mut DeferredNow, _r: &log::Record) -> std::io::Result<()> {
        Ok(())
    }
    fn flush(&self) -> std::io::Result<()> {
        Ok(())
    }
}

// ---------------------------------------------------------------- recording writers
type Journal = Arc<Mutex<Vec<String>>>;
struct Rec {
    name: String,
    journal: Journal,
    max: LevelFilter,
}
impl LogWriter for Rec {
    fn write(&self, _now: &mut DeferredNow, r: &log::Record) -> std::io::Result<()> {
        // a well-behaved writer: it emits only what its own maximum level admits
        if r.level() <= self.max {
            self.journal.lock().unwrap().push(self.name.clone());
        }
        Ok(())
    }
    fn flush(&self) -> std::io::Result<()> {
        Ok(())
    }
    fn max_log_level(&self) -> LevelFilter {
        self.max
    }
}
struct Flt {
    journal: Journal,
}
impl LogLineFilter for Flt {
    fn write(&self, now: &mut DeferredNow, record: &log::Record, w: &dyn LogLineWriter) -> std::io::Result<()> {
        self.journal.lock().unwrap().push("_F".to_string());
        w.write(now, record)
    }
}
fn dup_of(n: usize) -> Duplicate {
    [Duplicate::None, Duplicate::Error, Duplicate::Warn, Duplicate::Info, Duplicate::Debug, Duplicate::Trace, Duplicate::All][n]
}

/// a writer whose output is observed from outside: a FileLogWriter by the size of its file, a SyslogWriter by the
/// datagrams that arrive on the unix socket it is connected to
struct FlwProbe {
    name: String,
    path: std::path::PathBuf,
    sock: Option<(std::os::unix::net::UnixDatagram, std::cell::Cell<u64>)>,
}
impl FlwProbe {
    fn level(&self) -> u64 {
        match &self.sock {
            None => std::fs::metadata(&self.path).map(|m| m.len()).unwrap_or(0),
            Some((sock, seen)) => {
                let mut buf = [0u8; 4096];
                while sock.recv(&mut buf).is_ok() {
                    seen.set(seen.get() + 1);
                }
                seen.get()
            }
        }
    }
}

pub fn run_lg(id: &str, toks: &[&str]) -> String {
    let semi = toks.iter().position(|t| *t == ";").expect("';' missing");
    let (cfg, ops) = (&toks[..semi], &toks[semi + 1..]);
    let (_, spec) = spec_of(&ustr(&unhex(cfg[0])));
    let journal: Journal = Arc::new(Mutex::new(vec![]));
    let dir = scratch_root().join(format!("lg_{id}"));
    let _ = std::fs::remove_dir_all(&dir);
    let mut logger = Logger::with(spec)
        .log_to_writer(Box::new(Rec { name: "_P".into(), journal: journal.clone(), max: LevelFilter::Trace }))
        .error_channel(flexi_logger::ErrorChannel::File(errfile().clone()))
        .duplicate_to_stderr(dup_of(cfg[2].parse().unwrap()))
        .duplicate_to_stdout(dup_of(cfg[3].parse().unwrap()));
    let mut flw_probes: Vec<FlwProbe> = vec![];
    if cfg[1] != "-" {
        for w in cfg[1].split(',') {
            let p: Vec<&str> = w.split(':').collect();
            let name = ustr(&unhex(p[0]));
            let max = lvl_of(p[2].parse().unwrap());
            match p[1] {
                "c" => {
                    logger = logger.add_writer(&name, Box::new(Rec { name: hex(name.as_bytes()), journal: journal.clone(), max }));
                }
                "f" => {
                    std::fs::create_dir_all(&dir).unwrap();
                    let base = format!("w{}", flw_probes.len());
                    let flw = FileLogWriter::builder(FileSpec::default().directory(&dir).basename(&base).suppress_timestamp())
                        .max_level(max)
                        .try_build()
                        .unwrap();
                    flw_probes.push(FlwProbe { name: hex(name.as_bytes()), path: dir.join(format!("{base}.log")), sock: None });
                    logger = logger.add_writer(&name, Box::new(flw));
                }
                "s" => {
                    use flexi_logger::writers::{SyslogConnection, SyslogFacility, SyslogLineHeader, SyslogWriter};
                    std::fs::create_dir_all(&dir).unwrap();
                    let path = dir.join(format!("s{}.sock", flw_probes.len()));
                    let sock = std::os::unix::net::UnixDatagram::bind(&path).unwrap();
                    sock.set_nonblocking(true).unwrap();
                    let w = SyslogWriter::builder(
                        SyslogConnection::try_datagram(&path).unwrap(),
                        SyslogLineHeader::Rfc3164,
                        SyslogFacility::UserLevel,
                    )
                    .max_log_level(max)
                    .build()
                    .unwrap();
                    flw_probes.push(FlwProbe { name: hex(name.as_bytes()), path, sock: Some((sock, std::cell::Cell::new(0))) });
                    logger = logger.add_writer(&name, w);
                }
                _ => panic!("writer kind"),
            }
        }
    }
    if cfg[4] == "1" {
        logger = logger.filter(Box::new(Flt { journal: journal.clone() }));
    }
    let probes: Vec<String> = if cfg[5] == "-" { vec![] } else { cfg[5].split(',').map(|h| ustr(&unhex(h))).collect() };
    let _ = take_errors();
    let (log, mut handle) = match logger.build() {
        Ok(x) => x,
        Err(e) => return format!("BUILD-ERROR {e}"),
    };
    let _ = take_errors();
    let mut out: Vec<String> = vec![];
    for tok in ops {
        if tok.is_empty() {
            continue;
        }
        let p: Vec<&str> = tok.split(':').collect();
        let o = match p[0] {
            "L" => {
                let lvl = level_of(p[1].parse().unwrap());
                let target = ustr(&unhex(p[2]));
                let module = opt_unhex(p[3]).map(|b| ustr(&b));
                let msg = ustr(&unhex(p[4]));
                journal.lock().unwrap().clear();
                let sizes: Vec<u64> = flw_probes.iter().map(FlwProbe::level).collect();
                capture_reset();
                let r = catch_unwind(AssertUnwindSafe(|| {
                    log.log(
                        &log::Record::builder()
                            .level(lvl)
                            .target(&target)
                            .module_path(module.as_deref())
                            .args(format_args!("{msg}"))
                            .build(),
                    )
                }));
                let (e, o) = capture_read();
                let errs = take_errors();
                if r.is_err() {
                    "PANIC".to_string()
                } else {
                    let j = journal.lock().unwrap().clone();
                    let mut writes: Vec<String> = vec![];
                    // custom writers in call order; file writers are probed by their file size
                    for n in j.iter().filter(|n| *n != "_P" && *n != "_F") {
                        writes.push(format!("{n}+"));
                    }
                    let mut fl: Vec<String> = vec![];
                    for (f, before) in flw_probes.iter().zip(sizes.iter()) {
                        let after = f.level();
                        fl.push(format!("{}{}", f.name, if after > *before { "+" } else { "-" }));
                    }
                    format!(
                        "w[{}]fw[{}]b{}f{}p{}e{}o{}",
                        writes.join(","),
                        fl.join(","),
                        errs.iter().filter(|c| *c == "WriterSpec").count(),
                        u8::from(j.iter().any(|n| n == "_F")),
                        u8::from(j.iter().any(|n| n == "_P")),
                        u8::from(!e.is_empty()),
                        u8::from(!o.is_empty())
                    )
                }
            }
            "E" => {
                let lvl = level_of(p[1].parse().unwrap());
                let target = ustr(&unhex(p[2]));
                let r = catch_unwind(AssertUnwindSafe(|| log.enabled(&log::Metadata::builder().level(lvl).target(&target).build())));
                let errs = take_errors();
                match r {
                    Ok(b) => format!("e{}b{}", u8::from(b), errs.iter().filter(|c| *c == "WriterSpec").count()),
                    Err(_) => "PANIC".to_string(),
                }
            }
            "HS" => {
                handle.set_new_spec(spec_of(&ustr(&unhex(p[1]))).1);
                "r0".to_string()
            }
            "HP" => format!("r{}", u8::from(handle.parse_new_spec(&ustr(&unhex(p[1]))).is_err())),
            "HU" => {
                handle.push_temp_spec(spec_of(&ustr(&unhex(p[1]))).1);
                "r0".to_string()
            }
            "HQ" => format!("r{}", u8::from(handle.parse_and_push_temp_spec(ustr(&unhex(p[1]))).is_err())),
            "HO" => {
                handle.pop_temp_spec();
                "r0".to_string()
            }
            "DE" => format!("r{}", u8::from(handle.adapt_duplication_to_stderr(dup_of(p[1].parse().unwrap())).is_err())),
            "DO" => format!("r{}", u8::from(handle.adapt_duplication_to_stdout(dup_of(p[1].parse().unwrap())).is_err())),
            "G" => format!("g{}", lvl_num(log::max_level())),
            "GR" => {
                let mut s = String::from("x");
                for t in &probes {
                    for l in 1..=5 {
                        let b = log.enabled(&log::Metadata::builder().level(level_of(l)).target(t).build());
                        s.push(if b { '1' } else { '0' });
                    }
                }
                s
            }
            other => panic!("unknown lg op {other}"),
        };
        out.push(o);
    }
    drop(handle);
    drop(log);
    let _ = std::fs::remove_dir_all(&dir);
    out.join(" ")
}
