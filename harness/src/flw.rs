//! Case kind "flw": histories of a FileLogWriter, executed through the public API.
use crate::util::*;
use flexi_logger::verif_hooks as vh;
use flexi_logger::writers::{ArcFileLogWriter, FileLogWriter, FileLogWriterBuilder, FileLogWriterHandle, LogWriter};
use flexi_logger::{Age, Cleanup, Criterion, DeferredNow, FileSpec, LogfileSelector, Naming, WriteMode};
use std::collections::VecDeque;
use std::io::Write;
use std::panic::{catch_unwind, AssertUnwindSafe};
use std::path::{Path, PathBuf};
use std::sync::{Mutex, OnceLock};

// ---------------------------------------------------------------- payload-only format
fn payload() -> &'static Mutex<Vec<u8>> {
    static P: OnceLock<Mutex<Vec<u8>>> = OnceLock::new();
    P.get_or_init(|| Mutex::new(vec![]))
}
fn raw_format(w: &mut dyn Write, _now: &mut DeferredNow, _r: &log::Record) -> std::io::Result<()> {
    w.write_all(&payload().lock().unwrap())
}

// ---------------------------------------------------------------- fault / kill controller
pub struct FsCtl {
    pub faults: VecDeque<bool>,
    pub kill: Option<usize>,
    pub trace: Vec<String>,
}
pub fn fsctl() -> &'static Mutex<FsCtl> {
    static C: OnceLock<Mutex<FsCtl>> = OnceLock::new();
    C.get_or_init(|| {
        vh::set_fs_handler(Some(Box::new(fs_handler)));
        Mutex::new(FsCtl { faults: VecDeque::new(), kill: None, trace: vec![] })
    })
}
fn fs_handler(op: vh::FsOp, p: &Path) -> vh::FsVerdict {
    use vh::FsOp::*;
    let mut c = fsctl().lock().unwrap();
    let name = p.file_name().map(|s| s.to_string_lossy().to_string()).unwrap_or_default();
    c.trace.push(format!("{op:?}:{name}"));
    let fallible = !matches!(op, SymlinkRemove | SymlinkCreate);
    if fallible {
        if let Some(true) = c.faults.pop_front() {
            return vh::FsVerdict::Fail(std::io::ErrorKind::Other);
        }
    }
    let exists = std::fs::symlink_metadata(p).is_ok();
    let is_effect = match op {
        Open | Reopen | SymlinkRemove | SymlinkCreate | GzCreate | GzCopy | GzFinish | Write => true,
        Rename | Remove => exists,
        ReadDir | Metadata | GzOpen => false,
    };
    if is_effect {
        match c.kill {
            Some(0) => return vh::FsVerdict::Abort,
            Some(k) => c.kill = Some(k - 1),
            None => {}
        }
    }
    vh::FsVerdict::Proceed
}

// ---------------------------------------------------------------- background cleanup threads
// schedule points: a request is sent / a request has been worked off / a cleanup thread has ended
use std::sync::atomic::{AtomicUsize, Ordering};
static CL_SENT: AtomicUsize = AtomicUsize::new(0);
static CL_DONE: AtomicUsize = AtomicUsize::new(0);
static CL_EXIT: AtomicUsize = AtomicUsize::new(0);
static AS_SENT: AtomicUsize = AtomicUsize::new(0);
static AS_DONE: AtomicUsize = AtomicUsize::new(0);
static AS_EXIT: AtomicUsize = AtomicUsize::new(0);
pub fn install_sched() {
    vh::set_sched_handler(Some(Box::new(|name: &'static str| match name {
        n if crate::conc::sched_handler(n) => {}
        "cleanup_send" => {
            CL_SENT.fetch_add(1, Ordering::SeqCst);
        }
        "cleanup_done" => {
            CL_DONE.fetch_add(1, Ordering::SeqCst);
        }
        "cleanup_exit" => {
            CL_EXIT.fetch_add(1, Ordering::SeqCst);
        }
        "async_send" => {
            AS_SENT.fetch_add(1, Ordering::SeqCst);
        }
        "async_done" => {
            AS_DONE.fetch_add(1, Ordering::SeqCst);
        }
        "async_exit" => {
            AS_EXIT.fetch_add(1, Ordering::SeqCst);
        }
        _ => {}
    })));
}
/// Lets the asynchronous writer thread work off every message sent so far (or notice that it has ended).
/// The thread announces "done" at the end of each turn of its loop, also of the turn in which it ends.
fn settle_async(exits_before: usize) {
    let t0 = std::time::Instant::now();
    while AS_DONE.load(Ordering::SeqCst) < AS_SENT.load(Ordering::SeqCst)
        && AS_EXIT.load(Ordering::SeqCst) == exits_before
        && t0.elapsed() < std::time::Duration::from_secs(3)
    {
        std::thread::sleep(std::time::Duration::from_micros(100));
    }
    if AS_EXIT.load(Ordering::SeqCst) != exits_before {
        AS_DONE.store(AS_SENT.load(Ordering::SeqCst), Ordering::SeqCst);
    }
}

/// Lets the background cleanup thread finish what it was asked to do (or notice that it has ended).
fn settle_cleanup(exits_before: usize) {
    let t0 = std::time::Instant::now();
    while CL_DONE.load(Ordering::SeqCst) < CL_SENT.load(Ordering::SeqCst)
        && CL_EXIT.load(Ordering::SeqCst) == exits_before
        && t0.elapsed() < std::time::Duration::from_secs(3)
    {
        std::thread::sleep(std::time::Duration::from_micros(200));
    }
    if CL_EXIT.load(Ordering::SeqCst) != exits_before {
        // the thread is gone: nothing more will be worked off
        CL_DONE.store(CL_SENT.load(Ordering::SeqCst), Ordering::SeqCst);
    }
}

// ---------------------------------------------------------------- configuration
pub struct Cfg {
    pub spec_parts: (Vec<u8>, Option<Vec<u8>>, Option<bool>, Option<Vec<u8>>),
    pub rot_first: bool,
    pub append: bool,
    pub cap: Option<usize>,
    pub asyn: Option<(usize, usize)>,
    pub rot: Option<(Criterion, Naming, Cleanup)>,
    pub utc: bool,
    pub link: bool,
    pub bg: bool,
    pub crlf: bool,
}
fn age_of(c: char) -> Age {
    match c {
        'd' => Age::Day,
        'h' => Age::Hour,
        'm' => Age::Minute,
        's' => Age::Second,
        _ => panic!("age"),
    }
}
pub fn parse_cfg(s: &str) -> Cfg {
    let f: Vec<&str> = s.split(',').collect();
    assert!(f.len() >= 12, "config: {s}");
    let rot = if f[6] == "~" {
        None
    } else {
        let crit = match f[6].chars().next().unwrap() {
            's' => Criterion::Size(f[6][1..].parse().unwrap()),
            'a' => Criterion::Age(age_of(f[6].chars().nth(1).unwrap())),
            'x' => Criterion::AgeOrSize(age_of(f[6].chars().nth(1).unwrap()), f[6][2..].parse().unwrap()),
            _ => panic!("crit"),
        };
        let naming = match f[7] {
            "ts" => Naming::Timestamps,
            "tsd" => Naming::TimestampsDirect,
            "num" => Naming::Numbers,
            "numd" => Naming::NumbersDirect,
            other => {
                let p: Vec<&str> = other.split('.').collect();
                assert!(p.len() == 3 && p[0] == "cu");
                Naming::TimestampsCustomFormat {
                    current_infix: opt_unhex(p[1]).map(|b| leak(ustr(&b))),
                    format: leak(ustr(&unhex(p[2]))),
                }
            }
        };
        let cl = &f[8][1..];
        let cleanup = match f[8].chars().next().unwrap() {
            'n' => Cleanup::Never,
            'l' => Cleanup::KeepLogFiles(cl.parse().unwrap()),
            'g' => Cleanup::KeepCompressedFiles(cl.parse().unwrap()),
            'b' => {
                let p: Vec<&str> = cl.split('.').collect();
                Cleanup::KeepLogAndCompressedFiles(p[0].parse().unwrap(), p[1].parse().unwrap())
            }
            _ => panic!("cleanup"),
        };
        Some((crit, naming, cleanup))
    };
    Cfg {
        spec_parts: (unhex(f[0]), opt_unhex(f[1]), match f[2] { "1" => Some(true), "0" => Some(false), _ => None }, opt_unhex(f[3])),
        rot_first: f[2] == "D",
        append: f[4] == "1",
        cap: if f[5] == "~" || f[5].starts_with('a') { None } else { Some(f[5].parse().unwrap()) },
        asyn: f[5].strip_prefix('a').map(|r| {
            let p: Vec<&str> = r.split('.').collect();
            (p[0].parse().unwrap(), p[1].parse().unwrap())
        }),
        rot,
        utc: f[9] == "1",
        link: f[10] == "1",
        bg: f[11] == "1",
        crlf: f.len() > 12 && f[12] == "1",
    }
}
/// The builders offer several equivalent ways to say the same thing (`append()` / `o_append(true)`, `rotate(..)` /
/// `o_rotate(Some(..))`, `suffix(s)` / `o_suffix(Some(s))`, ...): which one a case uses is decided by a hash of its
/// configuration, so that all of them are tied to the same model.
fn variant(c: &Cfg) -> u32 {
    let mut h: u32 = 2166136261;
    let mut eat = |b: &[u8]| {
        for x in b {
            h = (h ^ u32::from(*x)).wrapping_mul(16777619);
        }
    };
    eat(&c.spec_parts.0);
    eat(c.spec_parts.1.as_deref().unwrap_or(b"~"));
    eat(c.spec_parts.3.as_deref().unwrap_or(b"~"));
    eat(&[u8::from(c.append), u8::from(c.utc), u8::from(c.link), u8::from(c.bg), u8::from(c.crlf), c.cap.unwrap_or(0) as u8]);
    h ^ (h >> 15)
}
pub fn file_spec(c: &Cfg, dir: &Path) -> FileSpec {
    let v = variant(c);
    let fs = if v & 1 == 0 { FileSpec::default().directory(dir) } else { FileSpec::default().o_directory(Some(dir)) };
    let base = ustr(&c.spec_parts.0);
    let fs = match (v >> 1) & 3 {
        0 if base.is_empty() => fs.suppress_basename(),
        1 => fs.o_basename(Some(base)),
        _ => fs.basename(base),
    };
    let fs = match (&c.spec_parts.1, (v >> 3) & 1) {
        (Some(d), 0) => fs.discriminant(ustr(d)),
        (d, _) => fs.o_discriminant(d.as_ref().map(|b| ustr(b))),
    };
    let fs = match (&c.spec_parts.3, (v >> 4) & 1) {
        (Some(x), 0) => fs.suffix(ustr(x)),
        (x, _) => fs.o_suffix(x.as_ref().map(|b| ustr(b))),
    };
    // None: the time-stamp setting stays undecided (a start time is then used exactly if there is no rotation)
    match c.spec_parts.2 {
        Some(b) => fs.use_timestamp(b),
        None => fs,
    }
}
pub fn builder(c: &Cfg, dir: &Path, link: &Path) -> FileLogWriterBuilder {
    let v = variant(c);
    let mut b = FileLogWriter::builder(file_spec(c, dir)).format(raw_format);
    b = match (c.append, (v >> 5) & 1) {
        (true, 0) => b.append(),
        (a, _) => b.o_append(a),
    };
    b = b
        .cleanup_in_background_thread(c.bg)
        .write_mode(match (c.cap, c.asyn) {
            (_, Some((pool_capa, message_capa))) => WriteMode::AsyncWith {
                pool_capa,
                message_capa,
                flush_interval: std::time::Duration::from_secs(0),
            },
            (None, None) => WriteMode::Direct,
            (Some(n), None) => WriteMode::BufferDontFlushWith(n),
        });
    // (with an undecided time-stamp setting o_rotate(None) decides it - "use a time stamp" -, which is what the builder
    //  does anyway when no rotation is configured)
    b = match (c.rot, (v >> 6) & 1) {
        (Some((crit, naming, cleanup)), 0) => b.rotate(crit, naming, cleanup),
        (None, 0) => b,
        (r, _) => b.o_rotate(r),
    };
    if c.utc {
        b = b.use_utc();
    }
    b = match (c.link, (v >> 7) & 1) {
        (true, 0) => b.create_symlink(link),
        (false, 0) => b,
        (l, _) => b.o_create_symlink(if l { Some(link) } else { None }),
    };
    if c.crlf {
        b = b.use_windows_line_ending();
    }
    if (v >> 8) & 1 == 1 {
        b = b.o_print_message(false);
    }
    b
}

// ---------------------------------------------------------------- observation
pub fn snapshot(dir: &Path, link: &Path, errs: &[String]) -> String {
    let mut entries: Vec<(Vec<u8>, String)> = vec![];
    if let Ok(rd) = std::fs::read_dir(dir) {
        for e in rd.flatten() {
            let name = e.file_name().to_string_lossy().as_bytes().to_vec();
            let md = std::fs::metadata(e.path());
            let v = if md.as_ref().map(|m| m.is_dir()).unwrap_or(false) {
                "3:-".to_string()
            } else {
                let data = std::fs::read(e.path()).unwrap_or_default();
                if name.ends_with(b".gz") {
                    match gunzip(&data) {
                        Some(d) => format!("1:{}", hex(&d)),
                        None => "2:-".to_string(),
                    }
                } else {
                    format!("0:{}", hex(&data))
                }
            };
            entries.push((name, v));
        }
    }
    entries.sort();
    let files: Vec<String> = entries.iter().map(|(n, v)| format!("{}={}", hex(n), v)).collect();
    let l = match std::fs::read_link(link) {
        Ok(t) => hex(t.file_name().map(|s| s.to_string_lossy().to_string()).unwrap_or_default().as_bytes()),
        Err(_) => "~".to_string(),
    };
    format!("s{{{}}}link={};errs={}", files.join(","), l, errs.join(","))
}

fn code<T, E>(r: Result<Result<T, E>, Box<dyn std::any::Any + Send>>) -> u8 {
    match r {
        Ok(Ok(_)) => 0,
        Ok(Err(_)) => 1,
        Err(_) => 2,
    }
}

struct Live {
    arc: ArcFileLogWriter,
    handle: FileLogWriterHandle,
    crlf: bool,
}

/// kind "flwl": the same operations through the public Logger / LoggerHandle API (log_to_file: the file writer sits
/// behind the MultiWriter, operations are forwarded by the handle)
struct LiveL {
    log: Box<dyn log::Log>,
    handle: flexi_logger::LoggerHandle,
    crlf: bool,
}
thread_local! {
    static VIA_LOGGER: std::cell::Cell<bool> = const { std::cell::Cell::new(false) };
}
pub fn run_case_via_logger(id: &str, toks: &[&str]) -> String {
    VIA_LOGGER.with(|v| v.set(true));
    let r = run_case(id, toks);
    VIA_LOGGER.with(|v| v.set(false));
    r
}
fn logger_of(c: &Cfg, dir: &Path, link: &Path) -> Result<(Box<dyn log::Log>, flexi_logger::LoggerHandle), flexi_logger::FlexiLoggerError> {
    // equivalent builder paths, chosen per configuration (see `variant`)
    let v = variant(c) >> 9;
    let mut l = match v & 3 {
        0 => flexi_logger::Logger::try_with_str("trace")?,
        1 => flexi_logger::Logger::with(flexi_logger::LogSpecification::from(log::LevelFilter::Trace)),
        _ => flexi_logger::Logger::with(flexi_logger::LogSpecification::trace()),
    };
    let rotate = |l: flexi_logger::Logger, r: Option<(Criterion, Naming, Cleanup)>| match (r, (v >> 2) & 1) {
        (Some((crit, naming, cleanup)), 0) => l.rotate(crit, naming, cleanup),
        (None, 0) => l,
        (r, _) => l.o_rotate(r),
    };
    // the order of rotate() and log_to_file() must not matter
    if c.rot_first {
        l = rotate(l, c.rot);
    }
    // (a second writer behind the MultiWriter - one that swallows everything - must not change what the file writer does)
    let l = if (v >> 6) & 1 == 0 { l.log_to_file(file_spec(c, dir)) } else { l.log_to_file_and_writer(file_spec(c, dir), Box::new(crate::lg::Sink)) };
    let mut l = l.format_for_files(raw_format);
    l = match (c.append, (v >> 3) & 1) {
        (true, 0) => l.append(),
        (a, _) => l.o_append(a),
    };
    let mut l = l
        .cleanup_in_background_thread(c.bg)
        .error_channel(flexi_logger::ErrorChannel::File(errfile().clone()))
        .write_mode(match (c.cap, c.asyn) {
            (_, Some((pool_capa, message_capa))) => WriteMode::AsyncWith {
                pool_capa,
                message_capa,
                flush_interval: std::time::Duration::from_secs(0),
            },
            (None, None) => WriteMode::Direct,
            (Some(n), None) => WriteMode::BufferDontFlushWith(n),
        });
    if !c.rot_first {
        l = rotate(l, c.rot);
    }
    if c.utc {
        l = l.use_utc();
    }
    l = match (c.link, (v >> 4) & 1) {
        (true, 0) => l.create_symlink(link),
        (false, 0) => l,
        (k, _) => l.o_create_symlink(if k { Some(link) } else { None }),
    };
    if c.crlf {
        l = l.use_windows_line_ending();
    }
    if (v >> 5) & 1 == 1 {
        l = l.o_print_message(false);
    }
    l.build()
}
fn exec_ops_via_logger(dir: &Path, link: &Path, tok: &str, live: &mut Option<LiveL>) -> String {
    let p: Vec<&str> = tok.split(':').collect();
    match p[0] {
        "B" => {
            let c = parse_cfg(p[1]);
            match catch_unwind(AssertUnwindSafe(|| logger_of(&c, dir, link))) {
                Ok(Ok((log, handle))) => {
                    *live = Some(LiveL { log, handle, crlf: c.crlf });
                    "r0".to_string()
                }
                Ok(Err(_)) => "r1".to_string(),
                Err(_) => "r2".to_string(),
            }
        }
        "W" => match live {
            None => "r3".to_string(),
            Some(l) => {
                let mut b = unhex(p[1]);
                let ending: &[u8] = if l.crlf { b"\r\n" } else { b"\n" };
                assert!(b.ends_with(ending), "W payload must end with the line ending");
                b.truncate(b.len() - ending.len());
                *payload().lock().unwrap() = b;
                let r = catch_unwind(AssertUnwindSafe(|| {
                    l.log.log(&log::Record::builder().level(log::Level::Error).args(format_args!("x")).build())
                }));
                format!("r{}", if r.is_ok() { 0 } else { 2 })
            }
        },
        "F" => match live {
            None => "r3".to_string(),
            Some(l) => format!("r{}", if catch_unwind(AssertUnwindSafe(|| l.handle.flush())).is_ok() { 0 } else { 2 }),
        },
        "T" => match live {
            None => "r3".to_string(),
            Some(l) => format!("r{}", code(catch_unwind(AssertUnwindSafe(|| l.handle.trigger_rotation())))),
        },
        "R" => match live {
            None => "r3".to_string(),
            Some(l) => format!("r{}", code(catch_unwind(AssertUnwindSafe(|| l.handle.reopen_output())))),
        },
        "X" => match live {
            None => "r3".to_string(),
            Some(l) => {
                let c = parse_cfg(p[1]);
                let b = builder(&c, dir, link);
                let r = catch_unwind(AssertUnwindSafe(|| l.handle.reset_flw(&b)));
                // (a rejected reset leaves the configuration - and its line ending - in force)
                let rc = code(r);
                if rc == 0 {
                    l.crlf = c.crlf;
                }
                format!("r{rc}")
            }
        },
        "H" => match live {
            None => "r3".to_string(),
            Some(l) => format!("r{}", if catch_unwind(AssertUnwindSafe(|| l.handle.shutdown())).is_ok() { 0 } else { 2 }),
        },
        "S" => match live.take() {
            None => "r3".to_string(),
            Some(l) => {
                let r = catch_unwind(AssertUnwindSafe(move || {
                    drop(l.handle);
                    drop(l.log);
                }));
                format!("r{}", if r.is_ok() { 0 } else { 2 })
            }
        },
        "Q" => match live {
            None => "r3".to_string(),
            Some(l) => {
                let flags = p[1].as_bytes();
                let mut sel = if flags[0] == b'1' { LogfileSelector::default() } else { LogfileSelector::none() };
                if flags[1] == b'1' {
                    sel = sel.with_compressed_files();
                }
                if flags[2] == b'1' {
                    sel = sel.with_r_current();
                }
                if let Some(c) = opt_unhex(p[2]) {
                    sel = sel.with_custom_current(&ustr(&c));
                }
                match catch_unwind(AssertUnwindSafe(|| l.handle.existing_log_files(&sel))) {
                    Ok(Ok(v)) => format!(
                        "l0[{}]",
                        v.iter().map(|pb| hex(pb.file_name().unwrap().to_string_lossy().as_bytes())).collect::<Vec<_>>().join(",")
                    ),
                    Ok(Err(_)) => "l1[]".to_string(),
                    Err(_) => "l2[]".to_string(),
                }
            }
        },
        _ => "HARNESS-ERROR op-not-available-through-the-logger".to_string(),
    }
}

/// Runs one case "<t0> <off> ; ops..." and returns the observation text.
pub fn run_case(id: &str, toks: &[&str]) -> String {
    let t0: i64 = toks[0].parse().unwrap();
    let _off: i64 = toks[1].parse().unwrap(); // the zone offset is a property of the process (TZ)
    // annotations between <off> and ';' are for the oracles only
    let semi = toks.iter().position(|t| *t == ";").expect("';' missing in case");
    let ops = &toks[semi + 1..];
    let dir: PathBuf = scratch_root().join(format!("c_{id}"));
    let link: PathBuf = scratch_root().join(format!("c_{id}.link"));
    let _ = std::fs::remove_dir_all(&dir);
    let _ = std::fs::remove_file(&link);
    std::fs::create_dir_all(&dir).unwrap();
    let mut out: Vec<String> = vec![];
    if let Some(cr) = ops.iter().position(|t| *t == "CR") {
        // a kill: the operations up to CR run in a child process that dies at the armed kill point; what it
        // could still report is taken over, the rest is "x"; the operations after CR run here, on what it left
        let seg1: Vec<&str> = ops[..cr].iter().copied().filter(|t| !t.is_empty()).collect();
        let exe = std::env::current_exe().unwrap();
        let child = std::process::Command::new(exe)
            .arg("--segment")
            .arg(&dir)
            .arg(&link)
            .arg(t0.to_string())
            .args(&seg1)
            .env("VERIF_SCRATCH", scratch_root().join(format!("child_{id}")))
            .stdout(std::process::Stdio::piped())
            .stderr(std::process::Stdio::null())
            .output()
            .expect("child process");
        let text = String::from_utf8_lossy(&child.stdout).to_string();
        let mut got: Vec<String> = text.lines().filter(|l| l.starts_with("@ ")).map(|l| l[2..].to_string()).collect();
        let _ = std::fs::remove_dir_all(scratch_root().join(format!("child_{id}")));
        got.truncate(seg1.len());
        while got.len() < seg1.len() {
            got.push("x".to_string());
        }
        out.extend(got);
        out.push("r0".to_string()); // CR
        exec_ops(&dir, &link, t0, &ops[cr + 1..], true, &mut |o| out.push(o));
    } else {
        exec_ops(&dir, &link, t0, ops, true, &mut |o| out.push(o));
    }
    let _ = std::fs::remove_dir_all(&dir);
    let _ = std::fs::remove_file(&link);
    out.join(" ")
}

/// child mode: "--segment <dir> <link> <t0> ops..."; every observation is printed at once
pub fn run_segment(args: &[String]) {
    use std::io::Write;
    let dir = PathBuf::from(&args[0]);
    let link = PathBuf::from(&args[1]);
    let t0: i64 = args[2].parse().unwrap();
    let ops: Vec<&str> = args[3..].iter().map(String::as_str).collect();
    let stdout = std::io::stdout();
    exec_ops(&dir, &link, t0, &ops, false, &mut |o| {
        let mut g = stdout.lock();
        let _ = writeln!(g, "@ {o}");
        let _ = g.flush();
    });
    // the kill point was not reached: the process is killed now, nothing is dropped or flushed
    std::process::exit(0);
}

/// Runs operations on the given directory (which is left as it is).
pub fn exec_ops(dir: &Path, link: &Path, t0: i64, ops: &[&str], drop_at_end: bool, emit: &mut dyn FnMut(String)) {
    let dir = dir.to_path_buf();
    let link = link.to_path_buf();
    reset_table();
    set_time(t0);
    {
        let mut c = fsctl().lock().unwrap();
        c.faults.clear();
        c.kill = None;
        c.trace.clear();
    }
    let _ = take_errors();
    let mut errs: Vec<String> = vec![];
    let mut live: Option<Live> = None;
    let mut live_l: Option<LiveL> = None;
    install_sched();
    CL_DONE.store(CL_SENT.load(Ordering::SeqCst), Ordering::SeqCst);
    let mut exits = CL_EXIT.load(Ordering::SeqCst);
    AS_DONE.store(AS_SENT.load(Ordering::SeqCst), Ordering::SeqCst);
    let mut aexits = AS_EXIT.load(Ordering::SeqCst);
    for tok in ops {
        if tok.is_empty() {
            continue;
        }
        let p: Vec<&str> = tok.split(':').collect();
        // the background threads finish what they were asked to do before the next operation - except before a stop or
        // shutdown: those must themselves make sure that everything requested earlier is done
        if p[0] != "S" && p[0] != "H" {
            settle_async(aexits);
            aexits = AS_EXIT.load(Ordering::SeqCst);
            settle_cleanup(exits);
            exits = CL_EXIT.load(Ordering::SeqCst);
        }
        let via = VIA_LOGGER.with(std::cell::Cell::get) && matches!(p[0], "B" | "W" | "F" | "T" | "R" | "X" | "H" | "S" | "Q" | "P");
        let o = match p[0] {
            _ if via => exec_ops_via_logger(&dir, &link, tok, &mut live_l),
            "B" => {
                let c = parse_cfg(p[1]);
                let r = catch_unwind(AssertUnwindSafe(|| builder(&c, &dir, &link).try_build_with_handle()));
                match r {
                    Ok(Ok((arc, handle))) => {
                        live = Some(Live { arc, handle, crlf: c.crlf });
                        "r0".to_string()
                    }
                    Ok(Err(_)) => "r1".to_string(),
                    Err(_) => "r2".to_string(),
                }
            }
            "W" => match &live {
                None => "r3".to_string(),
                Some(l) => {
                    let mut b = unhex(p[1]);
                    let ending: &[u8] = if l.crlf { b"\r\n" } else { b"\n" };
                    assert!(b.ends_with(ending), "W payload must end with the line ending");
                    b.truncate(b.len() - ending.len());
                    *payload().lock().unwrap() = b;
                    let r = catch_unwind(AssertUnwindSafe(|| {
                        LogWriter::write(
                            &*l.arc,
                            &mut DeferredNow::new(),
                            &log::Record::builder().level(log::Level::Error).args(format_args!("x")).build(),
                        )
                    }));
                    // a failing write is reported, the call itself returns Ok
                    format!("r{}", match r { Ok(_) => 0, Err(_) => 2 })
                }
            },
            "P" => match &live {
                None => "r3".to_string(),
                Some(l) => {
                    let b = unhex(p[1]);
                    let mut a = l.arc.clone();
                    let r = catch_unwind(AssertUnwindSafe(|| a.write(&b)));
                    format!("r{}", code(r))
                }
            },
            "F" => match &live {
                None => "r3".to_string(),
                Some(l) => format!("r{}", code(catch_unwind(AssertUnwindSafe(|| LogWriter::flush(&*l.arc))))),
            },
            "T" => match &live {
                None => "r3".to_string(),
                Some(l) => format!("r{}", code(catch_unwind(AssertUnwindSafe(|| FileLogWriter::rotate(&l.arc))))),
            },
            "R" => match &live {
                None => "r3".to_string(),
                Some(l) => format!("r{}", code(catch_unwind(AssertUnwindSafe(|| l.arc.reopen_outputfile())))),
            },
            "X" => match &mut live {
                None => "r3".to_string(),
                Some(l) => {
                    let c = parse_cfg(p[1]);
                    let b = builder(&c, &dir, &link);
                    let r = catch_unwind(AssertUnwindSafe(|| l.arc.reset(&b)));
                    // (a rejected reset leaves the configuration - and its line ending - in force)
                    let rc = code(r);
                    if rc == 0 {
                        l.crlf = c.crlf;
                    }
                    format!("r{rc}")
                }
            },
            "H" => match &live {
                None => "r3".to_string(),
                Some(l) => {
                    let r = catch_unwind(AssertUnwindSafe(|| LogWriter::shutdown(&*l.arc)));
                    format!("r{}", if r.is_ok() { 0 } else { 2 })
                }
            },
            "S" => match live.take() {
                None => "r3".to_string(),
                Some(l) => {
                    let r = catch_unwind(AssertUnwindSafe(move || {
                        drop(l.handle);
                        drop(l.arc);
                    }));
                    format!("r{}", if r.is_ok() { 0 } else { 2 })
                }
            },
            "K" => {
                let dt: i64 = p[1].parse().unwrap();
                set_time(now() + dt);
                "r0".to_string()
            }
            "XR" => {
                let _ = std::fs::rename(dir.join(ustr(&unhex(p[1]))), dir.join(ustr(&unhex(p[2]))));
                "r0".to_string()
            }
            "XD" => {
                let _ = std::fs::remove_file(dir.join(ustr(&unhex(p[1]))));
                "r0".to_string()
            }
            "XC" => {
                let data = unhex(p[3]);
                let bytes = match p[2] {
                    "1" => gzip(&data),
                    "2" => b"\x1f\x8b\x08garbage".to_vec(),
                    _ => data,
                };
                std::fs::write(dir.join(ustr(&unhex(p[1]))), bytes).unwrap();
                "r0".to_string()
            }
            "XM" => {
                let _ = std::fs::create_dir(dir.join(ustr(&unhex(p[1]))));
                "r0".to_string()
            }
            "XL" => {
                // a symbolic link, named like the given file, to a directory outside the log directory
                let target = PathBuf::from(format!("{}.lt{}", dir.display(), p[1].len()));
                let _ = std::fs::create_dir_all(&target);
                #[cfg(unix)]
                let _ = std::os::unix::fs::symlink(&target, dir.join(ustr(&unhex(p[1]))));
                "r0".to_string()
            }
            "Q" => match &live {
                None => "r3".to_string(),
                Some(l) => {
                    let flags = p[1].as_bytes();
                    let mut sel = if flags[0] == b'1' { LogfileSelector::default() } else { LogfileSelector::none() };
                    if flags[1] == b'1' {
                        sel = sel.with_compressed_files();
                    }
                    if flags[2] == b'1' {
                        sel = sel.with_r_current();
                    }
                    if let Some(c) = opt_unhex(p[2]) {
                        sel = sel.with_custom_current(&ustr(&c));
                    }
                    match catch_unwind(AssertUnwindSafe(|| l.arc.existing_log_files(&sel))) {
                        Ok(Ok(v)) => format!(
                            "l0[{}]",
                            v.iter()
                                .map(|pb| hex(pb.file_name().unwrap().to_string_lossy().as_bytes()))
                                .collect::<Vec<_>>()
                                .join(",")
                        ),
                        Ok(Err(_)) => "l1[]".to_string(),
                        Err(_) => "l2[]".to_string(),
                    }
                }
            },
            "FA" => {
                fsctl().lock().unwrap().faults = p[1].chars().map(|c| c == '1').collect();
                "r0".to_string()
            }
            "KI" => {
                fsctl().lock().unwrap().kill = Some(p[1].parse().unwrap());
                "r0".to_string()
            }
            "SN" => {
                errs.extend(take_errors());
                snapshot(&dir, &link, &errs)
            }
            other => panic!("unknown op {other}"),
        };
        if p[0] == "S" || p[0] == "H" {
            // after them nothing may be outstanding
            settle_async(aexits);
            aexits = AS_EXIT.load(Ordering::SeqCst);
            settle_cleanup(exits);
            exits = CL_EXIT.load(Ordering::SeqCst);
        }
        errs.extend(take_errors());
        scan_dir(&dir);
        emit(o);
    }
    if let Some(l) = live_l.take() {
        let _ = catch_unwind(AssertUnwindSafe(move || {
            drop(l.handle);
            drop(l.log);
        }));
    }
    if let Some(l) = live.take() {
        if drop_at_end {
            let _ = catch_unwind(AssertUnwindSafe(move || {
                drop(l.handle);
                drop(l.arc);
            }));
        } else {
            std::mem::forget(l);
        }
    }
}

/// Case kind "tryfrom": FileSpec::try_from(path) denotes exactly that path, and a writer built from it writes there.
pub fn run_tryfrom(id: &str, toks: &[&str]) -> String {
    let rel = ustr(&unhex(toks[0]));
    let root = scratch_root().join(format!("tf_{id}"));
    let _ = std::fs::remove_dir_all(&root);
    std::fs::create_dir_all(&root).unwrap();
    // relative paths are relative to the working directory
    std::env::set_current_dir(&root).unwrap();
    let path = PathBuf::from(&rel);
    let r = catch_unwind(AssertUnwindSafe(|| FileSpec::try_from(path.clone())));
    let out = match r {
        Err(_) => "p2".to_string(),
        Ok(Err(_)) => "p1".to_string(),
        Ok(Ok(spec)) => {
            let back = spec.as_pathbuf(None);
            // the same path, a leading or inner "." aside
            let norm = |p: &Path| p.components().filter(|c| !matches!(c, std::path::Component::CurDir)).collect::<PathBuf>();
            let rt = norm(&back) == norm(&path);
            *payload().lock().unwrap() = b"hello".to_vec();
            let built = catch_unwind(AssertUnwindSafe(|| {
                FileLogWriter::builder(spec.clone()).format(raw_format).try_build_with_handle()
            }));
            match built {
                Ok(Ok((arc, handle))) => {
                    let _ = LogWriter::write(
                        &*arc,
                        &mut DeferredNow::new(),
                        &log::Record::builder().level(log::Level::Error).args(format_args!("x")).build(),
                    );
                    drop(handle);
                    drop(arc);
                    let ok = std::fs::read(&path).map(|d| d == b"hello\n").unwrap_or(false);
                    format!("p0 rt{} b1 w{}", u8::from(rt), u8::from(ok))
                }
                Ok(Err(_)) => format!("p0 rt{} b0 w0", u8::from(rt)),
                Err(_) => format!("p0 rt{} b2 w0", u8::from(rt)),
            }
        }
    };
    std::env::set_current_dir(scratch_root()).unwrap();
    let _ = std::fs::remove_dir_all(&root);
    out
}
