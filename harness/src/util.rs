//! Shared helpers: hex tokens, scratch directories, error channel, virtual clock and creation-time table.
use flexi_logger::verif_hooks as vh;
use std::collections::HashMap;
use std::os::unix::fs::MetadataExt;
use std::path::{Path, PathBuf};
use std::sync::{Arc, Mutex, OnceLock};

pub fn unhex(s: &str) -> Vec<u8> {
    if s == "-" {
        return vec![];
    }
    let b = s.as_bytes();
    (0..b.len() / 2)
        .map(|i| u8::from_str_radix(std::str::from_utf8(&b[2 * i..2 * i + 2]).unwrap(), 16).unwrap())
        .collect()
}
pub fn hex(b: &[u8]) -> String {
    if b.is_empty() {
        return "-".to_string();
    }
    b.iter().map(|x| format!("{x:02x}")).collect()
}
pub fn opt_unhex(s: &str) -> Option<Vec<u8>> {
    if s == "~" {
        None
    } else {
        Some(unhex(s))
    }
}
pub fn ustr(b: &[u8]) -> String {
    String::from_utf8(b.to_vec()).expect("case contains a non-UTF-8 string where a str is needed")
}
pub fn leak(s: String) -> &'static str {
    Box::leak(s.into_boxed_str())
}

pub fn scratch_root() -> &'static PathBuf {
    static R: OnceLock<PathBuf> = OnceLock::new();
    R.get_or_init(|| {
        let base = std::env::var("VERIF_SCRATCH").unwrap_or_else(|_| "/dev/shm".to_string());
        let p = PathBuf::from(base).join(format!("verif.{}", std::process::id()));
        std::fs::create_dir_all(&p).unwrap();
        p
    })
}
pub fn cleanup_scratch() {
    let _ = std::fs::remove_dir_all(scratch_root());
}

// ---------------------------------------------------------------- error channel
pub fn errfile() -> &'static PathBuf {
    static R: OnceLock<PathBuf> = OnceLock::new();
    R.get_or_init(|| scratch_root().join("errchannel.txt"))
}
/// Points flexi_logger's (process-global) error channel to a file.
pub fn install_error_channel() {
    let (_l, _h) = flexi_logger::Logger::try_with_str("off")
        .unwrap()
        .do_not_log()
        .error_channel(flexi_logger::ErrorChannel::File(errfile().clone()))
        .build()
        .unwrap();
}
/// Returns the ERRCODEs written since the last call.
pub fn take_errors() -> Vec<String> {
    let s = std::fs::read_to_string(errfile()).unwrap_or_default();
    let _ = std::fs::write(errfile(), b"");
    let mut v = vec![];
    for part in s.split("[ERRCODE::").skip(1) {
        if let Some(end) = part.find(']') {
            let code = &part[..end];
            if code != "Palette" {
                v.push(code.to_string());
            }
        }
    }
    v
}

// ---------------------------------------------------------------- clock and creation times
pub struct VClock {
    pub now: i64,
    pub table: HashMap<u64, i64>,
}
pub fn vclock() -> &'static Arc<Mutex<VClock>> {
    static C: OnceLock<Arc<Mutex<VClock>>> = OnceLock::new();
    C.get_or_init(|| {
        let c = Arc::new(Mutex::new(VClock { now: 0, table: HashMap::new() }));
        let c2 = c.clone();
        vh::set_creation_time_fn(Some(Box::new(move |p: &Path| {
            let md = std::fs::metadata(p).ok()?;
            let mut g = c2.lock().unwrap();
            let now = g.now;
            Some(*g.table.entry(md.ino()).or_insert(now))
        })));
        c
    })
}
pub fn set_time(t: i64) {
    vclock().lock().unwrap().now = t;
    vh::set_now(Some(t), 0);
}
pub fn now() -> i64 {
    vclock().lock().unwrap().now
}
pub fn reset_table() {
    vclock().lock().unwrap().table.clear();
}
/// Gives every file of the directory that is not yet known the current virtual time as birth time
/// and forgets inodes that no longer exist.
pub fn scan_dir(d: &Path) {
    let mut g = vclock().lock().unwrap();
    let now = g.now;
    let mut seen = vec![];
    if let Ok(rd) = std::fs::read_dir(d) {
        for e in rd.flatten() {
            if let Ok(md) = e.metadata() {
                seen.push(md.ino());
                g.table.entry(md.ino()).or_insert(now);
            }
        }
    }
    g.table.retain(|k, _| seen.contains(k));
}

pub fn gunzip(b: &[u8]) -> Option<Vec<u8>> {
    use std::io::Read;
    let mut d = flate2::read::GzDecoder::new(b);
    let mut out = vec![];
    match d.read_to_end(&mut out) {
        Ok(_) => Some(out),
        Err(_) => None,
    }
}
pub fn gzip(b: &[u8]) -> Vec<u8> {
    use std::io::Write;
    let mut e = flate2::write::GzEncoder::new(Vec::new(), flate2::Compression::fast());
    e.write_all(b).unwrap();
    e.finish().unwrap()
}

// ---------------------------------------------------------------- stdout / stderr capture
// fd 1 and fd 2 of the harness are redirected to two files; results go to a duplicate of the real stdout.
pub fn capture_files() -> &'static (PathBuf, PathBuf) {
    static R: OnceLock<(PathBuf, PathBuf)> = OnceLock::new();
    R.get_or_init(|| (scratch_root().join("cap.err"), scratch_root().join("cap.out")))
}
/// Redirects fd 1 and fd 2; returns a File for the real stdout.
pub fn redirect_std() -> std::fs::File {
    use std::os::unix::io::{AsRawFd, FromRawFd};
    let (e, o) = capture_files();
    let real = unsafe { libc::dup(1) };
    let fe = std::fs::OpenOptions::new().create(true).append(true).open(e).unwrap();
    let fo = std::fs::OpenOptions::new().create(true).append(true).open(o).unwrap();
    unsafe {
        libc::dup2(fe.as_raw_fd(), 2);
        libc::dup2(fo.as_raw_fd(), 1);
    }
    std::mem::forget(fe);
    std::mem::forget(fo);
    unsafe { std::fs::File::from_raw_fd(real) }
}
pub fn capture_reset() {
    use std::io::Write;
    let _ = std::io::stdout().flush();
    let _ = std::io::stderr().flush();
    let (e, o) = capture_files();
    let _ = std::fs::OpenOptions::new().write(true).open(e).map(|f| f.set_len(0));
    let _ = std::fs::OpenOptions::new().write(true).open(o).map(|f| f.set_len(0));
}
/// (stderr bytes, stdout bytes) since the last reset
pub fn capture_read() -> (Vec<u8>, Vec<u8>) {
    use std::io::Write;
    let _ = std::io::stdout().flush();
    let _ = std::io::stderr().flush();
    let (e, o) = capture_files();
    (std::fs::read(e).unwrap_or_default(), std::fs::read(o).unwrap_or_default())
}
