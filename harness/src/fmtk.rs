//! Case kinds "fmt" (the provided format functions, called directly) and "frame" (a built logger: framing,
//! line endings, recursion, one time stamp per record across all outputs).
use crate::util::*;
use flexi_logger::verif_hooks as vh;
use flexi_logger::writers::FileLogWriter;
use flexi_logger::{DeferredNow, Duplicate, FileSpec, FormatFunction, Logger, WriteMode};
use std::sync::{Mutex, OnceLock};

fn level_of(n: usize) -> log::Level {
    [log::Level::Error, log::Level::Error, log::Level::Warn, log::Level::Info, log::Level::Debug, log::Level::Trace][n]
}
fn format_fn(kind: &str, colored: bool) -> FormatFunction {
    match (kind, colored) {
        ("d", false) => flexi_logger::default_format,
        ("d", true) => flexi_logger::colored_default_format,
        ("o", false) => flexi_logger::opt_format,
        ("o", true) => flexi_logger::colored_opt_format,
        ("t", false) => flexi_logger::detailed_format,
        ("t", true) => flexi_logger::colored_detailed_format,
        ("w", false) => flexi_logger::with_thread,
        ("w", true) => flexi_logger::colored_with_thread,
        ("j", _) => flexi_logger::json_format,
        _ => panic!("format kind"),
    }
}

/// "<secs> <off> <micros> <kind> <colored> <level> <module|~> <file|~> <line|~> <thread|~> <msg>"
pub fn run_fmt(toks: &[&str]) -> String {
    let secs: i64 = toks[0].parse().unwrap();
    let micros: u32 = toks[2].parse().unwrap();
    let kind = toks[3].to_string();
    let colored = toks[4] == "1";
    let level = level_of(toks[5].parse().unwrap());
    let module = opt_unhex(toks[6]).map(|b| ustr(&b));
    let file = opt_unhex(toks[7]).map(|b| ustr(&b));
    let line: Option<u32> = if toks[8] == "~" { None } else { Some(toks[8].parse().unwrap()) };
    let thread = opt_unhex(toks[9]).map(|b| ustr(&b));
    let msg = ustr(&unhex(toks[10]));
    // key-value pairs: "~" or k=iN / k=sHEX separated by ';'
    enum V {
        I(u64),
        S(String),
    }
    let kvs: Vec<(String, V)> = if toks.len() < 12 || toks[11] == "~" {
        vec![]
    } else {
        toks[11]
            .split(';')
            .map(|t| {
                let (k, v) = t.split_once('=').unwrap();
                let key = ustr(&unhex(k));
                if let Some(n) = v.strip_prefix('i') {
                    (key, V::I(n.parse().unwrap()))
                } else {
                    (key, V::S(ustr(&unhex(&v[1..]))))
                }
            })
            .collect()
    };
    vh::set_tick(0);
    vh::set_now(Some(secs), micros * 1000);
    let work = move || {
        let mut buf: Vec<u8> = vec![];
        let f = format_fn(&kind, colored);
        let source: Vec<(&str, log::kv::Value)> = kvs
            .iter()
            .map(|(k, v)| {
                (
                    k.as_str(),
                    match v {
                        V::I(n) => log::kv::Value::from(*n),
                        V::S(s) => log::kv::Value::from(s.as_str()),
                    },
                )
            })
            .collect();
        let r = f(
            &mut buf,
            &mut DeferredNow::new(),
            &log::Record::builder()
                .level(level)
                .module_path(module.as_deref())
                .file(file.as_deref())
                .line(line)
                .key_values(&source)
                .args(format_args!("{msg}"))
                .build(),
        );
        let mut out = if r.is_ok() { hex(&buf) } else { "ERR".to_string() };
        if kind == "j" {
            // every field must decode to the value that went in
            out.push_str(&match serde_json::from_slice::<serde_json::Value>(&buf) {
                Ok(v) => {
                    let s = |k: &str| v.get(k).and_then(|x| x.as_str()).map_or("~".to_string(), |x| hex(x.as_bytes()));
                    // the kv object as serde_json reads it (with the default features its map keeps the keys sorted)
                    let kvdec = match v.get("kv").and_then(serde_json::Value::as_object) {
                        None => "~".to_string(),
                        Some(m) => m
                            .iter()
                            .map(|(k, x)| {
                                format!(
                                    "{}:{}",
                                    hex(k.as_bytes()),
                                    match x {
                                        serde_json::Value::Number(n) => format!("i{n}"),
                                        serde_json::Value::String(t) => format!("s{}", hex(t.as_bytes())),
                                        other => format!("?{other}"),
                                    }
                                )
                            })
                            .collect::<Vec<_>>()
                            .join(","),
                    };
                    format!(
                        " dec[level={};thread={};module_path={};file={};line={};text={};kv={}]",
                        s("level"),
                        s("thread"),
                        s("module_path"),
                        s("file"),
                        v.get("line").and_then(serde_json::Value::as_u64).map_or("~".to_string(), |n| n.to_string()),
                        s("text"),
                        kvdec
                    )
                }
                Err(_) => " dec[INVALID]".to_string(),
            });
        }
        out
    };
    let b = std::thread::Builder::new();
    let b = match thread {
        Some(n) => b.name(n),
        None => b,
    };
    b.spawn(work).unwrap().join().unwrap_or_else(|_| "PANIC".to_string())
}

// ---------------------------------------------------------------- frame
struct Shared {
    log: Option<Box<dyn log::Log>>,
}
fn shared() -> &'static Mutex<Shared> {
    static S: OnceLock<Mutex<Shared>> = OnceLock::new();
    S.get_or_init(|| Mutex::new(Shared { log: None }))
}
fn with_log<R>(f: impl FnOnce(&dyn log::Log) -> R) -> R {
    // the logger is only read; the pointer outlives the case (it is dropped at the end of the case)
    let p: *const dyn log::Log = {
        let g = shared().lock().unwrap();
        &**g.log.as_ref().unwrap() as *const dyn log::Log
    };
    f(unsafe { &*p })
}
/// a message whose Display implementation logs further records
struct Nested {
    text: String,
    inner: Vec<(usize, String)>,
    target: String,
}
impl std::fmt::Display for Nested {
    fn fmt(&self, f: &mut std::fmt::Formatter<'_>) -> std::fmt::Result {
        for (l, m) in &self.inner {
            with_log(|log| {
                log.log(
                    &log::Record::builder()
                        .level(level_of(*l))
                        .target(&self.target)
                        .module_path(Some("inner"))
                        .file(Some("in.rs"))
                        .line(Some(7))
                        .args(format_args!("{m}"))
                        .build(),
                )
            });
        }
        f.write_str(&self.text)
    }
}

/// "<secs> <off> <kind> <crlf> <tick> <mode> ; R:<level>:<msg>[:<level>:<msg>]* ..."   mode: d | b<cap>
pub fn run_frame(id: &str, toks: &[&str]) -> String {
    let secs: i64 = toks[0].parse().unwrap();
    let kind = toks[2];
    let crlf = toks[3] == "1";
    let tick: i64 = toks[4].parse().unwrap();
    let mode = toks[5];
    let semi = toks.iter().position(|t| *t == ";").unwrap();
    let dir = scratch_root().join(format!("fr_{id}"));
    let _ = std::fs::remove_dir_all(&dir);
    std::fs::create_dir_all(&dir).unwrap();
    let f = format_fn(kind, false);
    let wm = if let Some(c) = mode.strip_prefix('b') { WriteMode::BufferDontFlushWith(c.parse().unwrap()) } else { WriteMode::Direct };
    let mut wb = FileLogWriter::builder(FileSpec::default().directory(&dir).basename("w").suppress_timestamp()).format(f);
    if crlf {
        wb = wb.use_windows_line_ending();
    }
    let mut logger = Logger::try_with_str("trace")
        .unwrap()
        .log_to_file(FileSpec::default().directory(&dir).basename("main").suppress_timestamp())
        .format_for_files(f)
        .format_for_stderr(f)
        .duplicate_to_stderr(Duplicate::All)
        .write_mode(wm)
        .add_writer("W", Box::new(wb.try_build().unwrap()))
        .error_channel(flexi_logger::ErrorChannel::File(errfile().clone()));
    if crlf {
        logger = logger.use_windows_line_ending();
    }
    vh::set_tick(0);
    vh::set_now(Some(secs), 0);
    let (log, handle) = logger.build().unwrap();
    shared().lock().unwrap().log = Some(log);
    vh::set_tick(tick);
    capture_reset();
    let mut results = vec![];
    for tok in &toks[semi + 1..] {
        if tok.is_empty() {
            continue;
        }
        let p: Vec<&str> = tok.split(':').collect();
        let level = level_of(p[1].parse().unwrap());
        let text = ustr(&unhex(p[2]));
        let mut inner = vec![];
        let mut i = 3;
        while i + 1 < p.len() {
            inner.push((p[i].parse().unwrap(), ustr(&unhex(p[i + 1]))));
            i += 2;
        }
        let msg = Nested { text, inner, target: "{W,_Default}".to_string() };
        let r = std::panic::catch_unwind(std::panic::AssertUnwindSafe(|| {
            with_log(|log| {
                log.log(
                    &log::Record::builder()
                        .level(level)
                        .target("{W,_Default}")
                        .module_path(Some("outer::m"))
                        .file(Some("src/x.rs"))
                        .line(Some(42))
                        .args(format_args!("{msg}"))
                        .build(),
                )
            })
        }));
        results.push(if r.is_ok() { "r0" } else { "r2" });
    }
    handle.flush();
    handle.shutdown();
    let (err, _out) = capture_read();
    vh::set_tick(0);
    let main = std::fs::read(dir.join("main.log")).unwrap_or_default();
    let w = std::fs::read(dir.join("w.log")).unwrap_or_default();
    std::mem::forget(handle);
    shared().lock().unwrap().log = None;
    let _ = std::fs::remove_dir_all(&dir);
    format!("{} main={} w={} err={}", results.join(","), hex(&main), hex(&w), hex(&err))
}
