//! Case kinds "lh" (a built Logger and its handles: log, flush, shutdown, clone, drop) and "mt" (several threads
//! logging concurrently).
use crate::flw::snapshot;
use crate::util::*;
use flexi_logger::verif_hooks as vh;
use flexi_logger::{Cleanup, Criterion, DeferredNow, FileSpec, Logger, LoggerHandle, Naming, WriteMode};
use std::io::Write;
use std::time::Duration;

fn msg_only(w: &mut dyn Write, _now: &mut DeferredNow, r: &log::Record) -> std::io::Result<()> {
    write!(w, "{}", r.args())
}
pub fn write_mode(tok: &str) -> WriteMode {
    match tok.as_bytes()[0] {
        b'd' => WriteMode::Direct,
        b'b' => WriteMode::BufferDontFlushWith(tok[1..].parse().unwrap()),
        b'f' => WriteMode::BufferAndFlushWith(tok[1..].parse().unwrap(), Duration::from_millis(20)),
        b'a' => {
            let p: Vec<&str> = tok[1..].split('.').collect();
            WriteMode::AsyncWith { pool_capa: p[0].parse().unwrap(), message_capa: p[1].parse().unwrap(), flush_interval: Duration::from_secs(0) }
        }
        b'A' => {
            let p: Vec<&str> = tok[1..].split('.').collect();
            WriteMode::AsyncWith { pool_capa: p[0].parse().unwrap(), message_capa: p[1].parse().unwrap(), flush_interval: Duration::from_millis(20) }
        }
        _ => panic!("write mode"),
    }
}
fn naming_of(tok: &str) -> Naming {
    match tok {
        "num" => Naming::Numbers,
        "numd" => Naming::NumbersDirect,
        "ts" => Naming::Timestamps,
        "tsd" => Naming::TimestampsDirect,
        _ => panic!("naming"),
    }
}
pub fn build_logger(out: &str, mode: &str, rot: &str, naming: &str, dir: &std::path::Path) -> (Box<dyn log::Log>, LoggerHandle) {
    let mut l = Logger::try_with_str("trace").unwrap().format(msg_only).write_mode(write_mode(mode));
    l = match out {
        "file" => {
            let l = l.log_to_file(FileSpec::default().directory(dir).basename("a").suppress_timestamp());
            if rot == "~" {
                l
            } else {
                l.rotate(Criterion::Size(rot[1..].parse().unwrap()), naming_of(naming), Cleanup::Never)
            }
        }
        "stdout" => l.log_to_stdout(),
        "stderr" => l.log_to_stderr(),
        _ => panic!("output"),
    };
    l.error_channel(flexi_logger::ErrorChannel::File(errfile().clone())).build().unwrap()
}
fn observe(out: &str, dir: &std::path::Path) -> String {
    match out {
        "file" => snapshot(dir, &dir.join("nolink"), &[]),
        "stdout" => format!("o={}", hex(&capture_read().1)),
        _ => format!("o={}", hex(&capture_read().0)),
    }
}

/// "<out> <mode> <rot> <naming> ; ops"     ops: L:<hex> F H C D:<i> SN
pub fn run_lh(id: &str, toks: &[&str]) -> String {
    let (out, mode, rot, naming) = (toks[0], toks[1], toks[2], toks[3]);
    let semi = toks.iter().position(|t| *t == ";").unwrap();
    let dir = scratch_root().join(format!("lh_{id}"));
    let _ = std::fs::remove_dir_all(&dir);
    std::fs::create_dir_all(&dir).unwrap();
    vh::set_tick(0);
    set_time(1_709_251_198);
    crate::flw::install_sched();
    capture_reset();
    let (log, h0) = build_logger(out, mode, rot, naming, &dir);
    let mut handles: Vec<Option<LoggerHandle>> = vec![Some(h0)];
    let mut res = vec![];
    for tok in &toks[semi + 1..] {
        if tok.is_empty() {
            continue;
        }
        let p: Vec<&str> = tok.split(':').collect();
        let first_alive = handles.iter().position(Option::is_some);
        let o = match p[0] {
            "L" => {
                let msg = ustr(&unhex(p[1]));
                log.log(&log::Record::builder().level(log::Level::Info).target("t").args(format_args!("{msg}")).build());
                "r0".to_string()
            }
            "F" => {
                if let Some(i) = first_alive {
                    handles[i].as_ref().unwrap().flush();
                }
                "r0".to_string()
            }
            "H" => {
                if let Some(i) = first_alive {
                    handles[i].as_ref().unwrap().shutdown();
                }
                "r0".to_string()
            }
            "C" => {
                if let Some(i) = first_alive {
                    let c = handles[i].as_ref().unwrap().clone();
                    handles.push(Some(c));
                }
                "r0".to_string()
            }
            "D" => {
                let i: usize = p[1].parse().unwrap();
                if i < handles.len() {
                    handles[i] = None;
                }
                "r0".to_string()
            }
            "SN" => observe(out, &dir),
            other => panic!("lh op {other}"),
        };
        res.push(o);
    }
    // all observations are taken: let everything shut down
    drop(handles);
    drop(log);
    let _ = std::fs::remove_dir_all(&dir);
    res.join(" ")
}

/// "<out> <mode> <rot> <naming> <threads> <lines> <len>": every thread logs <lines> lines "T<i>-<k>-xxxx"
pub fn run_mt(id: &str, toks: &[&str]) -> String {
    let (out, mode, rot, naming) = (toks[0], toks[1], toks[2], toks[3]);
    let threads: usize = toks[4].parse().unwrap();
    let lines: usize = toks[5].parse().unwrap();
    let len: usize = toks[6].parse().unwrap();
    let dir = scratch_root().join(format!("mt_{id}"));
    let _ = std::fs::remove_dir_all(&dir);
    std::fs::create_dir_all(&dir).unwrap();
    vh::set_tick(0);
    set_time(1_709_251_198);
    capture_reset();
    let (log, handle) = build_logger(out, mode, rot, naming, &dir);
    let log: std::sync::Arc<Box<dyn log::Log>> = std::sync::Arc::new(log);
    let barrier = std::sync::Arc::new(std::sync::Barrier::new(threads));
    let mut joins = vec![];
    for t in 0..threads {
        let log = log.clone();
        let barrier = barrier.clone();
        joins.push(std::thread::spawn(move || {
            barrier.wait();
            for k in 0..lines {
                // lengths vary around <len> so that lines straddle buffer and message capacities
                let pad = "x".repeat((len + (k * 7 + t * 3) % 11).saturating_sub(10));
                // thread 0 logs single letters A..Z: a line that is exactly "F" or "S" must be a line like any other
                // (the asynchronous writers once took such content for their flush / shutdown messages)
                let msg = if t == 0 { ((b'A' + (k % 26) as u8) as char).to_string() } else { format!("T{t}-{k}-{pad}") };
                log.log(&log::Record::builder().level(log::Level::Info).target("t").args(format_args!("{msg}")).build());
                if k % 17 == t {
                    std::thread::yield_now();
                }
            }
        }));
    }
    // C04 under contention: one more thread logs a line, calls flush() and reads the file at once - the line whose log call
    // has returned must be there, however busy the other threads keep the writer (synchronous modes, one file)
    let flush_checked = out == "file" && rot == "~" && !mode.starts_with('a') && !mode.starts_with('A');
    let misses = std::sync::Arc::new(std::sync::atomic::AtomicUsize::new(0));
    if flush_checked {
        let log = log.clone();
        let h = handle.clone();
        let dir = dir.clone();
        let misses = misses.clone();
        joins.push(std::thread::spawn(move || {
            for k in 0..lines {
                let msg = format!("Q-{k}");
                log.log(&log::Record::builder().level(log::Level::Info).target("t").args(format_args!("{msg}")).build());
                h.flush();
                let mut all = Vec::new();
                if let Ok(rd) = std::fs::read_dir(&dir) {
                    for e in rd.flatten() {
                        all.extend(std::fs::read(e.path()).unwrap_or_default());
                    }
                }
                let needle = format!("{msg}\n");
                if !all.windows(needle.len()).any(|w| w == needle.as_bytes()) {
                    misses.fetch_add(1, std::sync::atomic::Ordering::SeqCst);
                }
            }
        }));
    }
    for j in joins {
        let _ = j.join();
    }
    handle.shutdown();
    let mut o = observe(out, &dir);
    if flush_checked {
        o = format!("{o} q{}", misses.load(std::sync::atomic::Ordering::SeqCst));
    }
    drop(handle);
    drop(log);
    let _ = std::fs::remove_dir_all(&dir);
    o
}
