//! Correspondence harness: reads case lines "<id> <kind> ...", runs them against the real
//! flexi_logger (public API, hooks on) and prints "<id> <observation>" per case.
mod flw;
mod lg;
mod util;

use std::io::BufRead;

fn main() {
    let args: Vec<String> = std::env::args().collect();
    std::panic::set_hook(Box::new(|_| {}));
    util::install_error_channel();
    let mut real_out = util::redirect_std();
    let reader: Box<dyn BufRead> = if args.len() > 1 {
        Box::new(std::io::BufReader::new(std::fs::File::open(&args[1]).unwrap()))
    } else {
        Box::new(std::io::BufReader::new(std::io::stdin()))
    };
    for line in reader.lines() {
        let line = line.unwrap();
        if line.is_empty() || line.starts_with('#') {
            continue;
        }
        let toks: Vec<&str> = line.split(' ').collect();
        if toks.len() < 2 {
            continue;
        }
        let id = toks[0];
        let out = match std::panic::catch_unwind(|| match toks[1] {
            "flw" => flw::run_case(id, &toks[2..]),
            "spec" => lg::run_spec(&toks[2..]),
            "specb" => lg::run_specb(&toks[2..]),
            "lg" => lg::run_lg(id, &toks[2..]),
            k => format!("HARNESS-ERROR unknown kind {k}"),
        }) {
            Ok(s) => s,
            Err(e) => format!(
                "HARNESS-ERROR {}",
                e.downcast_ref::<String>().cloned().or_else(|| e.downcast_ref::<&str>().map(|s| s.to_string())).unwrap_or_default()
            ),
        };
        {
            use std::io::Write;
            writeln!(real_out, "{id} {out}").unwrap();
        }
    }
    util::cleanup_scratch();
}
