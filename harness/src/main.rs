//! Correspondence harness: reads case lines "<id> <kind> ...", runs them against the real
//! flexi_logger (public API, hooks on) and prints "<id> <observation>" per case.
mod conc;
mod flw;
mod fmtk;
mod lg;
mod lh;
mod util;

use std::io::BufRead;

fn main() {
    let args: Vec<String> = std::env::args().collect();
    std::panic::set_hook(Box::new(|_| {}));
    util::install_error_channel();
    if args.len() > 2 && args[1] == "--segment" {
        // child of a crash case: it dies at the armed kill point
        flw::run_segment(&args[2..]);
        util::cleanup_scratch();
        return;
    }
    let mut real_out = util::redirect_std();
    let reader: Box<dyn BufRead> = if args.len() > 1 {
        Box::new(std::io::BufReader::new(std::fs::File::open(&args[1]).unwrap()))
    } else {
        Box::new(std::io::BufReader::new(std::io::stdin()))
    };
    for line in reader.lines() {
        let line = line.unwrap();
        if line.is_empty() || line.starts_with('#') {
            continue;
        }
        // every case runs in a thread of its own: flexi_logger formats into a thread-local buffer, and what a
        // panicking write leaves in it must not leak into the next case
        let line2 = line.clone();
        let handle = std::thread::spawn(move || {
            let toks: Vec<&str> = line2.split(' ').collect();
            if toks.len() < 2 {
                return None;
            }
            let id = toks[0].to_string();
            let out = match std::panic::catch_unwind(|| match toks[1] {
                "flw" => flw::run_case(toks[0], &toks[2..]),
                "flwl" => flw::run_case_via_logger(toks[0], &toks[2..]),
                "tryfrom" => flw::run_tryfrom(toks[0], &toks[2..]),
                "conc" => conc::run_conc(toks[0], &toks[2..]),
                "lh" => lh::run_lh(toks[0], &toks[2..]),
                "mt" => lh::run_mt(toks[0], &toks[2..]),
                "fmt" => fmtk::run_fmt(&toks[2..]),
                "frame" => fmtk::run_frame(toks[0], &toks[2..]),
                "spec" => lg::run_spec(&toks[2..]),
                "specb" => lg::run_specb(&toks[2..]),
                "lg" => lg::run_lg(toks[0], &toks[2..]),
                k => format!("HARNESS-ERROR unknown kind {k}"),
            }) {
                Ok(s) => s,
                Err(e) => format!(
                    "HARNESS-ERROR {}",
                    e.downcast_ref::<String>().cloned().or_else(|| e.downcast_ref::<&str>().map(|s| s.to_string())).unwrap_or_default()
                ),
            };
            Some((id, out))
        });
        let (id, out) = match handle.join() {
            Ok(Some(x)) => x,
            Ok(None) => continue,
            Err(_) => (line.split(' ').next().unwrap_or("?").to_string(), "HARNESS-ERROR case thread died".to_string()),
        };
        {
            use std::io::Write;
            writeln!(real_out, "{id} {out}").unwrap();
        }
    }
    util::cleanup_scratch();
}
