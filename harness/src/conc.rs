//! Case kind "conc": concurrent specification changes from handle clones on several threads, driven
//! step by step through the schedule points in WritersHandle::set_new_spec.
use crate::util::*;
use flexi_logger::{FlexiLoggerError, LogSpecification, Logger};
use std::cell::Cell;
use std::collections::HashMap;
use std::sync::{Condvar, Mutex, OnceLock};
use std::time::{Duration, Instant};

thread_local! {
    static TID: Cell<Option<usize>> = const { Cell::new(None) };
}
#[derive(Default)]
struct Ctl {
    active: bool,
    free_run: bool,
    parked: HashMap<usize, &'static str>,
    allowed: HashMap<usize, bool>,
    finished: HashMap<usize, bool>,
    events: Vec<String>,
}
fn ctl() -> &'static (Mutex<Ctl>, Condvar) {
    static C: OnceLock<(Mutex<Ctl>, Condvar)> = OnceLock::new();
    C.get_or_init(|| (Mutex::new(Ctl::default()), Condvar::new()))
}
/// the handler of the schedule points for the controlled threads (others pass through)
pub fn sched_handler(name: &'static str) -> bool {
    let Some(tid) = TID.with(Cell::get) else { return false };
    if !name.starts_with("spec_") {
        return false;
    }
    let (m, cv) = ctl();
    let mut g = m.lock().unwrap();
    if !g.active {
        return true;
    }
    g.events.push(format!("{tid}:{}", &name[5..]));
    if g.free_run {
        return true;
    }
    g.parked.insert(tid, name);
    cv.notify_all();
    while !g.allowed.get(&tid).copied().unwrap_or(false) && !g.free_run {
        g = cv.wait(g).unwrap();
    }
    g.allowed.insert(tid, false);
    g.parked.remove(&tid);
    cv.notify_all();
    true
}

fn spec_of(s: &str) -> LogSpecification {
    match LogSpecification::parse(s) {
        Ok(sp) => sp,
        Err(FlexiLoggerError::Parse(_, sp)) => sp,
        Err(_) => LogSpecification::off(),
    }
}
fn lvl_num(l: log::LevelFilter) -> usize {
    l as usize
}
fn level_of(n: usize) -> log::Level {
    [log::Level::Error, log::Level::Error, log::Level::Warn, log::Level::Info, log::Level::Debug, log::Level::Trace][n]
}

/// "<spec0> <probes> ; <t0 calls a,b|t1 calls c> ; <schedule digits>"
pub fn run_conc(_id: &str, toks: &[&str]) -> String {
    crate::flw::install_sched();
    let parts: Vec<&[&str]> = toks.split(|t| *t == ";").collect();
    let spec0 = ustr(&unhex(parts[0][0]));
    let probes: Vec<String> = parts[0][1].split(',').map(|h| ustr(&unhex(h))).collect();
    // a call is <hex spec> (set_new_spec), U<hex spec> (push_temp_spec) or O (pop_temp_spec)
    let threads: Vec<Vec<String>> = parts[1][0]
        .split('|')
        .map(|t| {
            if t == "-" {
                vec![]
            } else {
                t.split(',')
                    .map(|h| match h.strip_prefix('U') {
                        Some(rest) => format!("U{}", ustr(&unhex(rest))),
                        None if h == "O" => "O".to_string(),
                        None => format!("S{}", ustr(&unhex(h))),
                    })
                    .collect()
            }
        })
        .collect();
    let schedule: Vec<usize> = parts[2].first().map_or(vec![], |s| s.chars().map(|c| c.to_digit(10).unwrap() as usize).collect());
    let (log, handle) = Logger::with(spec_of(&spec0))
        .log_to_writer(Box::new(crate::lg::Sink))
        .error_channel(flexi_logger::ErrorChannel::File(errfile().clone()))
        .build()
        .unwrap();
    let (m, cv) = ctl();
    {
        let mut g = m.lock().unwrap();
        *g = Ctl::default();
        g.active = true;
    }
    let mut joins = vec![];
    for (tid, calls) in threads.iter().enumerate() {
        let mut h = handle.clone();
        let calls = calls.clone();
        joins.push(std::thread::spawn(move || {
            TID.with(|t| t.set(Some(tid)));
            for c in calls {
                match c.split_at(1) {
                    ("U", spec) => h.push_temp_spec(spec_of(spec)),
                    ("O", _) => h.pop_temp_spec(),
                    (_, spec) => h.set_new_spec(spec_of(spec)),
                }
            }
            let (m, cv) = ctl();
            let mut g = m.lock().unwrap();
            g.finished.insert(tid, true);
            cv.notify_all();
            // the clone must not shut the writers down when it is dropped: keep it until the end
            std::mem::forget(h);
        }));
    }
    let wait = |pred: &dyn Fn(&Ctl) -> bool, ms: u64| -> bool {
        let deadline = Instant::now() + Duration::from_millis(ms);
        let mut g = m.lock().unwrap();
        while !pred(&g) {
            let now = Instant::now();
            if now >= deadline {
                return false;
            }
            g = cv.wait_timeout(g, deadline - now).unwrap().0;
        }
        true
    };
    // every thread first parks at its first point (or finishes at once)
    for tid in 0..threads.len() {
        wait(&|g: &Ctl| g.parked.contains_key(&tid) || g.finished.get(&tid).copied().unwrap_or(false), 2000);
    }
    let mut blocked_log: Vec<String> = vec![];
    for &tid in &schedule {
        let fin = m.lock().unwrap().finished.get(&tid).copied().unwrap_or(false);
        if fin || tid >= threads.len() {
            continue;
        }
        // the thread may still be on its way to a point (it was blocked when last released)
        if !wait(&|g: &Ctl| g.parked.contains_key(&tid) || g.finished.get(&tid).copied().unwrap_or(false), 60) {
            blocked_log.push(format!("{tid}"));
            continue;
        }
        if m.lock().unwrap().finished.get(&tid).copied().unwrap_or(false) {
            continue;
        }
        {
            let mut g = m.lock().unwrap();
            g.allowed.insert(tid, true);
            cv.notify_all();
        }
        // let it run to its next point, to its end, or into the lock
        wait(&|g: &Ctl| !g.allowed.get(&tid).copied().unwrap_or(false), 500);
        wait(&|g: &Ctl| g.parked.contains_key(&tid) || g.finished.get(&tid).copied().unwrap_or(false), 60);
    }
    {
        let mut g = m.lock().unwrap();
        g.free_run = true;
        cv.notify_all();
    }
    for j in joins {
        let _ = j.join();
    }
    let events = {
        let mut g = m.lock().unwrap();
        g.active = false;
        g.events.clone()
    };
    let mut grid = String::new();
    for t in &probes {
        for l in 1..=5 {
            let b = log.enabled(&log::Metadata::builder().level(level_of(l)).target(t).build());
            grid.push(if b { '1' } else { '0' });
        }
    }
    let gate = lvl_num(log::max_level());
    std::mem::forget(handle);
    drop(log);
    format!("ev[{}] g{} x{}", events.join(","), gate, grid)
}
